"""development aid: apply one text edit to a scratch copy of /repo and run property checks on it.
usage: adhoc.py <relative file> <props comma separated> <<< JSON {"old":..., "new":...}"""
import json, os, shutil, subprocess, sys, tempfile
sys.path.insert(0, os.path.dirname(os.path.dirname(os.path.abspath(__file__))))
from sa import mutants, VERIF

rel, props = sys.argv[1], sys.argv[2].split(",")
e = json.load(sys.stdin)
tmp = tempfile.mkdtemp(prefix="sa-adhoc-")
try:
    root = os.path.join(tmp, "repo")
    mutants._copy_repo(root)
    if not mutants._apply(root, rel, e["old"], e["new"]):
        print("anchor not found")
        sys.exit(3)
    env = dict(os.environ, SA_REPO=root, SA_EVIDENCE_DIR=os.path.join(tmp, "ev"), PYTHONPATH=VERIF)
    for p in props:
        r = subprocess.run([sys.executable, "-m", "sa", "check", p], cwd=VERIF, env=env, capture_output=True, text=True)
        bad = [l for l in r.stdout.splitlines() if l.startswith(("VIOLATION", "ANALYSIS-ERROR", "    "))]
        print(p, "rc", r.returncode, *bad[:6], sep="\n  " if bad else " ")
finally:
    shutil.rmtree(tmp, ignore_errors=True)
