"""Helper for the seeded-change workflow (development aid, not a registered check).

  confirm <dir> <variant>   apply <dir>/patch_<v>.diff to a scratch worktree of /repo, rebuild the engine if C++ changed,
                            run the baseline suite (expect 118 passed / 4 failed) and the demo (expect non-zero), then
                            run the demo against the clean /repo (expect 0).  Prints a JSON summary.
  check <patch> [Cnn ...]   apply the patch to a scratch *copy* of /repo (src + setup.py) and run the given property
                            checks (default: all 20) with SA_REPO pointing at the copy; prints which rules fired.
"""
import json, os, re, shutil, subprocess, sys, tempfile

VERIF = os.path.dirname(os.path.dirname(os.path.abspath(__file__)))
REPO = "/repo"
PY = "/venv/bin/python"


def sh(cmd, cwd=None, env=None, timeout=1800):
    r = subprocess.run(cmd, shell=True, cwd=cwd, env=env, capture_output=True, text=True, timeout=timeout)
    return r.returncode, r.stdout + r.stderr


def confirm(d, v):
    patch = os.path.join(d, "patch_%s.diff" % v)
    demo = os.path.join(d, "demo_%s.py" % v)
    wt = tempfile.mkdtemp(prefix="cs-")
    os.rmdir(wt)
    out = {"patch": patch}
    try:
        rc, o = sh("git -C %s worktree add -q --detach %s HEAD" % (REPO, wt))
        assert rc == 0, o
        rc, o = sh("git apply --whitespace=nowarn %s" % patch, cwd=wt)
        out["applies"] = rc == 0
        if rc != 0:
            out["apply_error"] = o[-400:]
            return out
        rc, o = sh("git diff --stat", cwd=wt)
        out["diffstat"] = o.strip().splitlines()[-1] if o.strip() else ""
        rc, o = sh("%s setup.py build_ext --inplace >/dev/null 2>&1; rm -rf build" % PY, cwd=wt)
        env = dict(os.environ, PYTHONPATH=os.path.join(wt, "src"))
        rc, o = sh("%s -m pytest -q -p no:cacheprovider --timeout=900 2>&1 | tail -1" % PY, cwd=wt, env=env)
        out["suite"] = o.strip()
        rc, o = sh("timeout 300 %s %s" % (PY, demo), cwd=d, env=env)
        out["demo_with_change_rc"] = rc
        out["demo_with_change_tail"] = o.strip()[-300:]
        env2 = dict(os.environ, PYTHONPATH=os.path.join(REPO, "src"))
        rc, o = sh("timeout 300 %s %s" % (PY, demo), cwd=d, env=env2)
        out["demo_clean_rc"] = rc
        out["confirmed"] = bool(re.search(r"\b118 passed", out["suite"]) and re.search(r"\b4 failed", out["suite"]) and
                                out["demo_with_change_rc"] != 0 and out["demo_clean_rc"] == 0)
        return out
    finally:
        sh("git -C %s worktree remove --force %s" % (REPO, wt))
        shutil.rmtree(wt, ignore_errors=True)


def check(patch, pids):
    tmp = tempfile.mkdtemp(prefix="sc-")
    try:
        root = os.path.join(tmp, "repo")
        os.makedirs(root)
        shutil.copy(os.path.join(REPO, "setup.py"), root)
        shutil.copytree(os.path.join(REPO, "src"), os.path.join(root, "src"),
                        ignore=shutil.ignore_patterns("*.so", "__pycache__", "*.egg-info", "*.pyc"))
        rc, o = sh("patch -p1 --binary -s < %s" % os.path.abspath(patch), cwd=root)
        if rc != 0:
            rc, o = sh("git init -q . && git apply --whitespace=nowarn %s" % os.path.abspath(patch), cwd=root)
            if rc != 0:
                return {"error": "patch does not apply: " + o[-300:]}
        res = {}
        env = dict(os.environ, SA_REPO=root, SA_EVIDENCE_DIR=os.path.join(tmp, "ev"), PYTHONPATH=VERIF)
        from concurrent.futures import ThreadPoolExecutor

        def one(pid):
            r = subprocess.run([PY, "-m", "sa", "check", pid, "--tier", "quick"], cwd=VERIF, env=env, capture_output=True, text=True)
            fired = []
            evp = os.path.join(tmp, "ev", "%s.json" % pid)
            if os.path.exists(evp):
                ev = json.load(open(evp))
                known = {k["rule"] for k in json.load(open(os.path.join(VERIF, "known_findings.json")))["known"]}
                fired = sorted(k for k, c in ev["coverage"].get("rules", {}).items() if c.get("violated") and
                               not (k in known and r.returncode == 0))
                if r.returncode == 1:
                    new = {os.path.basename(l.split("replay=")[1]).rsplit(".", 2)[0] for l in r.stdout.splitlines()
                           if l.startswith("VIOLATION")}
                    fired = sorted(new)
            viol = [l for l in r.stdout.splitlines() if l.startswith("    ")]
            err = [l for l in r.stdout.splitlines() if l.startswith("ANALYSIS-ERROR")]
            return pid, r.returncode, fired, viol[:3], err[:1]
        with ThreadPoolExecutor(8) as ex:
            for pid, rc, fired, viol, err in ex.map(one, pids):
                if rc != 0:
                    res[pid] = {"rc": rc, "fired": fired, "first": [v.strip()[:260] for v in viol], "err": err}
        return res
    finally:
        shutil.rmtree(tmp, ignore_errors=True)


if __name__ == "__main__":
    if sys.argv[1] == "confirm":
        print(json.dumps(confirm(sys.argv[2], sys.argv[3]), indent=1))
    elif sys.argv[1] == "check":
        pids = sys.argv[3:] or ["C%02d" % i for i in range(1, 21)]
        print(json.dumps(check(sys.argv[2], pids), indent=1))


def keep(d, v, pid, needs, all_props=False, as_v=None, rnd=1):
    """confirm + check + store under /verif/seeded/<pid><as_v or v>/"""
    c = confirm(d, v)
    if not c.get("confirmed"):
        print("NOT CONFIRMED", json.dumps(c, indent=1))
        return 1
    pids = ["C%02d" % i for i in range(1, 21)]
    res = check(os.path.join(d, "patch_%s.diff" % v), pids)
    sv = as_v or v
    out = os.path.join(VERIF, "seeded", "%s%s" % (pid, sv))
    os.makedirs(out, exist_ok=True)
    shutil.copy(os.path.join(d, "patch_%s.diff" % v), os.path.join(out, "patch.diff"))
    shutil.copy(os.path.join(d, "demo_%s.py" % v), os.path.join(out, "demo.py"))
    notes = os.path.join(d, "notes_%s.md" % v)
    if os.path.exists(notes):
        shutil.copy(notes, os.path.join(out, "notes.md"))
    own = res.get(pid, {})
    meta = {"id": "%s%s" % (pid, sv), "round": rnd, "breaks_property": pid, "needs_to_manifest": needs,
            "what_was_run": {"suite_with_change": c["suite"], "demo_with_change_exit": c["demo_with_change_rc"],
                             "demo_on_clean_tree_exit": c["demo_clean_rc"],
                             "commands": ["git apply patch.diff (scratch worktree of /repo); setup.py build_ext --inplace",
                                          "PYTHONPATH=<tree>/src /venv/bin/python -m pytest -q -p no:cacheprovider --timeout=900",
                                          "PYTHONPATH=<tree>/src /venv/bin/python demo.py"]},
            "caught_by_own_property_check": own.get("rc") == 1, "rules_fired_own_property": own.get("fired", []),
            "other_properties_that_fire": {k: r["fired"] for k, r in res.items() if k != pid and r.get("rc") == 1},
            "analysis_errors": {k: r["err"] for k, r in res.items() if r.get("rc") == 2},
            "origin": "independent sub-agent given only the property text and a scratch worktree"}
    meta["when_first_seen"] = {"caught_by_own_property_check": meta["caught_by_own_property_check"],
                               "rules_fired_own_property": meta["rules_fired_own_property"],
                               "other_properties_that_fire": meta["other_properties_that_fire"],
                               "analysis_errors": meta["analysis_errors"]}
    json.dump(meta, open(os.path.join(out, "meta.json"), "w"), indent=1)
    print(pid + sv, "caught" if meta["caught_by_own_property_check"] else "MISSED", meta["rules_fired_own_property"],
          "others:", meta["other_properties_that_fire"], "errors:", meta["analysis_errors"])
    return 0


if __name__ == "__main__" and sys.argv[1] == "keep":
    sys.exit(keep(sys.argv[2], sys.argv[3], sys.argv[4], sys.argv[5]))
if __name__ == "__main__" and sys.argv[1] == "keep9":     # round 9 (ten properties): variants a, b stored as q, r
    sys.exit(keep(sys.argv[2], sys.argv[3], sys.argv[4], sys.argv[5], as_v={"a": "q", "b": "r"}[sys.argv[3]], rnd=9))
if __name__ == "__main__" and sys.argv[1] == "keep8":     # round 8: variants a, b stored as o, p
    sys.exit(keep(sys.argv[2], sys.argv[3], sys.argv[4], sys.argv[5], as_v={"a": "o", "b": "p"}[sys.argv[3]], rnd=8))
if __name__ == "__main__" and sys.argv[1] == "keep7":     # round 7: variants a, b stored as m, n
    sys.exit(keep(sys.argv[2], sys.argv[3], sys.argv[4], sys.argv[5], as_v={"a": "m", "b": "n"}[sys.argv[3]], rnd=7))
if __name__ == "__main__" and sys.argv[1] == "keep6":     # round 6: variants a, b stored as k, l
    sys.exit(keep(sys.argv[2], sys.argv[3], sys.argv[4], sys.argv[5], as_v={"a": "k", "b": "l"}[sys.argv[3]], rnd=6))
if __name__ == "__main__" and sys.argv[1] == "keep5":     # round 5: variants a, b stored as i, j
    sys.exit(keep(sys.argv[2], sys.argv[3], sys.argv[4], sys.argv[5], as_v={"a": "i", "b": "j"}[sys.argv[3]], rnd=5))
if __name__ == "__main__" and sys.argv[1] == "keep4":     # round 4: variants a, b stored as g, h
    sys.exit(keep(sys.argv[2], sys.argv[3], sys.argv[4], sys.argv[5], as_v={"a": "g", "b": "h"}[sys.argv[3]], rnd=4))
if __name__ == "__main__" and sys.argv[1] == "keep3":     # round 3: variants a, b stored as e, f
    sys.exit(keep(sys.argv[2], sys.argv[3], sys.argv[4], sys.argv[5], as_v={"a": "e", "b": "f"}[sys.argv[3]], rnd=3))
if __name__ == "__main__" and sys.argv[1] == "keep2":     # round 2: variants a, b stored as c, d
    sys.exit(keep(sys.argv[2], sys.argv[3], sys.argv[4], sys.argv[5], as_v={"a": "c", "b": "d"}[sys.argv[3]], rnd=2))


def refcheck(d):
    """behaviour-preserving refactorings: every check must stay silent"""
    import glob
    out = {}
    for p in sorted(glob.glob(os.path.join(d, "patch_r*.diff"))):
        res = check(p, ["C%02d" % i for i in range(1, 21)])
        out[os.path.basename(p)] = {k: (v["rc"], v["fired"], (v["first"] or v["err"])[:1]) for k, v in res.items()}
    return out


if __name__ == "__main__" and sys.argv[1] == "refcheck":
    r = refcheck(sys.argv[2])
    for p, v in r.items():
        print(p, "SILENT" if not v else "")
        for k, (rc, fired, first) in v.items():
            print("   ", k, "rc", rc, fired, (first[0][:230] if first else ""))


def regress():
    """all stored seeds must be caught by their own property; all stored refactorings must leave every check silent"""
    import glob
    from concurrent.futures import ThreadPoolExecutor
    rows = []
    seeds = sorted(d for d in glob.glob(os.path.join(VERIF, "seeded", "C*")) if os.path.isdir(d))

    def s_one(d):
        pid = os.path.basename(d)[:3]
        res = check(os.path.join(d, "patch.diff"), [pid])
        r = res.get(pid, {})
        return os.path.basename(d), r.get("rc", 0), r.get("fired", []), r.get("err", [])
    def r_one(p):
        res = check(p, ["C%02d" % i for i in range(1, 21)])
        return os.path.basename(p), {k: (v["rc"], v["fired"] or v["err"]) for k, v in res.items()}
    with ThreadPoolExecutor(4) as ex:
        sr = list(ex.map(s_one, seeds))
        rr = list(ex.map(r_one, sorted(glob.glob(os.path.join(VERIF, "seeded", "refactors", "*.diff")))))
    caught = [x for x in sr if x[1] == 1]
    print("SEEDS: %d / %d caught" % (len(caught), len(sr)))
    for name, rc, fired, err in sr:
        print("  %-6s %s %s" % (name, "caught" if rc == 1 else ("ERROR " + str(err)[:120] if rc == 2 else "MISSED"), fired))
    silent = [x for x in rr if not x[1]]
    print("REFACTORINGS: %d / %d silent" % (len(silent), len(rr)))
    for name, v in rr:
        if v:
            print("  %-10s %s" % (name, {k: (rc, str(f)[:100]) for k, (rc, f) in v.items()}))


if __name__ == "__main__" and sys.argv[1] == "regress":
    regress()


def remeta():
    """re-run the checks on every stored seed and refresh the 'caught' fields of its meta.json"""
    import glob
    from concurrent.futures import ThreadPoolExecutor
    pids = ["C%02d" % i for i in range(1, 21)]

    def one(d):
        mp = os.path.join(d, "meta.json")
        meta = json.load(open(mp))
        pid = meta["breaks_property"]
        res = check(os.path.join(d, "patch.diff"), pids)
        own = res.get(pid, {})
        meta["caught_by_own_property_check"] = own.get("rc") == 1
        meta["rules_fired_own_property"] = own.get("fired", [])
        meta["other_properties_that_fire"] = {k: r["fired"] for k, r in res.items() if k != pid and r.get("rc") == 1}
        meta["analysis_errors"] = {k: r["err"] for k, r in res.items() if r.get("rc") == 2}
        json.dump(meta, open(mp, "w"), indent=1)
        return meta["id"], meta["caught_by_own_property_check"], meta["rules_fired_own_property"], \
            meta["other_properties_that_fire"], meta["analysis_errors"]
    with ThreadPoolExecutor(6) as ex:
        only = sys.argv[2:]          # optional: seed ids (or suffix letters such as q r) to refresh
        ds = sorted(d for d in glob.glob(os.path.join(VERIF, "seeded", "C*")) if os.path.isdir(d))
        if only:
            ds = [d for d in ds if os.path.basename(d) in only or os.path.basename(d)[3:] in only]
        for r in ex.map(one, ds):
            print(r)


if __name__ == "__main__" and sys.argv[1] == "remeta":
    remeta()
