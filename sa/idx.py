"""IDX (C++ side) -- index kinds, table extents and mixed-radix layouts of every vector / pointer subscript.

Kinds:  cell species reaction env edge dir6 sample x y z, nbr(<cell atom>) (ragged), flat(<extent>) and lit.
Extent symbols: C S R E G N X Y Z, B(<cell atom>) = number of neighbours of that cell; X*Y*Z normalises to C.
A subscript  T[ sum_k idx_k * stride_k ]  is a mixed-radix form when stride_0 = 1 and stride_{k+1} = stride_k*|K_k|.
Its kind list is the table's layout; it must be the same at every subscript of T and multiply out to T's extent.
"""
import re
from fractions import Fraction

from . import cxfe, cxa
from .cxfe import kids, raw_kids, strip, name_of, uname, size_obj, text, walk, subscript, call_parts


def tstr(n):
    t = n.get("type", {})
    return t.get("desugaredQualType") or t.get("qualType", "")


def is_vec(t):
    return re.match(r"^(const )?(class )?(std::)?vector<", t.strip()) is not None


def basename(u):
    return u.split("'")[0] if u else u
from .core import AnalysisError
from .poly import Poly

# frozen table (DESIGN 4.1): count variable -> extent symbol.  One line of reason each.
RAW2EXT = {
    "n_meshes": "C",    # Init: n_meshes = w*h*d (3D) / n_nodes (Graph); initialize_*: int n_meshes = w*h*d / n_nodes
    "n_nodes": "C",     # graph: number of nodes = number of cells
    "n_species": "S", "n_reactions": "R", "n_env": "E", "n_edges": "G",
    "n_samples": "N", "sample_n": "N", "n_sample": "N",   # number of requested / recorded samples (see NSAMPLE note)
    "w": "X", "h": "Y", "d": "Z",
}
EXT2KIND = {"C": "cell", "S": "species", "R": "reaction", "E": "env", "G": "edge", "N": "sample",
            "X": "x", "Y": "y", "Z": "z"}
KIND2EXT = {v: k for k, v in EXT2KIND.items()}
# element kinds of index-valued tables (DESIGN 4.2)
ELEM = {
    "mesh_env": ("env",),                # environment index of a cell (input data)
    "mesh_neighbors": ("cell?",),        # neighbour cell or -1 (GetNeighborIndex)
    "mesh_neighbor_index": ("cell",),    # neighbour cell (SetNeighbors, from edge endpoints)
    "edge_i": ("cell",), "edge_j": ("cell",),   # edge endpoints (input data)
    "opposed_direction": ("dir6",),
}
DATA_TABLES = {"mesh_env", "edge_i", "edge_j"}   # values come from the caller: range is an assumption (C20's subject)
# counter fields used as an index; their range is established by the loop condition that tests them
COUNTERS = {"sample_pos": ("sample",)}   # `sample_pos < n_samples` in SampleOnTSample (order checked by C11.GUARD-ORDER)
TOP = ("TOP",)


class Unknown(Exception):
    pass


class BadForm(Exception):
    """every atom is typed, but the strides do not form a mixed-radix chain: a definite layout error"""


def kind_ext(k):
    if k[0] == "nbr":
        return Poly.sym("B(%s)" % k[1])
    if k[0] == "dir6":
        return Poly.const(6)
    if k[0] in ("cell", "cell?"):
        return Poly.sym("C")
    if k[0] == "flat":
        return k[1]
    if k[0] in KIND2EXT:
        return Poly.sym(KIND2EXT[k[0]])
    raise Unknown("no extent for kind %r" % (k,))


def kstr(k):
    if k[0] == "nbr":
        return "nbr(%s)" % k[1]
    if k[0] == "flat":
        return "flat<%r>" % (k[1],)
    if k[0] == "lit":
        return "lit %s" % k[1]
    return k[0]


def norm_xyz(p):
    """X*Y*Z -> C inside every monomial"""
    out = {}
    for m, c in p.t.items():
        d = dict(m)
        while all(d.get(s, 0) >= 1 for s in "XYZ"):
            for s in "XYZ":
                d[s] -= 1
            d["C"] = d.get("C", 0) + 1
        mm = tuple(sorted((s, e) for s, e in d.items() if e))
        out[mm] = out.get(mm, 0) + c
    return Poly(out)


class Scope:
    """per-function variable facts"""

    def __init__(self, fn):
        self.fn = fn
        self.kinds = {}       # name -> kind
        self.inclusive = {}   # name -> loop node whose bound is `<=`
        self.defs = {}        # local name -> init expr (single definition)
        self.multi = set()


class Idx:
    def __init__(self, tu):
        self.tu = tu
        self.scopes = {}
        self.param_kinds = {}     # fn qual -> [kind|None]
        self.extent = {}          # (scopekey, name) -> Poly   (scopekey: class root or fn qual)
        self.extent_conf = []     # conflicting extent definitions: (where node, fn, name, old, new)
        self.ret_ext = {}         # fn qual -> ('param', i) | ('poly', Poly) | None
        self.subs = []            # subscript records
        self.problems = []        # (node, fn, what, detail)
        self.unknown = []
        self.assumptions = set()
        self.extent_checks = []   # (node, fn, name, want, got)
        self._build()

    # ----------------------------------------------------------------------------------------- scopes
    def root(self, fn):
        if fn.cls is None:
            return fn.qual
        return self.tu.base_chain(fn.cls.name)[-1].name

    def fields_of(self, fn):
        return self.tu.all_fields(fn.cls.name) if fn.cls else {}

    def _build(self):
        fns = [f for f in self.tu.all_fns() if f.body is not None]
        for f in fns:
            self.scopes[f.qual] = Scope(f)
            self.param_kinds[f.qual] = [None] * len(f.params)
        for f in fns:
            self._locals(f)
        # extents and param kinds to a fixpoint
        for _ in range(8):
            before = (dict(self.extent), {k: list(v) for k, v in self.param_kinds.items()})
            for f in fns:
                self._extents(f)
            for f in fns:
                self._loop_kinds(f)
            for f in fns:
                self._propagate_calls(f)
            if before == (self.extent, self.param_kinds):
                break
        called = set()
        for f in fns:
            for n in walk(f.body):
                for c in self.tu.resolve_calls(f, n):
                    called.add(c.qual)
        self.dead = {f.qual for f in fns if f.cls is not None and f.qual not in called and not f.virtual
                     and f.name != "Init" and f.params}
        for f in fns:
            self._subscripts(f)

    def _locals(self, f):
        sc = self.scopes[f.qual]
        for n in walk(f.body):
            if n.get("kind") == "VarDecl":
                nm = uname(n)
                init = kids(n)
                if nm in sc.defs or nm in sc.multi:
                    sc.multi.add(nm)
                    sc.defs.pop(nm, None)
                else:
                    sc.defs[nm] = init[-1] if init else None
        stored = {}
        for s in cxa.all_stores(f.body):
            if s.base and s.base[0] == "var":
                stored[s.base[1]] = stored.get(s.base[1], 0) + 1
        sc.stored = stored
        # single-assignment integer locals defined by index arithmetic are inlined into index polynomials
        # (`int base = i*n_species; ... mesh_x[base+s]`), so that hoisting a sub-expression changes nothing
        sc.inline = {}
        for nm, d in sc.defs.items():
            if d is None or stored.get(nm) or nm in sc.multi:
                continue
            e = strip(d, casts=True)
            if e.get("kind") == "BinaryOperator" and e.get("opcode") in ("+", "-", "*") and \
                    all(x.get("kind") in ("BinaryOperator", "IntegerLiteral", "DeclRefExpr", "MemberExpr", "ImplicitCastExpr",
                                          "ParenExpr", "CXXThisExpr") and (x.get("kind") != "BinaryOperator" or
                                                                            x.get("opcode") in ("+", "-", "*"))
                        for x in walk(e)):
                try:
                    sc.inline[nm] = cxa.poly(e, sc.inline)
                except Exception:
                    pass

    # ----------------------------------------------------------------------------------------- extents
    def ext_poly(self, n, f, env=None):
        """normalised extent polynomial of an integer expression, or raise Unknown"""
        n = strip(n, casts=True)
        k = n.get("kind")
        if k == "IntegerLiteral":
            return Poly.const(int(n["value"]))
        if k == "BinaryOperator" and n["opcode"] in ("*", "+", "-"):
            a, b = self.ext_poly(kids(n)[0], f), self.ext_poly(kids(n)[1], f)
            r = a * b if n["opcode"] == "*" else a + b if n["opcode"] == "+" else a - b
            return norm_xyz(r)
        if k == "CXXMemberCallExpr":
            nm, obj, args = call_parts(n)
            if nm == "size" and obj is not None:
                return self.vec_extent(obj, f)
            # trivial getter on an algorithm object: `return <field>;`
            for callee in self.tu.resolve_calls(f, n):
                st = kids(callee.body)
                if len(st) == 1 and st[0].get("kind") == "ReturnStmt":
                    r = strip(kids(st[0])[0], casts=True)
                    if r.get("kind") == "MemberExpr" and r.get("name") in RAW2EXT:
                        return Poly.sym(RAW2EXT[r["name"]])
                    cp = call_parts(r)
                    if cp and cp[0] == "size" and cp[1] is not None and name_of(cp[1]) in ("sampled_t",):
                        return Poly.sym("N")
            raise Unknown("call " + text(n))
        sub = subscript(n)
        if sub is not None:
            b = name_of(sub[0])
            if b == "mesh_neighbor_n":
                return Poly.sym("B(%s)" % repr(cxa.poly(sub[1])))
            raise Unknown("subscript extent " + text(n))
        so = size_obj(n)
        if so is not None:
            return self.vec_extent(so, f)
        nm = uname(n)
        if nm is not None:
            sc = self.scopes[f.qual]
            if basename(nm) in RAW2EXT:
                # a local named like a count must also be defined as that count (checked via extent_checks)
                d = sc.defs.get(nm)
                if d is not None and not sc.stored.get(nm):
                    try:
                        e = self.ext_poly(d, f)
                        self.extent_checks.append((d, f.qual, "%s = ..." % basename(nm),
                                                   Poly.sym(RAW2EXT[basename(nm)]), e))
                    except Unknown:
                        pass
                return Poly.sym(RAW2EXT[basename(nm)])
            if nm in f.param_names() and f.param_type(f.param_names().index(nm)).strip() in ("int", "size_t"):
                return Poly.sym("$" + nm)
            d = sc.defs.get(nm)
            if d is not None and not sc.stored.get(nm):
                return self.ext_poly(d, f)
        raise Unknown("extent of " + text(n))

    def vec_extent(self, n, f):
        """extent of a vector-valued expression"""
        n = strip(n, casts=True)
        k = n.get("kind")
        sub = subscript(n)
        if sub is not None:
            b = cxa.lvalue_base(sub[0])
            if b is None:
                raise Unknown("extent of " + text(n))
            key = self._key(f, b) + ("inner",)
            if key in self.extent:
                e = self.extent[key]
                # inner extent is stated for the generic outer index '@'; instantiate
                return e.subs({s: Poly.sym(s.replace("@", repr(cxa.poly(sub[1])))) for s in e.syms()})
            raise Unknown("inner extent of " + text(n))
        if k == "ParenListExpr" and kids(n):
            return self.ext_poly(kids(n)[0], f)
        if k in ("CXXConstructExpr", "CXXTemporaryObjectExpr"):
            a = kids(n)
            if a and is_vec(n.get("type", {}).get("qualType", "")):
                a0 = strip(a[0], casts=True)
                t0 = a0.get("type", {}).get("qualType", "")
                if is_vec(t0):
                    return self.vec_extent(a[0], f)
                if a0.get("kind") in ("InitListExpr", "CXXStdInitializerListExpr"):
                    il = a0
                    while il.get("kind") != "InitListExpr" and kids(il):
                        il = strip(kids(il)[0], casts=True)
                    return Poly.const(len(kids(il)))
                return self.ext_poly(a[0], f)
            raise Unknown("vector construction " + text(n))
        if k == "CallExpr":
            nm, _, args = call_parts(n)
            callee = self.tu.funcs.get(nm)
            if callee is not None:
                r = self.ret_ext.get(callee.qual)
                if r is None:
                    raise Unknown("return extent of " + nm)
                if r[0] == "param":
                    a = args[r[1]]
                    if is_vec(callee.param_type(r[1])):
                        return self.vec_extent(a, f)
                    return self.ext_poly(a, f)
                return r[1]
            raise Unknown("call " + text(n))
        b = cxa.lvalue_base(n)
        if b is not None:
            key = self._key(f, b)
            if key in self.extent:
                return self.extent[key]
        raise Unknown("extent of " + text(n))

    def _key(self, f, base):
        if base[0] == "field":
            return (self.root(f), base[1])
        return (f.qual, base[1])

    def _set_extent(self, key, e, node, f):
        e = norm_xyz(e)
        old = self.extent.get(key)
        if old is None:
            self.extent[key] = e
        elif old != e:
            rec = (node, f.qual, key, old, e)
            if not any(r[1:] == rec[1:] for r in self.extent_conf):
                self.extent_conf.append(rec)

    def _extents(self, f):
        sc = self.scopes[f.qual]
        # parameters that are vectors: extent from call sites (set by _propagate_calls)
        for n in walk(f.body):
            k = n.get("kind")
            try:
                if k == "VarDecl" and is_vec(n.get("type", {}).get("qualType", "")) and kids(n) and \
                        "&" not in n.get("type", {}).get("qualType", ""):
                    init = strip(kids(n)[-1], casts=True)
                    if init.get("kind") == "CXXConstructExpr" and not kids(init):
                        continue   # default-constructed, sized later
                    self._set_extent((f.qual, uname(n)), self.vec_extent(init, f), n, f)
                elif k == "VarDecl" and re.search(r"\[(\d+)\](\[(\d+)\])?$", n.get("type", {}).get("qualType", "")):
                    # fixed-size local array (lookup table): extents are in the type
                    m_ = re.search(r"\[(\d+)\](\[(\d+)\])?$", n["type"]["qualType"])
                    self._set_extent((f.qual, uname(n)), Poly.const(int(m_.group(1))), n, f)
                    if m_.group(3):
                        self._set_extent((f.qual, uname(n), "inner"), Poly.const(int(m_.group(3))), n, f)
                elif k == "VarDecl" and "&" in n.get("type", {}).get("qualType", "") and kids(n):
                    # reference to a vector handed out by a getter: `return <field>;`
                    init = strip(kids(n)[-1], casts=True)
                    for callee in self.tu.resolve_calls(f, init):
                        st = kids(callee.body)
                        if len(st) == 1 and st[0].get("kind") == "ReturnStmt":
                            r = strip(kids(st[0])[0], casts=True)
                            if r.get("kind") == "MemberExpr":
                                rk = (self.root(callee), r["name"])
                                if rk in self.extent:
                                    self._set_extent((f.qual, uname(n)), self.extent[rk], n, f)
                                if rk + ("inner",) in self.extent:
                                    self.extent[(f.qual, uname(n), "inner")] = self.extent[rk + ("inner",)]
                for s in cxa.stores_of_node(n):
                    if s.base is None:
                        continue
                    tt = tstr(strip(s.target, casts=True))
                    if not is_vec(tt):
                        continue
                    sub = subscript(s.target)
                    key = self._key(f, s.base)
                    if sub is not None:
                        # ragged: X[a].resize(E) / X[a].push_back(..)
                        outer = repr(cxa.poly(sub[1]))
                        if s.how == "method" and s.op == "resize":
                            e = self.ext_poly(s.rhs, f)
                            e = e.subs({sy: Poly.sym(sy.replace(outer, "@")) for sy in e.syms()})
                            self._set_extent(key + ("inner",), e, n, f)
                        elif s.how == "method" and s.op == "push_back":
                            self._set_extent(key + ("inner",), Poly.sym("B(@)"), n, f)
                            self.assumptions.add("ragged extent of %s[a] = mesh_neighbor_n[a]: every push_back is "
                                                 "paired with ++mesh_neighbor_n[a] (checked by C11.RAGGED-PAIR)"
                                                 % s.base[1])
                        continue
                    if s.how == "method" and s.op == "resize":
                        self._set_extent(key, self.ext_poly(s.rhs, f), n, f)
                    elif s.how == "method" and s.op == "push_back":
                        self._set_extent(key, Poly.sym("N"), n, f)   # recorded samples; see C09.PAIR-PUSH
                        at = tstr(strip(s.rhs, casts=True)) if s.rhs else ""
                        if is_vec(at):
                            self._set_extent(key + ("inner",), self.vec_extent(s.rhs, f), n, f)
                    elif s.how == "assign" and s.op == "=":
                        self._set_extent(key, self.vec_extent(s.rhs, f), n, f)
            except Unknown:
                pass
        # return extent summary
        if f.cls is None and is_vec(f.ret):
            for n in walk(f.body):
                if n.get("kind") == "ReturnStmt" and kids(n):
                    r = strip(kids(n)[0], casts=True)
                    while r.get("kind") == "CXXConstructExpr" and kids(r):
                        r = strip(kids(r)[0], casts=True)
                    nm = uname(r)
                    d = sc.defs.get(nm)
                    if d is None:
                        continue
                    try:
                        init = strip(d, casts=True)
                        a = kids(init)
                        if init.get("kind") in ("CXXConstructExpr", "ParenListExpr") and a:
                            a0 = strip(a[0], casts=True)
                            an = name_of(a0)
                            so = size_obj(a0)
                            if an in f.param_names():
                                self.ret_ext[f.qual] = ("param", f.param_names().index(an))
                            elif so is not None and name_of(so) in f.param_names():
                                self.ret_ext[f.qual] = ("param", f.param_names().index(name_of(so)))
                            else:
                                self.ret_ext[f.qual] = ("poly", self.vec_extent(init, f))
                    except Unknown:
                        pass

    # ----------------------------------------------------------------------------------------- kinds
    def _loop_kinds(self, f):
        sc = self.scopes[f.qual]
        for n in walk(f.body):
            if n.get("kind") != "ForStmt":
                continue
            init, cond, inc, body = cxa.for_parts(n)
            if cond is None:
                continue
            c = strip(cond, casts=True)
            if c.get("kind") != "BinaryOperator" or c.get("opcode") not in ("<", "<="):
                continue
            v = uname(strip(kids(c)[0], casts=True))
            if v is None:
                continue
            # lower bound: the init must start at 0
            start = None
            if init is not None:
                for x in walk(init):
                    if x.get("kind") == "VarDecl" and uname(x) == v and kids(x):
                        start = cxa.const_int(kids(x)[-1])
                    for s in cxa.stores_of_node(x):
                        if s.base and s.base[1] == v and s.op == "=":
                            start = cxa.const_int(s.rhs)
            try:
                e = self.ext_poly(kids(c)[1], f)
            except Unknown:
                continue
            if start is None or start < 0:
                continue
            k = self._kind_of_extent(e)
            if k is None:
                continue
            prev = sc.kinds.get(v)
            if prev is not None and prev != k:
                sc.kinds[v] = ("multi", prev, k)   # the same name reused by loops of different kinds
                sc.kinds.setdefault("@loop:%d" % id(n), k)
            else:
                sc.kinds[v] = k
            n["_loopvar"] = (v, k)
            if c["opcode"] == "<=":
                sc.inclusive[v] = n

    def _kind_of_extent(self, e):
        if e.isconst():
            c = e.constval()
            if c == 6:
                return ("dir6",)
            return ("flat", e)
        if len(e.t) == 1:
            (m, c), = e.t.items()
            if c == 1 and len(m) == 1 and m[0][1] == 1:
                s = m[0][0]
                if s in EXT2KIND:
                    return (EXT2KIND[s],)
                if s.startswith("B("):
                    return ("nbr", s[2:-1])
        return ("flat", e)

    def var_kind(self, name, f, at=None):
        sc = self.scopes[f.qual]
        k = sc.kinds.get(name)
        if k is not None and k[0] == "multi":
            # resolve by the innermost enclosing loop that declares this name
            if at is not None:
                for loop in reversed(at):
                    lv = loop.get("_loopvar")
                    if lv and lv[0] == name:
                        return lv[1]
            return TOP
        if k is not None:
            return k
        if name in f.param_names():
            pk = self.param_kinds[f.qual][f.param_names().index(name)]
            return pk
        d = sc.defs.get(name)
        if d is not None and not sc.stored.get(name):
            try:
                return self.expr_kind(d, f, at)
            except Unknown:
                return None
        return None

    def expr_kind(self, n, f, at=None):
        """kind of an integer-valued expression used as an index"""
        n = strip(n, casts=True)
        sub = subscript(n)
        if sub is not None:
            b = cxa.lvalue_base(sub[0])
            if b and b[1] in ELEM:
                if b[1] in DATA_TABLES:
                    self.assumptions.add("values of %s are valid %s indices (input data; their validation is C20's "
                                         "subject)" % (b[1], ELEM[b[1]][0]))
                return ELEM[b[1]]
            raise Unknown("element kind of " + text(n))
        if n.get("kind") == "IntegerLiteral":
            return ("lit", int(n["value"]))
        nm = uname(n)
        if nm is not None:
            k = self.var_kind(nm, f, at)
            if k is None:
                raise Unknown("kind of " + nm)
            return k
        # coordinate decode of a cell index:  i % X -> x ; i % (X*Y) / X -> y ; i / (X*Y) -> z
        if n.get("kind") == "BinaryOperator" and n["opcode"] in ("%", "/"):
            d = self._decode(n, f, at)
            if d is not None:
                return d
        # mixed-radix encode
        p = cxa.poly(n)
        terms = self.classify(p, f, at)
        try:
            lay = self.layout(terms)
        except BadForm as ex:
            raise Unknown(str(ex))
        e = Poly.const(1)
        for k in lay:
            e = e * kind_ext(k)
        e = norm_xyz(e)
        k = self._kind_of_extent(e)
        return k

    def _decode(self, n, f, at):
        def ext_of(x):
            try:
                return self.ext_poly(x, f)
            except Unknown:
                return None
        X, Y = Poly.sym("X"), Poly.sym("Y")
        op = n["opcode"]
        l, r = kids(n)
        if op == "%":
            try:
                lk = self.expr_kind(l, f, at)
            except Unknown:
                return None
            if lk[0] in ("cell", "cell?") and ext_of(r) == X:
                return ("x",)
            return None
        if op == "/":
            ls = strip(l, casts=True)
            if ls.get("kind") == "BinaryOperator" and ls["opcode"] == "%":
                try:
                    lk = self.expr_kind(kids(ls)[0], f, at)
                except Unknown:
                    return None
                if lk[0] in ("cell", "cell?") and ext_of(kids(ls)[1]) == X * Y and ext_of(r) == X:
                    return ("y",)
                return None
            try:
                lk = self.expr_kind(l, f, at)
            except Unknown:
                return None
            if lk[0] in ("cell", "cell?") and ext_of(r) == X * Y:
                return ("z",)
        return None

    # ----------------------------------------------------------------------------------------- classification
    def classify(self, p, f, at=None):
        """[(kind, stride Poly, index atom)] for each monomial of an index polynomial"""
        terms = []
        for m, c in p.t.items():
            if not m:
                terms.append((("lit", c), Poly.const(1), None))
                continue
            idx = []
            stride = Poly.const(c)
            for a, e in m:
                k = self._atom_kind(a, f, at)
                ext = self._atom_ext(a, f)
                if k is not None and k != TOP and ext is None:
                    idx.append((a, k, e))
                elif ext is not None and (k is None or k == TOP):
                    for _ in range(e):
                        stride = stride * ext
                elif k is not None and ext is not None:
                    # a name that is both (cannot happen with the frozen table)
                    raise Unknown("ambiguous atom " + a)
                else:
                    raise Unknown("atom %s has neither an index kind nor an extent" % a)
            if len(idx) != 1 or idx[0][2] != 1:
                raise Unknown("monomial %r is not index*stride" % (m,))
            terms.append((idx[0][1], norm_xyz(stride), idx[0][0]))
        return terms

    def _atom_ext(self, a, f):
        if basename(a) in RAW2EXT and re.match(r"^[A-Za-z_][A-Za-z_0-9]*('\d+)?$", a):
            return Poly.sym(RAW2EXT[basename(a)])
        m = re.match(r"^mesh_neighbor_n\[(.*)\]$", a)
        if m:
            return Poly.sym("B(%s)" % m.group(1))
        return None

    def _offset_sum(self, p, f, at):
        """an index atom that is a local defined as <index of a known kind> + <value of no index kind>: the sum is not
        confined to the extent of that kind (an unprovable bound is a finding, not an unknown idiom)"""
        sc = self.scopes[f.qual]

        def kinded(a):
            try:
                k = self._atom_kind(a, f, at)
            except Unknown:
                k = None
            return k if (k is not None and k != TOP and self._atom_ext(a, f) is None) else None
        # written in place (or inlined by the front end):  (cell + T[d]) * stride  ->  two monomials with the same cofactor
        for m, c in p.t.items():
            for a, e in m:
                if e != 1 or kinded(a) is not None or self._atom_ext(a, f) is not None or "[" not in a:
                    continue
                rest = tuple(x for x in m if x[0] != a)
                for m2, c2 in p.t.items():
                    if m2 is m or c2 != c:
                        continue
                    for b, e2 in m2:
                        if e2 == 1 and tuple(x for x in m2 if x[0] != b) == rest and kinded(b) is not None:
                            return "the index adds %s to %s, an index of kind %s: nothing confines the sum to that kind's extent" \
                                   % (a, b, kstr(kinded(b)))
        for m in p.t:
            for a, e in m:
                d = sc.defs.get(a)
                if d is None or sc.stored.get(a):
                    continue
                dp = cxa.poly(d, sc.inline)
                if len(dp.t) < 2:
                    continue
                kinded, other = [], []
                for mm, c in dp.t.items():
                    if len(mm) == 1 and mm[0][1] == 1 and c == 1:
                        try:
                            k = self._atom_kind(mm[0][0], f, at)
                        except Unknown:
                            k = None
                        if k is not None and k != TOP and self._atom_ext(mm[0][0], f) is None:
                            kinded.append((mm[0][0], k))
                            continue
                    other.append(repr(Poly({mm: c})))
                if len(kinded) == 1 and other:
                    return "index %s = %s adds %s to an index of kind %s: nothing confines the sum to that kind's extent" % (
                        a, text(d)[:60], " + ".join(other), kstr(kinded[0][1]))
        return None

    def _atom_kind(self, a, f, at):
        m = re.match(r"^([A-Za-z_][A-Za-z_0-9]*)\[", a)
        if m:
            t = m.group(1)
            if t in ELEM:
                if t in DATA_TABLES:
                    self.assumptions.add("values of %s are valid %s indices (input data; their validation is C20's "
                                         "subject)" % (t, ELEM[t][0]))
                return ELEM[t]
            return None
        if re.match(r"^[A-Za-z_][A-Za-z_0-9]*('\d+)?$", a):
            if basename(a) in RAW2EXT:
                return None
            if a in COUNTERS:
                return COUNTERS[a]
            return self.var_kind(a, f, at)
        return None

    @staticmethod
    def layout(terms):
        """ordered kind list (fastest first) of a mixed-radix form, or raise Unknown"""
        rest = [t for t in terms]
        lits = [t for t in rest if t[0][0] == "lit"]
        rest = [t for t in rest if t[0][0] != "lit"]
        if lits and rest:
            raise Unknown("literal offset inside an index form")
        if lits:
            return [lits[0][0]]
        lay = []
        expect = Poly.const(1)
        while rest:
            nxt = [t for t in rest if t[1] == expect]
            if len(nxt) != 1:
                raise BadForm("index %s has stride %s where the mixed-radix chain (%s) requires stride %r"
                              % ("/".join(kstr(t[0]) for t in rest), "/".join(repr(t[1]) for t in rest),
                                 ", ".join(kstr(k) for k in lay) or "start", expect))
            t = nxt[0]
            rest.remove(t)
            lay.append(t[0])
            expect = norm_xyz(expect * kind_ext(t[0]))
        return lay

    # ----------------------------------------------------------------------------------------- calls
    def _propagate_calls(self, f):
        loops = []

        def rec(n):
            pushed = False
            if n.get("kind") == "ForStmt":
                loops.append(n)
                pushed = True
            cp = call_parts(n) if n.get("kind") in ("CallExpr", "CXXMemberCallExpr") else None
            if cp is not None:
                for callee in self.tu.resolve_calls(f, n):
                    if callee.body is None:
                        continue
                    args = cp[2]
                    for i, a in enumerate(args[:len(callee.params)]):
                        pt = callee.param_type(i)
                        if is_vec(pt):
                            try:
                                e = self.vec_extent(a, f)
                                self._set_extent((callee.qual, callee.param_names()[i]), e, n, f)
                            except Unknown:
                                pass
                            continue
                        if pt.strip() not in ("int", "size_t", "unsigned int", "long"):
                            continue
                        pname = callee.param_names()[i]
                        if pname in RAW2EXT:
                            try:
                                e = self.ext_poly(a, f)
                                self.extent_checks.append((n, f.qual, "%s(%s=...)" % (callee.name, pname),
                                                           Poly.sym(RAW2EXT[pname]), e))
                            except Unknown:
                                pass
                            continue
                        try:
                            k = self.expr_kind(a, f, list(loops))
                        except Unknown:
                            continue
                        if k is None:
                            continue
                        if k and k[0] == "nbr":
                            # relational kind: neighbour slot of the cell passed in another argument
                            who = None
                            for j, b in enumerate(args[:len(callee.params)]):
                                if j != i and repr(cxa.poly(b)) == k[1]:
                                    who = callee.param_names()[j]
                            k = ("nbr", who) if who else TOP
                        old = self.param_kinds[callee.qual][i]
                        if old is None:
                            new = k
                        elif old == k or (set((old[0], k[0])) == {"cell", "cell?"}):
                            new = ("cell?",) if "cell?" in (old[0], k[0]) else old
                        else:
                            new = TOP
                        self.param_kinds[callee.qual][i] = new
            for c in n.get("inner", []):
                if c:
                    rec(c)
            if pushed:
                loops.pop()
        rec(f.body)

    # ----------------------------------------------------------------------------------------- subscripts
    def _subscripts(self, f):
        loops = []
        sc = self.scopes[f.qual]

        def rec(n, in_sub_base=False):
            pushed = False
            if n.get("kind") == "ForStmt":
                loops.append(n)
                pushed = True
            sub = subscript(n) if n.get("kind") in ("CXXOperatorCallExpr", "ArraySubscriptExpr") else None
            if sub is not None:
                self._one(f, n, sub, list(loops))
            for c in n.get("inner", []):
                if c:
                    rec(c)
            if pushed:
                loops.pop()
        rec(f.body)

    def _one(self, f, n, sub, loops):
        base, index = sub
        b = cxa.lvalue_base(base)
        if b is None:
            self.unknown.append((n, f.qual, text(n), "subscript base is not a variable"))
            return
        tname = b[1]
        inner = subscript(base) is not None
        rec = {"node": n, "fn": f.qual, "table": tname, "inner": inner, "root": self._key(f, b)[0],
               "text": text(n), "status": "ok", "layout": None, "detail": ""}
        self.subs.append(rec)
        p = cxa.poly(index, self.scopes[f.qual].inline)
        try:
            if p.isconst():
                terms = [(("lit", int(p.constval())), Poly.const(1), None)]
            else:
                terms = self.classify(p, f, loops)
            lay = self.layout(terms)
        except BadForm as e:
            rec["status"] = "bad"
            rec["detail"] = str(e)
            return
        except Unknown as e:
            off = self._offset_sum(p, f, loops) if f.qual not in self.dead else None
            if off is not None:
                rec["status"] = "bad"
                rec["detail"] = off
                return
            rec["status"] = "dead" if f.qual in self.dead else "unknown"
            rec["detail"] = str(e)
            if f.qual not in self.dead:
                self.unknown.append((n, f.qual, text(n), str(e)))
            return
        for k, _, atom in terms:
            if atom and atom in self.scopes[f.qual].inclusive:
                lp = self.scopes[f.qual].inclusive[atom]
                if any(l is lp for l in loops):
                    rec["status"] = "bad"
                    rec["detail"] = "index %s ranges up to and including its extent (loop bound `<=`)" % atom
        if any(k == TOP for k in lay):
            rec["status"] = "top"
            rec["detail"] = "an index has conflicting kinds at its call sites"
            return
        # ragged inner: neighbour counts must refer to the outer index
        outer_idx = None
        if inner:
            outer_idx = repr(cxa.poly(subscript(base)[1]))
        canon = []
        for k in lay:
            if k[0] == "nbr":
                if inner and k[1] == outer_idx:
                    canon.append(("nbr", "@"))
                else:
                    canon.append(("nbr", k[1]))
            else:
                canon.append(("cell",) if k[0] == "cell?" else k)
        rec["layout"] = canon
        rec["sentinel"] = any(k[0] == "cell?" for k in lay)
        # extent
        e = Poly.const(1)
        try:
            for k in canon:
                if k[0] == "lit":
                    e = None
                    break
                e = e * kind_ext(k)
        except Unknown:
            e = None
        rec["index_extent"] = norm_xyz(e) if e is not None else None
        key = self._key(f, b) + (("inner",) if inner else ())
        rec["table_extent"] = self.extent.get(key)
        if canon and canon[0][0] == "lit":
            rec["lit"] = canon[0][1]
