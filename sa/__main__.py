"""CLI:  python -m sa doctor | check <Cnn> [--tier quick|thorough] | replay <path> | all [--tier ..]"""
import importlib, json, os, subprocess, sys

from . import VERIF, REPO
from .core import run_property

PROPS = ["C%02d" % i for i in range(1, 21)]


def _run(pid, tier):
    try:
        mod = importlib.import_module("sa.props.%s" % pid.lower())
    except ModuleNotFoundError:
        print("ANALYSIS-ERROR property=%s no rules are built for this property" % pid)
        return 2
    extra = None
    if tier == "thorough":
        extra = getattr(mod, "thorough", None)
    rc = run_property(pid, tier, mod.run, extra)
    if tier == "thorough" and rc == 0:
        from . import selftest
        rc = selftest.run_for(pid)
    return rc


def main(argv):
    if not argv:
        print(__doc__)
        return 2
    cmd = argv[0]
    tier = os.environ.get("VERIF_TIER") or "quick"
    if "--tier" in argv:
        tier = argv[argv.index("--tier") + 1]
    if tier not in ("quick", "thorough"):
        tier = "quick"
    if cmd == "doctor":
        ok = True
        try:
            v = subprocess.run(["clang++", "--version"], capture_output=True, text=True).stdout.splitlines()[0]
            print("clang:", v)
        except Exception as e:
            print("clang++ missing:", e)
            ok = False
        print("python:", sys.version.split()[0], sys.executable)
        print("repo:", REPO, "exists" if os.path.isdir(REPO) else "MISSING")
        os.makedirs(os.path.join(VERIF, ".cache"), exist_ok=True)
        os.makedirs(os.path.join(VERIF, "evidence"), exist_ok=True)
        if ok:
            from . import cxfe, pyfe
            tu = cxfe.load(REPO)
            print("engine AST: %d functions, %d classes (cache %s)" % (tu.meta["functions"], len(tu.classes),
                                                                        "hit" if tu.meta["cached"] else "built"))
            py = pyfe.load(REPO)
            print("package: %d modules, %d functions" % (len(py.mods), py.nfuncs))
        return 0 if ok else 2
    if cmd == "check":
        return _run(argv[1], tier)
    if cmd == "all":
        rcs = {}
        for p in PROPS:
            rcs[p] = _run(p, tier)
        print(rcs)
        return max(rcs.values())
    if cmd == "replay":
        d = json.load(open(argv[1]))
        print("replaying %s (%s at %s)" % (d["key"], d["rule"], d["where"]))
        return _run(d["property"], tier)
    print(__doc__)
    return 2


if __name__ == "__main__":
    try:
        sys.exit(main(sys.argv[1:]))
    except SystemExit:
        raise
    except BaseException as e:  # never let a traceback look like a violation (exit 1)
        import traceback
        traceback.print_exc()
        print("ANALYSIS-ERROR internal error: %r" % (e,))
        sys.exit(2)
