"""FLOW -- a small structured IR shared by both languages, and one path-fact engine over it.

Both code bases are fully structured (no goto; Python has no try/with in scope), so a function body is a tree of
Seq / If / Loop / Switch / Break / Continue / Return / Raise / Atom.  The engine propagates a set of *configurations*
(each a frozenset of client-defined facts) forward through the tree:

  * mode 'must'  -- one configuration, joined by intersection: "fact holds on every path reaching this point"
                    (dominating guards, ordering, definite assignment);
  * mode 'paths' -- a set of configurations joined by union: path-sensitive up to the facts the client keeps
                    (boolean flag locals, at-most-once counting, pending-obligation pairing).

Branch conditions are handed to the client (`assume(cond, positive, cfg) -> cfg | None`); a branch whose assume
returns None is infeasible.  Early exits (`if(c) continue/return/break/raise`) need no special case: the
fall-through state is the else-state, which carries the negated condition.
"""
import ast as pyast

from . import cxfe
from .core import AnalysisError


class S:
    __slots__ = ("k", "a", "b", "c", "d", "src", "extra")

    def __init__(self, k, a=None, b=None, c=None, d=None, src=None, extra=None):
        self.k, self.a, self.b, self.c, self.d, self.src, self.extra = k, a, b, c, d, src, extra

    def __repr__(self):
        return "S(%s)" % self.k


def Seq(items, src=None):
    return S("seq", items, src=src)


# ------------------------------------------------------------------------------------------------ C++ -> IR
def cx_to_ir(n):
    """n: a Clang statement node"""
    if not n:
        return Seq([])
    k = n.get("kind")
    if k == "CompoundStmt":
        return Seq([cx_to_ir(c) for c in cxfe.kids(n)], src=n)
    if k == "IfStmt":
        p = cxfe.raw_kids(n)
        # [cond, then, else?]  (C++11: no init statement)
        cond, then = p[0], p[1]
        els = p[2] if len(p) > 2 and p[2] else None
        return S("if", cond, cx_to_ir(then), cx_to_ir(els) if els else None, src=n)
    if k == "ForStmt":
        p = cxfe.raw_kids(n)  # init, condvar, cond, inc, body
        init, cond, inc, body = p[0], p[2], p[3], p[4]
        pre = [S("atom", init, src=init)] if init else []
        step = [S("atom", inc, src=inc)] if inc else []
        loop = S("loop", cond if cond else None, cx_to_ir(body), step, "for", src=n)
        return Seq(pre + [loop], src=n)
    if k == "WhileStmt":
        p = cxfe.kids(n)
        return S("loop", p[0], cx_to_ir(p[1]), [], "while", src=n)
    if k == "DoStmt":
        p = cxfe.kids(n)      # body, cond
        return S("loop", p[1], cx_to_ir(p[0]), [], "do", src=n)
    if k == "SwitchStmt":
        p = cxfe.kids(n)
        cond, body = p[0], p[1]
        cases = []
        cur = None
        for c in cxfe.kids(body):
            ck = c.get("kind")
            while ck in ("CaseStmt", "DefaultStmt"):
                ci = cxfe.kids(c)
                if ck == "CaseStmt":
                    label, sub = ci[0], (ci[1] if len(ci) > 1 else None)
                else:
                    label, sub = None, (ci[0] if ci else None)
                cur = [label, []]
                cases.append(cur)
                c = sub
                ck = c.get("kind") if c else None
            if c is not None:
                if cur is None:
                    raise AnalysisError("statement before the first case label (%s:%s)" % cxfe.loc(n))
                cur[1].append(c)
        out = []
        for idx, (label, stmts) in enumerate(cases):
            # `case k: { ...; break; }` -- a braced case body is the same statement list
            while len(stmts) == 1 and stmts[0].get("kind") == "CompoundStmt":
                stmts = cxfe.kids(stmts[0])
            if len(stmts) == 2 and stmts[0].get("kind") == "CompoundStmt" and stmts[1].get("kind") == "BreakStmt":
                stmts = cxfe.kids(stmts[0]) + [stmts[1]]
            # a case body must end in break / return (no fall-through) or be the last one
            items = [cx_to_ir(s) for s in stmts]
            if items and items[-1].k == "break":
                items = items[:-1]
            elif items and items[-1].k in ("return",):
                pass
            elif idx != len(cases) - 1 and items:
                raise AnalysisError("switch fall-through: idiom not modelled (%s:%s)" % cxfe.loc(n))
            for it in items:
                for sub in _walk_ir(it):
                    if sub.k == "break" and not _inside_loop(it, sub):
                        raise AnalysisError("break in the middle of a case body (%s:%s)" % cxfe.loc(n))
            out.append((label, Seq(items)))
        return S("switch", cond, out, src=n)
    if k == "BreakStmt":
        return S("break", src=n)
    if k == "ContinueStmt":
        return S("continue", src=n)
    if k == "ReturnStmt":
        i = cxfe.kids(n)
        return S("return", i[0] if i else None, src=n)
    if k == "NullStmt":
        return Seq([])
    if k == "InlineBlock":         # body of an inlined helper with early returns (sa/cxinline.py)
        return S("block", n.get("label"), cx_to_ir(cxfe.kids(n)[0]), src=n)
    if k == "InlineLeave":
        return S("leave", n.get("label"), src=n)
    if k in ("GotoStmt", "LabelStmt", "CXXTryStmt", "CXXThrowExpr", "CXXForRangeStmt"):
        raise AnalysisError("%s: idiom not modelled (%s:%s)" % ((k,) + cxfe.loc(n)))
    return S("atom", n, src=n)


def _walk_ir(s):
    yield s
    if s.k == "seq":
        for i in s.a:
            yield from _walk_ir(i)
    elif s.k == "if":
        yield from _walk_ir(s.b)
        if s.c:
            yield from _walk_ir(s.c)
    elif s.k == "loop":
        yield from _walk_ir(s.b)
        for i in s.c:
            yield from _walk_ir(i)
    elif s.k == "switch":
        for _, b in s.b:
            yield from _walk_ir(b)
    elif s.k == "block":
        yield from _walk_ir(s.b)


def walk_ir(s):
    return _walk_ir(s)


def _inside_loop(root, target):
    """is `target` nested inside a loop within root?"""
    def rec(s, inloop):
        if s is target:
            return inloop
        if s.k == "seq":
            for i in s.a:
                r = rec(i, inloop)
                if r is not None:
                    return r
        elif s.k == "if":
            for x in (s.b, s.c):
                if x:
                    r = rec(x, inloop)
                    if r is not None:
                        return r
        elif s.k == "loop":
            return rec(s.b, True)
        elif s.k == "block":
            return rec(s.b, inloop)
        elif s.k == "switch":
            for _, b in s.b:
                r = rec(b, inloop)
                if r is not None:
                    return r
        return None
    return bool(rec(root, False))


# ------------------------------------------------------------------------------------------------ Python -> IR
def py_to_ir(stmts, src=None):
    out = []
    for st in stmts:
        if isinstance(st, pyast.If):
            out.append(S("if", st.test, py_to_ir(st.body), py_to_ir(st.orelse) if st.orelse else None, src=st))
        elif isinstance(st, pyast.For):
            if st.orelse:
                raise AnalysisError("for-else: idiom not modelled (line %d)" % st.lineno)
            out.append(S("loop", None, py_to_ir(st.body), [], "foreach", src=st, extra=(st.target, st.iter)))
        elif isinstance(st, pyast.While):
            if st.orelse:
                raise AnalysisError("while-else: idiom not modelled (line %d)" % st.lineno)
            out.append(S("loop", st.test, py_to_ir(st.body), [], "while", src=st))
        elif isinstance(st, pyast.Break):
            out.append(S("break", src=st))
        elif isinstance(st, pyast.Continue):
            out.append(S("continue", src=st))
        elif isinstance(st, pyast.Return):
            out.append(S("return", st.value, src=st))
        elif isinstance(st, pyast.Raise):
            out.append(S("raise", st.exc, src=st))
        elif isinstance(st, pyast.Assert):
            out.append(S("if", st.test, Seq([]), Seq([S("raise", None, src=st)]), src=st))
        elif isinstance(st, pyast.With):
            # with E as v: body   ==   v = E ; body   (the managers used on files and locks do not swallow exceptions)
            for it in st.items:
                if it.optional_vars is not None:
                    a = pyast.Assign(targets=[it.optional_vars], value=it.context_expr, type_comment=None)
                else:
                    a = pyast.Expr(value=it.context_expr)
                pyast.copy_location(a, st)
                a._file = getattr(st, "_file", None)
                a._parent = st
                out.append(S("atom", a, src=a))
            out.append(py_to_ir(st.body, src=st))
        elif isinstance(st, (pyast.Try, pyast.Match)) or (hasattr(pyast, "TryStar") and
                                                                        isinstance(st, pyast.TryStar)):
            raise AnalysisError("%s: idiom not modelled (line %d)" % (type(st).__name__, st.lineno))
        elif isinstance(st, (pyast.FunctionDef, pyast.ClassDef)):
            out.append(S("atom", st, src=st))  # nested definition: an opaque binding
        else:
            out.append(S("atom", st, src=st))
    return Seq(out, src=src)


# ------------------------------------------------------------------------------------------------ engine
class Client:
    """Override what you need.  cfg is a frozenset of hashable facts."""
    record = True   # False during fixpoint iterations: observe only, report nothing

    def atom(self, node, cfg):
        return cfg

    def assume(self, cond, positive, cfg):
        return cfg

    def cond(self, cond, cfg):
        """called once per evaluation of a branch / loop condition, before assume"""
        return cfg

    def loop_head(self, s, cfg):
        """foreach loops: the target is (re)bound here"""
        return cfg

    def ret(self, s, cfg):
        pass

    def exit(self, cfg):
        """normal fall-off-the-end of the function"""
        pass


class _Out:
    __slots__ = ("normal", "brk", "cont", "leave")

    def __init__(self, normal=None, brk=None, cont=None, leave=None):
        self.normal, self.brk, self.cont = normal, brk, cont
        self.leave = leave or {}      # label of an enclosing inlined block -> state jumping to its end


class Engine:
    def __init__(self, client, mode="must", max_configs=4096):
        self.c, self.mode, self.max = client, mode, max_configs
        self.silent = 0

    # states: None = unreachable; must: frozenset; paths: frozenset of frozensets
    def join(self, a, b):
        if a is None:
            return b
        if b is None:
            return a
        if self.mode == "must":
            return a & b
        r = a | b
        if len(r) > self.max:
            raise AnalysisError("path-fact engine: more than %d configurations" % self.max)
        return r

    def jleave(self, a, b):
        if not a:
            return dict(b) if b else {}
        out = dict(a)
        for k, v in (b or {}).items():
            out[k] = self.join(out.get(k), v)
        return out

    def _map(self, st, f):
        if st is None:
            return None
        if self.mode == "must":
            return f(st)
        out = set()
        for cfg in st:
            r = f(cfg)
            if r is not None:
                out.add(r)
        return frozenset(out) if out else None

    def run(self, ir, init=frozenset()):
        st = init if self.mode == "must" else frozenset([init])
        out = self.ex(ir, st)
        if out.normal is not None:
            self._each(out.normal, self.c.exit)
        return out.normal

    def _each(self, st, f):
        if st is None or self.silent:
            return
        if self.mode == "must":
            f(st)
        else:
            for cfg in st:
                f(cfg)

    def ex(self, s, st):
        if st is None:
            return _Out()
        c = self.c
        c.record = not self.silent
        k = s.k
        if k == "seq":
            o = _Out(st)
            for it in s.a:
                r = self.ex(it, o.normal)
                o.normal = r.normal
                o.brk = self.join(o.brk, r.brk)
                o.cont = self.join(o.cont, r.cont)
                o.leave = self.jleave(o.leave, r.leave)
                if o.normal is None:
                    break
            return o
        if k == "atom":
            return _Out(self._map(st, lambda cfg: c.atom(s.src, cfg)))
        if k == "if":
            st = self._map(st, lambda cfg: c.cond(s.a, cfg))
            t = self._map(st, lambda cfg: c.assume(s.a, True, cfg))
            e = self._map(st, lambda cfg: c.assume(s.a, False, cfg))
            r1 = self.ex(s.b, t)
            r2 = self.ex(s.c, e) if s.c is not None else _Out(e)
            return _Out(self.join(r1.normal, r2.normal), self.join(r1.brk, r2.brk), self.join(r1.cont, r2.cont),
                        self.jleave(r1.leave, r2.leave))
        if k == "loop":
            return self.loop(s, st)
        if k == "switch":
            st = self._map(st, lambda cfg: c.cond(s.a, cfg))
            o = _Out()
            has_default = False
            for label, body in s.b:
                if label is None:
                    has_default = True
                ent = self._map(st, lambda cfg: c.assume(("case", s.a, label), True, cfg))
                r = self.ex(body, ent)
                o.normal = self.join(o.normal, r.normal)
                o.cont = self.join(o.cont, r.cont)
                o.leave = self.jleave(o.leave, r.leave)
                if r.brk is not None:
                    raise AnalysisError("break escaping a case body")
            if not has_default:
                o.normal = self.join(o.normal, st)
            return o
        if k == "block":
            r = self.ex(s.b, st)
            lv = dict(r.leave)
            mine = lv.pop(s.a, None)
            return _Out(self.join(r.normal, mine), r.brk, r.cont, lv)
        if k == "leave":
            return _Out(None, None, None, {s.a: st})
        if k == "break":
            return _Out(None, st, None)
        if k == "continue":
            return _Out(None, None, st)
        if k == "return":
            if s.a is not None:
                st = self._map(st, lambda cfg: c.atom(s.src, cfg))
            self._each(st, lambda cfg: c.ret(s, cfg))
            return _Out()
        if k == "raise":
            return _Out()
        raise AnalysisError("unknown IR node " + k)

    def loop(self, s, entry):
        c = self.c

        def head_state(h):
            if s.d == "foreach":
                return self._map(h, lambda cfg: c.loop_head(s, cfg))
            return h

        def once_do(h):
            # body first, then the condition decides between another pass and the exit
            r = self.ex(s.b, h)
            tail = self.join(r.normal, r.cont)
            tail = self._map(tail, lambda cfg: c.cond(s.a, cfg))
            back = self._map(tail, lambda cfg: c.assume(s.a, True, cfg))
            exit_ = self._map(tail, lambda cfg: c.assume(s.a, False, cfg))
            return back, self.join(exit_, r.brk), r.leave

        def once(h):
            if s.d == "do":
                return once_do(h)
            h = head_state(h)
            if s.a is not None:
                h = self._map(h, lambda cfg: c.cond(s.a, cfg))
                bin_ = self._map(h, lambda cfg: c.assume(s.a, True, cfg))
                exit_ = self._map(h, lambda cfg: c.assume(s.a, False, cfg))
            else:
                bin_ = h
                exit_ = h if s.d == "foreach" and not nonempty else None   # for(;;) leaves only by break
            r = self.ex(s.b, bin_)
            back = self.join(r.normal, r.cont)
            for stp in s.c:
                back = self.ex(stp, back).normal if back is not None else None
            return back, self.join(exit_, r.brk), r.leave

        # for v in [a, b, c]: the body runs at least once -- the loop is left from the end of a pass (or by break)
        import ast as _ast
        it_ = s.extra[1] if s.d == "foreach" and isinstance(getattr(s, "extra", None), tuple) else None
        nonempty = isinstance(it_, (_ast.List, _ast.Tuple)) and len(it_.elts) > 0 and \
            not any(isinstance(e, _ast.Starred) for e in it_.elts)
        head = entry
        self.silent += 1
        try:
            for _ in range(64):
                back, _after, _lv = once(head)
                new = self.join(entry, back)
                if new == head:
                    break
                head = new
            else:
                raise AnalysisError("loop fixpoint not reached")
        finally:
            self.silent -= 1
        back, after, lv = once(head)
        if nonempty:
            after = self.join(after, back)
        return _Out(after, None, None, lv)
