"""PYFE -- Python front end over src/strengths/*.py: ast trees, binding tables with star-import closure,
class tables (methods, properties, self-attribute stores), resolved calls.  Nothing is imported or executed.
"""
import ast, builtins, os, warnings

from .core import AnalysisError

OUT_OF_SCOPE = {"plot": "matplotlib helpers only; no property anchors it",
                "kineticsrdengine": "dead module: its import of strengths.rdoutput.RDOutput cannot succeed and "
                                    "nothing imports it"}
PKG = "strengths"


class Mod:
    def __init__(self, name, path, sigs=None):
        self.name, self.path = name, path
        src = open(path, encoding="utf-8", newline="").read()
        self.src = src
        with warnings.catch_warnings():
            warnings.simplefilter("ignore")
            self.tree = ast.parse(src, filename=path)
        from . import pynorm, inventory, pynames
        names_log = []
        pynames.align(self.tree, name, names_log)      # locals written back to the reference spelling (alpha-renaming)
        if sigs:
            from . import pycalls
            pycalls.align(self.tree, name, sigs, names_log)     # positional / keyword arguments as on the reference tree
        self.norm_log = names_log + pynorm.normalise(self.tree, name, inventory.load()[1])
        self.funcs = {}      # qual (without module) -> FunctionDef
        self.classes = {}    # name -> ClassDef
        self.bind = {}       # module-level name -> origin tuple
        self.star = []       # modules star-imported (resolved later)
        self.annotate()

    def annotate(self):
        for n in ast.walk(self.tree):
            n._file = self.path
            for c in ast.iter_child_nodes(n):
                c._parent = n
        self.tree._parent = None


class Py:
    def __init__(self, repo):
        self.repo = repo
        d = os.path.join(repo, "src", PKG)
        if not os.path.isdir(d):
            raise AnalysisError("package directory %s not found" % d)
        self.dir = d
        self.mods = {}
        # signatures of the package's own callables (first pass over the sources), for the call-shape alignment
        pre = []
        for f in sorted(os.listdir(d)):
            if f.endswith(".py") and f[:-3] not in OUT_OF_SCOPE:
                try:
                    with warnings.catch_warnings():
                        warnings.simplefilter("ignore")
                        pre.append(ast.parse(open(os.path.join(d, f), encoding="utf-8", newline="").read()))
                except SyntaxError:
                    pass
        from . import pycalls
        sigs = pycalls.signatures(pre)
        for f in sorted(os.listdir(d)):
            if f.endswith(".py"):
                name = f[:-3]
                if name in OUT_OF_SCOPE:
                    continue
                self.mods[name] = Mod(name, os.path.join(d, f), sigs)
        if len(self.mods) < 20:
            raise AnalysisError("package front end parsed %d modules (reference: 21)" % len(self.mods))
        from . import pynorm
        self.pruned = pynorm.prune_helpers([m.tree for m in self.mods.values()])
        for m in self.mods.values():
            m.annotate()
        for m in self.mods.values():
            self._index(m)
        for m in self.mods.values():
            self._imports(m)
        self._close_star()
        self.nfuncs = sum(len(m.funcs) for m in self.mods.values())

    # ----------------------------------------------------------------------------------------- indexing
    def _index(self, m):
        def add_fn(f, qual, cls):
            f._qual = m.name + "." + qual
            f._cls = cls
            f._mod = m
            m.funcs[qual] = f

        for n in m.tree.body:
            if isinstance(n, ast.FunctionDef):
                add_fn(n, n.name, None)
                m.bind[n.name] = ("func", m.name, n.name)
            elif isinstance(n, ast.ClassDef):
                m.classes[n.name] = n
                n._mod = m
                m.bind[n.name] = ("class", m.name, n.name)
                for c in n.body:
                    if isinstance(c, ast.FunctionDef):
                        q = n.name + "." + c.name
                        decs = [ast.unparse(d) for d in c.decorator_list]
                        if any(d.endswith(".setter") for d in decs):
                            q += ".setter"
                            c._role = "setter"
                        elif "property" in decs:
                            c._role = "getter"
                        else:
                            c._role = "method"
                        add_fn(c, q, n)
            elif isinstance(n, (ast.Assign, ast.AnnAssign, ast.AugAssign)):
                tg = n.targets if isinstance(n, ast.Assign) else [n.target]
                for t in tg:
                    for x in ast.walk(t):
                        if isinstance(x, ast.Name):
                            m.bind[x.id] = ("var", m.name, x.id)

    def _modname(self, dotted):
        """'strengths.units' -> 'units' (package module) else None"""
        if dotted == PKG:
            return "__init__"
        if dotted.startswith(PKG + "."):
            r = dotted[len(PKG) + 1:]
            return r if r in self.mods else None
        return None

    def _imports(self, m):
        for n in ast.walk(m.tree):
            if isinstance(n, ast.Import):
                for a in n.names:
                    pm = self._modname(a.name)
                    if a.asname:
                        m.bind[a.asname] = ("module", pm) if pm else ("ext", a.name)
                    else:
                        top = a.name.split(".")[0]
                        m.bind[top] = ("pkg",) if top == PKG else ("ext", top)
            elif isinstance(n, ast.ImportFrom):
                src = n.module or ""
                pm = self._modname(src)
                for a in n.names:
                    if a.name == "*":
                        if pm:
                            m.star.append(pm)
                        continue
                    nm = a.asname or a.name
                    if pm:
                        sub = self._modname(src + "." + a.name)
                        if sub and a.name not in self.mods[pm].bind:
                            m.bind[nm] = ("module", sub)
                        else:
                            m.bind[nm] = ("from", pm, a.name)
                    else:
                        m.bind[nm] = ("ext", src + "." + a.name)

    def _close_star(self):
        # public names of a module = everything bound at module level (no __all__ in this package)
        changed = True
        while changed:
            changed = False
            for m in self.mods.values():
                for sm in m.star:
                    for k, v in list(self.mods[sm].bind.items()):
                        if k.startswith("_"):
                            continue
                        if k not in m.bind:
                            m.bind[k] = v if v[0] != "var" and v[0] != "func" and v[0] != "class" else v
                            changed = True

    # ----------------------------------------------------------------------------------------- lookup
    def resolve(self, modname, name, depth=0):
        """follow 'from' bindings to the defining entry; returns origin tuple or None"""
        m = self.mods.get(modname)
        if m is None or depth > 10:
            return None
        o = m.bind.get(name)
        if o is None:
            return ("builtin", name) if hasattr(builtins, name) else None
        if o[0] == "from":
            r = self.resolve(o[1], o[2], depth + 1)
            return r
        return o

    def fn(self, qual):
        """'kinetics.compute_reaction_rates' / 'rdsystem.RDSystem.get_state_index' / '...prop.setter'"""
        mod, _, rest = qual.partition(".")
        m = self.mods.get(mod)
        f = m.funcs.get(rest) if m else None
        if f is None:
            raise AnalysisError("anchor %s not found in the package" % qual)
        return f

    def cls(self, qual):
        mod, _, name = qual.partition(".")
        m = self.mods.get(mod)
        c = m.classes.get(name) if m else None
        if c is None:
            raise AnalysisError("anchor class %s not found in the package" % qual)
        return c

    def all_funcs(self):
        for m in self.mods.values():
            for f in m.funcs.values():
                yield f

    def all_classes(self):
        for m in self.mods.values():
            for c in m.classes.values():
                yield c

    def methods_named(self, name):
        out = []
        for m in self.mods.values():
            for q, f in m.funcs.items():
                if f._cls is not None and f.name == name and getattr(f, "_role", "") == "method":
                    out.append(f)
        return out

    def resolve_call(self, fn, call):
        """targets of a Call inside function fn: list of FunctionDef / ClassDef (constructor) / ('ext', name)"""
        m = fn._mod if hasattr(fn, "_mod") else fn
        f = call.func
        if isinstance(f, ast.Name):
            o = self.resolve(m.name, f.id)
            return self._origin_targets(o)
        if isinstance(f, ast.Attribute):
            v = f.value
            if isinstance(v, ast.Name):
                if v.id == "self" and getattr(fn, "_cls", None) is not None:
                    t = self.lookup_method(fn._cls, f.attr)
                    return [t] if t else []
                o = self.resolve(m.name, v.id)
                if o and o[0] == "module":
                    o2 = self.resolve(o[1], f.attr)
                    return self._origin_targets(o2)
                if o and o[0] == "ext":
                    return [("ext", o[1] + "." + f.attr)]
            if isinstance(v, ast.Call) and isinstance(v.func, ast.Name) and v.func.id == "super":
                c = getattr(fn, "_cls", None)
                if c is not None:
                    for b in self.bases(c):
                        t = self.lookup_method(b, f.attr)
                        if t:
                            return [t]
                return []
            return self.methods_named(f.attr)
        return []

    def _origin_targets(self, o):
        if o is None:
            return []
        if o[0] == "func":
            return [self.mods[o[1]].funcs[o[2]]]
        if o[0] == "class":
            return [self.mods[o[1]].classes[o[2]]]
        if o[0] in ("ext", "builtin"):
            return [o]
        return []

    def bases(self, c):
        out = []
        for b in c.bases:
            if isinstance(b, ast.Name):
                o = self.resolve(c._mod.name, b.id)
                if o and o[0] == "class":
                    bc = self.mods[o[1]].classes[o[2]]
                    out.append(bc)
                    out.extend(self.bases(bc))
        return out

    def subclasses(self, c):
        return [k for k in self.all_classes() if c in self.bases(k)]

    def lookup_method(self, c, name):
        for k in [c] + self.bases(c):
            f = k._mod.funcs.get(k.name + "." + name)
            if f is not None:
                return f
        return None

    def class_members(self, c):
        """names available as self.<name>: methods, properties, class attributes, attributes stored via self."""
        names = set()
        for k in [c] + self.bases(c):
            for n in k.body:
                if isinstance(n, ast.FunctionDef):
                    names.add(n.name)
                elif isinstance(n, ast.Assign):
                    for t in n.targets:
                        if isinstance(t, ast.Name):
                            names.add(t.id)
            for n in ast.walk(k):
                if isinstance(n, ast.Attribute) and isinstance(n.ctx, ast.Store) and \
                        isinstance(n.value, ast.Name) and n.value.id == "self":
                    names.add(n.attr)
        return names


def load(repo):
    return Py(repo)


# ------------------------------------------------------------------------------------------------- helpers
_HSUF = __import__("re").compile(r"__h\d+\b")


def src(n):
    """source text of a node; the `__hN` suffix that helper inlining (pynorm) gives to colliding locals is dropped, so that
    an inlined body reads like the code it was extracted from"""
    try:
        return _HSUF.sub("", ast.unparse(n))
    except Exception:
        return "<%s>" % type(n).__name__


def calls_in(node):
    for n in ast.walk(node):
        if isinstance(n, ast.Call):
            yield n


def call_name(call):
    """dotted textual name of the callee ('valproc.get_value_in_env', 'self.get_state_index', 'UnitValue')"""
    f = call.func
    parts = []
    while isinstance(f, ast.Attribute):
        parts.append(f.attr)
        f = f.value
    if isinstance(f, ast.Name):
        parts.append(f.id)
    else:
        parts.append("<expr>")
    return ".".join(reversed(parts))


def arg(call, pos, name):
    """argument of a call by position or keyword, else None"""
    for k in call.keywords:
        if k.arg == name:
            return k.value
    if pos is not None and pos < len(call.args):
        return call.args[pos]
    return None


def parent(n):
    return getattr(n, "_parent", None)


def first_touching(fn, names):
    """the first top-level statement of fn (docstring aside) that mentions one of `names` -- the first statement that matters for
    them, whatever unrelated statements (a flag, a log line) stand before it"""
    names = set(names)
    for st in fn.body:
        if isinstance(st, ast.Expr) and isinstance(st.value, ast.Constant):
            continue
        if {x.id for x in ast.walk(st) if isinstance(x, ast.Name)} & names or \
                {x.attr for x in ast.walk(st) if isinstance(x, ast.Attribute)} & names:
            return st
    return None


def enclosing_fn(n):
    p = parent(n)
    while p is not None and not isinstance(p, ast.FunctionDef):
        p = parent(p)
    return p


def params(fn):
    a = fn.args
    return [x.arg for x in a.posonlyargs + a.args + a.kwonlyargs]
