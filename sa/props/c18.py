"""C18 -- unit text, table consistency only: no label contains a character the tokeniser treats specially and
every label is a fixed point of the u -> micro replacements; the replaced spellings are exactly the micro labels;
derived symbols decompose exactly (C06.DERIVED / LABELS); the printer's alphabet lies inside the parser's.
Does NOT decide (most of the property): the tokeniser's behaviour on arbitrary and malformed text, the
bit-identical float round trip."""
import ast

from .. import pyfe
from ..core import AnalysisError
from . import c06


def replacements(f):
    out = []
    for st in f.body:
        if isinstance(st, ast.Assign) and isinstance(st.value, ast.Call) and isinstance(st.value.func, ast.Attribute) \
                and st.value.func.attr == "replace" and pyfe.src(st.targets[0]) == pyfe.src(st.value.func.value):
            a, b = st.value.args
            out.append((ast.literal_eval(a), ast.literal_eval(b), st))
    return out


def rule_alphabet(ctx, py):
    R = "C18.ALPHABET"
    lab = c06.module_dict(py, "_units_labels_dict")
    labels = {ast.literal_eval(k): ast.literal_eval(v) for k, v in zip(lab.keys, lab.values)}
    f = py.fn("units.parse_units")
    # special characters of the tokeniser, read from its source: separators and exponent characters
    special = set(" \t\n")
    for n in ast.walk(f):
        if isinstance(n, ast.Compare) and isinstance(n.ops[0], ast.In) and \
                isinstance(n.comparators[0], (ast.List, ast.Tuple, ast.Set, ast.Constant)):
            try:
                vals = ast.literal_eval(n.comparators[0])
            except Exception:
                continue
            vals = list(vals) if not isinstance(vals, str) else list(vals)      # "-0123456789" is a set of characters too
            if vals and all(isinstance(v, str) and len(v) == 1 for v in vals) and "-" in vals:
                special |= set(vals)
        if isinstance(n, ast.Compare) and isinstance(n.ops[0], ast.Eq) and isinstance(n.comparators[0], ast.Constant) \
                and n.comparators[0].value in (".", "/"):
            special.add(n.comparators[0].value)
    ctx.need({".", "/", "-", "0", "9"} <= special, R, "tokeniser character classes not recognised (%s)" % sorted(special))
    reps = replacements(f)
    ctx.need(len(reps) >= 4, R, "u -> micro replacements not found")
    for kind, ls in sorted(labels.items()):
        for l in sorted(set(ls)):
            bad = sorted(set(l) & special)
            ctx.check(not bad, R, lab, "units._units_labels_dict", "label %s (%s)" % (l, kind),
                      "contains no separator / exponent character", "contains %s, which the tokeniser splits on: the "
                      "label can never be parsed back" % bad, nontrivial=False)
            out = l
            for a, b, _ in reps:
                out = out.replace(a, b)
            ctx.check(out == l, R, lab, "units._units_labels_dict", "label %s is a fixed point of the u-replacements" % l,
                      "", "the micro replacement rewrites %s into %s before it is looked up" % (l, out), nontrivial=(
                          "u" in l))
    ctx.floor(R, 90)


def rule_expstate(ctx, py):
    """C18.EXPSTATE -- inside one factor the exponent comes last: once an exponent character (sign or digit) has been met, every
    further character of the factor belongs to the exponent text (and makes int() fail when it is not one), until the next
    separator.  The tokeniser keeps that state in a flag: the symbol text grows only while the flag is down, the flag is raised by
    an exponent character and lowered only at a separator.  Without it `m2s` reads as `ms2`, `2m` as `m2`, `mo2l` as `mol2`."""
    R = "C18.EXPSTATE"
    from .. import pya
    f = py.fn("units.parse_units")
    loops = [n for n in f.body if isinstance(n, ast.For) and pyfe.src(n.iter) in pyfe.params(f)]
    ctx.need(len(loops) == 1, R, "parse_units: the character loop is not found")
    lp = loops[0]
    ch = pyfe.src(lp.target)
    sym_app, exp_app, flag_sets = [], [], []

    def on(node, facts):
        if isinstance(node, ast.AugAssign) and isinstance(node.op, ast.Add) and pyfe.src(node.value) == ch and \
                isinstance(node.target, ast.Subscript) and isinstance(node.target.slice, ast.Constant):
            (sym_app if node.target.slice.value == 1 else exp_app if node.target.slice.value == 2 else []).append((node, set(facts)))
        if isinstance(node, ast.Assign) and isinstance(node.targets[0], ast.Name) and isinstance(node.value, ast.Constant) and \
                isinstance(node.value.value, bool):
            flag_sets.append((node, set(facts)))
    pya.must_facts(f, on_stmt=on)
    ctx.need(sym_app and exp_app, R, "parse_units: the symbol / exponent text accumulation is not found")
    flags = {pyfe.src(n.targets[0]) for n, _ in flag_sets}
    for node, facts in sym_app:
        down = [fl for fl in flags if (fl, False) in facts]
        ctx.check(bool(down), R, node, f._qual, pyfe.src(node), "the symbol grows only while no exponent character has been met in "
                  "this factor", "a character is appended to the symbol whatever came before it in the factor: text after (or "
                  "around) an exponent is read as part of the symbol, `m2s` becomes `ms2` instead of being rejected")
    for node, facts in exp_app:
        up = [fl for fl in flags if (fl, True) in facts]
        ctx.check(bool(up), R, node, f._qual, pyfe.src(node), "the exponent text takes every character once the flag is up", "")
    ups = [(n, fs) for n, fs in flag_sets if n.value.value is True and any(n is x for x in ast.walk(lp))]
    downs = [(n, fs) for n, fs in flag_sets if n.value.value is False and any(n is x for x in ast.walk(lp))]
    ctx.check(bool(ups) and all(any(isinstance(a, str) and a.startswith(ch + " in ") and pol for a, pol in fs) for n, fs in ups), R,
              ups[0][0] if ups else lp, f._qual, "flag raised by an exponent character", "", "the exponent flag is not raised by "
              "the exponent characters")
    ctx.check(all(any(isinstance(a, str) and pol and (a.startswith(ch + " == '.'") or a.startswith(ch + " == '/'") or "'.'" in a or "'/'" in a)
                      for a, pol in fs) or any(isinstance(a, str) and ("'.'" in a or "'/'" in a) for a, pol in fs) for n, fs in downs),
              R, downs[0][0] if downs else lp, f._qual, "flag lowered only at a separator", "", "the exponent flag is lowered inside "
              "a factor")
    ctx.floor(R, 4)


def rule_rawtext(ctx, py):
    """C18.RAW-TEXT -- what the parser sees is what the caller wrote: a parameter handed to parse_units is not rewritten on the
    way (no strip / split / partition / replace of it in the calling function).  Trimming the text first makes strings outside
    the grammar -- an embedded blank, a leading value -- parse as the unit their tail spells."""
    R = "C18.RAW-TEXT"
    n = 0
    for f in py.mods["units"].funcs.values():
        if f.name == "parse_units":
            continue
        ps = set(pyfe.params(f))
        for c in pyfe.calls_in(f):
            if pyfe.call_name(c) != "parse_units" or not c.args or not isinstance(c.args[0], ast.Name) or c.args[0].id not in ps:
                continue
            p_ = c.args[0].id
            re_ = [st for st in ast.walk(f) if isinstance(st, (ast.Assign, ast.AugAssign)) and
                   any(isinstance(t, ast.Name) and t.id == p_ for t in (st.targets if isinstance(st, ast.Assign) else [st.target]))
                   and not (isinstance(st.value, ast.Call) and pyfe.call_name(st.value) in ("parse_units", "parse_unitvalue"))]
            n += 1
            ctx.check(not re_, R, re_[0] if re_ else c, f._qual, "parse_units(%s)" % p_, "the text as given", "`%s` is rewritten (`%s`) "
                      "before it is parsed: text outside the grammar is trimmed into something the parser accepts"
                      % (p_, pyfe.src(re_[0])[:50] if re_ else ""))
    ctx.need(n >= 3, R, "only %d parse_units(<parameter>) call sites found" % n)
    ctx.floor(R, 3)


def rule_micro(ctx, py):
    R = "C18.MICRO"
    lab = c06.module_dict(py, "_units_labels_dict")
    labels = {ast.literal_eval(k): ast.literal_eval(v) for k, v in zip(lab.keys, lab.values)}
    f = py.fn("units.parse_units")
    reps = replacements(f)
    micro = {l for ls in labels.values() for l in ls if l.startswith("µ")}
    got = {b for a, b, _ in reps}
    for a, b, st in reps:
        ctx.check(b == "µ" + a[1:] and a.startswith("u") and b in micro, R, st, f._qual, "'%s' -> '%s'" % (a, b),
                  "u spelling of a supported micro unit", "replacement target %s is not a micro label" % b)
    ctx.check(got == micro, R, f, f._qual, "u-spellings cover the micro labels %s" % sorted(micro), "",
              "micro labels without a u spelling (or spurious replacements): %s" % sorted(got ^ micro))
    # order: a shorter pattern must not destroy a longer one applied later ('um' inside 'umol')
    for i, (a, b, st) in enumerate(reps):
        for a2, b2, st2 in reps[i + 1:]:
            if a in a2:
                # after replacing a by b, a2 no longer occurs; the later rule is dead but harmless only if
                # b + rest is the label the later rule would have produced
                produced = a2.replace(a, b)
                ctx.check(produced == b2, R, st2, f._qual, "'%s' after '%s'" % (a2, a), "earlier rule already yields %s" % b2,
                          "the earlier replacement '%s' turns '%s' into '%s', not '%s'" % (a, a2, produced, b2))
    ctx.floor(R, 6)


def rule_print(ctx, py):
    R = "C18.PRINT"
    f = py.fn("units.Units.__str__")
    from .. import pya, ir, pysym
    loops = [n for n in ast.walk(f) if isinstance(n, ast.For) and any(
        isinstance(c, ast.Call) and isinstance(c.func, ast.Attribute) and c.func.attr == "append" for c in ast.walk(n))]
    ctx.need(len(loops) == 1 and isinstance(loops[0].target, ast.Name), R, "Units.__str__: the factor loop is not found")
    k = loops[0].target.id
    it = pysym.isrc(loops[0].iter, f).replace('"', "'")      # locals such as `usys = self.sys` written out
    ctx.check(it in ("self.sys.keys()", "self.dim.keys()", "self.sys", "self.dim", "['space', 'time', 'quantity']",
                     "('space', 'time', 'quantity')", "list(self.sys)", "list(self.sys.keys())"), R, loops[0], f._qual,
              "for %s in %s" % (k, it), "one pass per base kind", "the printer does not visit the three base kinds")
    apps = []

    class C(pya.PyFacts):
        inline_fn = f

        def atom(self, node, cfg):
            if self.record:
                for c in ast.walk(node):
                    if isinstance(c, ast.Call) and isinstance(c.func, ast.Attribute) and c.func.attr == "append" and c.args:
                        apps.append((c, pysym.isrc(c.args[0], f).replace(" ", ""), cfg))
            return super().atom(node, cfg)
    ir.Engine(C(), "must").run(ir.py_to_ir(f.body))
    dimk = "self.dim[%s]" % k
    nz = lambda cfg: ("%s == 0" % dimk, False) in cfg or ("0 == %s" % dimk, False) in cfg
    one = lambda cfg, pol: ("%s == 1" % dimk, pol) in cfg or ("1 == %s" % dimk, pol) in cfg
    forms = {"withexp": 0, "bare": 0}
    for c, txt, cfg in apps:
        if txt in ("self.sys[%s]+str(%s)" % (k, dimk), "self.sys[%s]+repr(%s)" % (k, dimk)):
            okk = nz(cfg) and one(cfg, False)
            forms["withexp"] += okk
            ctx.check(okk, R, c, f._qual, "append(%s)" % txt, "label + exponent for exponents other than 0 and 1",
                      "the factor `label + exponent` is not limited to exponents other than 0 and 1")
        elif txt == "self.sys[%s]" % k:
            okk = one(cfg, True) or (nz(cfg) and one(cfg, True))
            forms["bare"] += okk
            ctx.check(okk, R, c, f._qual, "append(%s)" % txt, "bare label exactly for exponent 1",
                      "the bare label is printed for an exponent other than 1")
        else:
            ctx.violation(R, c, f._qual, "append(%s)" % txt, "a factor is neither `label + str(exponent)` nor the bare label: the "
                          "parser does not read it back as the same unit")
    ctx.check(forms["withexp"] >= 1 and forms["bare"] >= 1, R, f, f._qual, "one factor per base kind with a non-zero exponent",
              "label + exponent, exponent 1 omitted, exponent 0 skipped", "zero-exponent kinds are printed or kinds skipped")
    rets = [r for r in ast.walk(f) if isinstance(r, ast.Return) and r.value is not None]
    src = pyfe.src(f).replace(" ", "").replace('"', "'")
    joined = any(isinstance(r.value, ast.Call) and isinstance(r.value.func, ast.Attribute) and r.value.func.attr == "join" and
                 isinstance(r.value.func.value, ast.Constant) and r.value.func.value.value == "." for r in rets) or \
        ("out+='.'" in src and "out+=s[i]" in src)
    ctx.check(joined, R, rets[0] if rets else f, f._qual, "factors joined by '.'", "a separator the parser accepts", "joined by "
              "something the parser does not split on")
    rule_value_str(ctx, py, R)
    rule_value_float(ctx, py, R)
    h = py.fn("units.parse_unitvalue")
    src = pyfe.src(h).replace(" ", "")
    ctx.check("tok=s.split()" in src and "value=float(tok[0])" in src, R, h, h._qual, "first blank-separated token is "
              "the number (float)", "", "")
    ctx.floor(R, 6)


def rule_value_str(ctx, py, R):
    """str(UnitValue) = shortest round-trip text of the number, a blank, the units text (also the serialisation format of
    every quantity stored in a dictionary / JSON file: shared with C12)"""
    from .. import pysym
    g = py.fn("units.UnitValue.__str__")
    rets = [x for x in ast.walk(g) if isinstance(x, ast.Return) and x.value is not None]
    parts = []

    def flat(e):
        if isinstance(e, ast.BinOp) and isinstance(e.op, ast.Add):
            flat(e.left)
            flat(e.right)
        else:
            parts.append(e)
    if len(rets) == 1:
        flat(pysym.inline(rets[0].value, g))
    num_ok = len(parts) == 3 and pyfe.src(parts[0]) in ("str(self.value)", "repr(self.value)", "str(self._value)",
                                                         "repr(self._value)")
    okk = len(parts) == 3 and isinstance(parts[1], ast.Constant) and isinstance(parts[1].value, str) and \
        parts[1].value.strip() == "" and len(parts[1].value) >= 1 and pyfe.src(parts[2]) in (
            "self.units.__str__()", "str(self.units)", "self._units.__str__()", "str(self._units)")
    ctx.check(okk, R, g, g._qual, "value, blank, units", "what parse_unitvalue splits on",
              "value not separated from its unit by a blank")
    ctx.check(num_ok, R, rets[0] if rets else g, g._qual, "number printed as %s" % (pyfe.src(parts[0])[:60] if parts else "?"),
              "str / repr of the float: the shortest text that parses back to the same float",
              "the number is printed as `%s`, not as str(self.value): digits are lost (rounding, fixed precision), the printed "
              "quantity does not parse back to the same value" % (pyfe.src(parts[0])[:80] if parts else "?"))


def rule_value_float(ctx, py, R="C18.VALUE-STR"):
    """the number a UnitValue holds is a Python float: str() of it is then the shortest text that float() reads back to the same
    bits.  A numpy scalar kept as given (float32, longdouble) prints in its own precision, and what is parsed back is another
    number."""
    c = py.cls("units.UnitValue")
    n = 0
    for m in [x for x in c.body if isinstance(x, ast.FunctionDef)]:
        for st in ast.walk(m):
            if isinstance(st, ast.Assign) and any(pyfe.src(t) == "self._value" for t in st.targets):
                n += 1
                v = st.value
                ok = isinstance(v, ast.Call) and isinstance(v.func, ast.Name) and v.func.id == "float" and len(v.args) == 1
                ctx.check(ok, R, st, "units.UnitValue." + m.name, pyfe.src(st)[:60], "stored as float(..)",
                          "`%s` keeps the number in the type it was given in: a numpy float32 / longdouble prints with its own "
                          "digits, the printed quantity parses back to a different value" % pyfe.src(st)[:50])
    ctx.need(n >= 1, R, "UnitValue: no store to self._value found")


FLOAT_TEXTS = ("0.0", "1.0", "-1.5", "2499.99", "1e+16", "-6.02214076e+23", "1.2345e-07", "5e-324", "1.7976931348623157e+308",
               "1e-05", "123456789012.0")


def rule_value_read(ctx, py):
    """C18.VALUE-READ -- the number of a printed quantity is read back by float(), the inverse of the str() it was printed with;
    a filter put in front of it (a regular expression on the value token) accepts every shape str(float) produces, the
    exponent forms d.ddde+NN / d.ddde-NN included.  The patterns are literals of the source; they are compiled and matched
    against fixed sample texts here -- the package itself is not executed."""
    R = "C18.VALUE-READ"
    import re
    f = py.fn("units.parse_unitvalue")
    m = f._mod
    conv = [c for c in pyfe.calls_in(f) if pyfe.call_name(c) == "float" and c.args]
    ctx.check(len(conv) >= 1 and all(pyfe.src(c.args[0]).startswith("tok[0]") for c in conv), R, conv[0] if conv else f, f._qual,
              "value = float(tok[0])", "inverse of str(float)", "the value token is not read with float()")
    # module-level compiled patterns
    pats = {}
    for st in m.tree.body:
        if isinstance(st, ast.Assign) and isinstance(st.value, ast.Call) and pyfe.call_name(st.value) in ("re.compile", "compile") \
                and st.value.args and isinstance(st.value.args[0], ast.Constant) and isinstance(st.value.args[0].value, str):
            for t in st.targets:
                if isinstance(t, ast.Name):
                    pats[t.id] = st.value.args[0].value
    n = 0
    for c in pyfe.calls_in(f):
        if not (isinstance(c.func, ast.Attribute) and c.func.attr in ("match", "fullmatch", "search")):
            continue
        base = pyfe.src(c.func.value)
        if base == "re" and len(c.args) >= 2 and isinstance(c.args[0], ast.Constant):
            pat, subj = c.args[0].value, c.args[1]
        elif base in pats and c.args:
            pat, subj = pats[base], c.args[0]
        else:
            ctx.error(R, "parse_unitvalue: regular expression `%s` is not a literal of the module" % pyfe.src(c)[:50])
        if "tok[0]" not in pyfe.src(subj):
            continue
        try:
            rx = re.compile(pat)
        except re.error as e:
            ctx.error(R, "parse_unitvalue: pattern does not compile: %s" % e)
        miss = [t for t in FLOAT_TEXTS if getattr(rx, c.func.attr)(t) is None]
        n += 1
        ctx.check(not miss, R, c, f._qual, "value filter %r" % pat, "accepts every shape str(float) prints",
                  "the filter in front of float() does not match %s: a quantity printed with such a value cannot be read back"
                  % ", ".join(repr(t) for t in miss[:3]))
    ctx.floor(R, 1)


def rule_samebase(ctx, py):
    """addunit accepts a second factor of a base kind only if it names the unit already recorded for that kind"""
    R = "C18.SAMEBASE"
    from .. import pya
    f = py.fn("units.parse_units")
    inner = [n for n in ast.walk(f) if isinstance(n, ast.FunctionDef) and n.name == "addunit"]
    ctx.need(len(inner) == 1, R, "parse_units: addunit not found")
    g = inner[0]
    fld, su = pyfe.params(g)[0], pyfe.params(g)[1]
    ifs = [n for n in g.body if isinstance(n, ast.If)]
    ctx.need(len(ifs) == 1 and any(isinstance(x, ast.Raise) for x in ast.walk(ifs[0])), R, "addunit: accept / raise test not found")
    st = ifs[0]
    accept_when_true = not any(isinstance(x, ast.Raise) for b in st.body for x in ast.walk(b))
    # the accepting branch must imply:  no unit recorded yet for this kind, or the recorded unit is `su`
    none_forms = ("sys[%s] == None" % fld, "sys[%s] is None" % fld, "sys[%s] == ''" % fld)
    same = "sys[%s] == %s" % (fld, su)
    ats = sorted(set(pya.expr_atoms(st.test)))
    ok = False
    if len(ats) <= 6:
        import itertools
        ok = True
        witnessed = False
        for vals in itertools.product([False, True], repeat=len(ats)):
            asg = dict(zip(ats, vals))
            if pya.bool_eval(st.test, asg) == accept_when_true:
                witnessed = True
                if not (any(asg.get(a) for a in none_forms) or asg.get(same)):
                    ok = False
        ok = ok and witnessed and any(a in ats for a in none_forms) and same in ats
    ctx.check(ok, R, st, f._qual, "addunit accepts when %s%s" % ("" if accept_when_true else "not ", pyfe.src(st.test)),
              "only a first unit of that base kind, or the same unit again", "a second, different unit of one base kind is "
              "accepted under a condition that is not 'nothing recorded yet or the same unit' (e.g. after the exponent "
              "cancelled to zero): 'm.m-1.cm' is read as cm instead of being rejected")
    # the slots start empty so that the first unit can be told from a default
    init = [n for n in f.body if isinstance(n, ast.Assign) and pyfe.src(n.targets[0]) == "sys"]
    okin = len(init) == 1 and isinstance(init[0].value, ast.Dict) and all(pyfe.src(v) == "None" for v in init[0].value.values)
    ctx.check(okin, R, init[0] if init else f, f._qual, "sys slots start as None", "", "the unit slots start with default units: a "
              "unit differing from the default cannot be recorded as the first one")
    ctx.floor(R, 2)


def rule_expsum(ctx, py):
    """C18.EXPSUM -- factors of the same base kind multiply: addunit adds the factor's exponent to the exponent recorded for
    that kind ('m/s/s' is m.s-2, 'M.L' is mol: the litre and molar families contribute to the space exponent through here)"""
    R = "C18.EXPSUM"
    f = py.fn("units.parse_units")
    inner = [n for n in ast.walk(f) if isinstance(n, ast.FunctionDef) and n.name == "addunit"]
    ctx.need(len(inner) == 1, R, "parse_units: addunit not found")
    g = inner[0]
    ps = pyfe.params(g)
    ctx.need(len(ps) == 3, R, "addunit: (kind, unit, exponent) parameters not found")
    fld, su, se = ps
    st = [n for n in ast.walk(g) if isinstance(n, (ast.Assign, ast.AugAssign)) and
          isinstance(n.targets[0] if isinstance(n, ast.Assign) else n.target, ast.Subscript) and
          pyfe.src((n.targets[0] if isinstance(n, ast.Assign) else n.target).value) == "dim"]
    ctx.need(st, R, "addunit: no store into the exponent table `dim`")
    for n in st:
        tg = n.targets[0] if isinstance(n, ast.Assign) else n.target
        v = pyfe.src(n.value).replace(" ", "")
        ok = pyfe.src(tg.slice) == fld and (
            (isinstance(n, ast.AugAssign) and isinstance(n.op, ast.Add) and v == se) or
            (isinstance(n, ast.Assign) and v in ("dim[%s]+%s" % (fld, se), "%s+dim[%s]" % (se, fld))))
        ctx.check(ok, R, n, f._qual, pyfe.src(n), "the factor's exponent is added to the one recorded for its base kind",
                  "the exponent of a base kind is not accumulated over the factors naming it: a unit written with a repeated "
                  "base ('m/s/s', 'M.L', 'mol/L.L') is read with another dimension")
    init = [n for n in f.body if isinstance(n, ast.Assign) and pyfe.src(n.targets[0]) == "dim"]
    okin = len(init) == 1 and isinstance(init[0].value, ast.Dict) and all(pyfe.src(v) == "0" for v in init[0].value.values)
    ctx.check(okin, R, init[0] if init else f, f._qual, "exponents start at 0", "", "the exponent table does not start at zero")
    ctx.floor(R, 2)


def rule_expsign(ctx, py):
    """C18.EXPSIGN -- '/' inverts exactly the factor it precedes: in the loop that turns each block's exponent text into an
    integer, the sign depends on that block's own separator only (no variable carried from one block to the next), and the
    exponent is negated under `separator == "/"`."""
    R = "C18.EXPSIGN"
    f = py.fn("units.parse_units")
    loops = [n for n in f.body if isinstance(n, ast.For) and isinstance(n.target, ast.Name) and any(
        isinstance(x, ast.Assign) and pyfe.src(x.targets[0]) == "%s[2]" % n.target.id for x in ast.walk(n))]
    ctx.need(len(loops) == 1, R, "parse_units: exponent loop not found")
    lp = loops[0]
    b = lp.target.id
    # names written in the loop and read in it before an unconditional write of the same iteration
    top_written = set()
    carried = []
    for st in lp.body:
        reads = [x.id for x in ast.walk(st) if isinstance(x, ast.Name) and isinstance(x.ctx, ast.Load)]
        writes_any = {x.id for x in ast.walk(st) if isinstance(x, ast.Name) and isinstance(x.ctx, ast.Store)}
        all_writes = {x.id for y in lp.body for x in ast.walk(y) if isinstance(x, ast.Name) and isinstance(x.ctx, ast.Store)}
        for r in reads:
            if r in all_writes and r not in top_written and r != b:
                carried.append((st, r))
        if isinstance(st, ast.Assign):
            for t in st.targets:
                if isinstance(t, ast.Name):
                    top_written.add(t.id)
    ctx.check(not carried, R, carried[0][0] if carried else lp, f._qual, "exponent loop over the blocks", "each block decided on its own",
              "`%s` is carried from one block to the next: a '/' also inverts the factors after the next '.', `mol/µm.s` is read as "
              "mol.µm-1.s-1" % (carried[0][1] if carried else ""))
    negs = []

    def on(node, cfg):
        if isinstance(node, ast.Assign) and pyfe.src(node.targets[0]) == "%s[2]" % b:
            v = node.value
            t = pyfe.src(v).replace(" ", "")
            if t in ("-%s[2]" % b, "-1*%s[2]" % b, "%s[2]*-1" % b, "-int(%s[2])" % b):
                negs.append((node, cfg))
            # the same decision as a conditional expression:  b[2] = -e if b[0] == "/" else e
            if isinstance(v, ast.IfExp):
                from .. import pya as _pya
                at = set(_pya.atoms(v.test, True))
                neg_body = isinstance(v.body, ast.UnaryOp) and isinstance(v.body.op, ast.USub) and \
                    pyfe.src(v.body.operand) == pyfe.src(v.orelse)
                neg_else = isinstance(v.orelse, ast.UnaryOp) and isinstance(v.orelse.op, ast.USub) and \
                    pyfe.src(v.orelse.operand) == pyfe.src(v.body)
                if neg_body:
                    negs.append((node, set(cfg) | at))
                elif neg_else:
                    negs.append((node, set(cfg) | set(_pya.atoms(v.test, False))))
    from .. import pya
    pya.must_facts(lp, on_stmt=on) if False else None
    from .. import ir

    class C(pya.PyFacts):
        def atom(self, node, cfg):
            if self.record:
                on(node, cfg)
            return super().atom(node, cfg)
    ir.Engine(C(), "must").run(ir.py_to_ir(lp.body))
    okk = len(negs) >= 1 and all(("%s[0] == '/'" % b, True) in cfg for _, cfg in negs)
    ctx.check(okk or bool(carried), R, negs[0][0] if negs else lp, f._qual, "exponent negated under %s[0] == '/'" % b, "the factor after "
              "a '/' is in the denominator", "the exponent of a block is not negated exactly when the block follows a '/'")
    ctx.floor(R, 2)


def rule_blocks(ctx, py):
    """C18.BLOCKS -- every factor of the text is looked up and an unknown (or empty) symbol raises: no iteration of the factor loop
    ends without having passed the `unit type is None -> raise` test, and the empty string is answered before the factor loop"""
    R = "C18.BLOCKS"
    from .. import pya, ir
    f = py.fn("units.parse_units")
    loops = [n for n in f.body if isinstance(n, ast.For) and any(
        isinstance(c, ast.Call) and pyfe.call_name(c) == "get_unit_type" for c in ast.walk(n))]
    ctx.need(len(loops) == 1, R, "parse_units: the factor loop (get_unit_type) is not found")
    lp = loops[0]
    tname = None
    for st in ast.walk(lp):
        if isinstance(st, ast.Assign) and isinstance(st.value, ast.Call) and pyfe.call_name(st.value) == "get_unit_type" and \
                isinstance(st.targets[0], ast.Name):
            tname = st.targets[0].id
    ctx.need(tname is not None, R, "parse_units: result of get_unit_type is not kept in a local")
    eng = ir.Engine(pya.PyFacts(), "must")
    out = eng.ex(ir.py_to_ir(lp.body), frozenset())
    ends = [x for x in (out.normal, out.cont) if x is not None]
    ctx.need(ends, R, "parse_units: the factor loop body never completes")
    want = [("%s == None" % tname, False), ("%s is None" % tname, False)]
    okk = all(any(w in st_ for w in want) for st_ in ends)
    ctx.check(okk, R, lp, f._qual, "every factor passes `%s == None -> raise`" % tname, "unknown and empty symbols raise",
              "an iteration of the factor loop can end (continue / skip) without the unknown-unit test: a factor with an empty or "
              "unknown symbol (`m..s`, `m.2`, a dangling separator) is silently dropped instead of raising")
    # the empty text is the only text without factors: it is answered before the loop
    early = [st for st in f.body[:f.body.index(lp)] if isinstance(st, ast.If) and any(isinstance(b_, ast.Return) for b_ in st.body) and
             pyfe.src(st.test).replace(" ", "").replace('"', "'") in ("s==''", "''==s", "nots", "len(s)==0")]
    ctx.check(len(early) == 1, R, early[0] if early else f, f._qual, "empty text -> dimensionless, before the factor loop", "",
              "the empty text is no longer answered on its own: the factor loop has to let an empty symbol through")
    ctx.floor(R, 2)


def run(ctx):
    py = ctx.py
    rule_samebase(ctx, py)
    rule_rawtext(ctx, py)
    rule_expstate(ctx, py)
    rule_value_read(ctx, py)
    rule_expsum(ctx, py)
    rule_alphabet(ctx, py)
    rule_micro(ctx, py)
    n0 = len(ctx.insts)
    vol, con = c06.rule_derived(ctx, py)
    c06.rule_labels(ctx, py, vol, con)
    for i in ctx.insts[n0:]:
        i.rule = i.rule.replace("C06.", "C18.")
    ctx.floors = {k: v for k, v in ctx.floors.items() if k.startswith("C18")}
    rule_print(ctx, py)
    rule_expsign(ctx, py)
    rule_blocks(ctx, py)
    from .. import lints
    lints.run(ctx, "C18", ctx.py, ["units"])
    ctx.assume("NOT decided: the tokeniser's behaviour on arbitrary and malformed text (doubled / dangling separators, "
               "misplaced exponents, embedded blanks, two units of one base kind), and the bit-identical float round "
               "trip; these quantify over arbitrary strings and are outside a sound static argument in reach")
