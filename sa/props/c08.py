"""C08 -- determinism: no source of nondeterminism or leftover state can reach a trajectory.
Inventory of nondeterminism sources and their def-use, RNG seeding discipline, definite assignment of the globals
and of every field read by the step functions, the driver exports touch the simulation only through Iterate(),
Python seed handling, no randomness in the deterministic engine.  Does not decide bit-identity across compilers."""
import ast
import re

from .. import cxfe, cxa, ir, pyfe, pya
from ..cxfe import kids, strip, walk, text, name_of, call_parts, uname
from ..core import AnalysisError
from . import c10

ND_CALLS = {"now", "rand", "srand", "time", "clock", "getenv", "random_device", "gettimeofday", "clock_gettime",
            "getpid", "rdtsc", "high_resolution_clock", "steady_clock"}
ND_TYPES = ("random_device", "std::thread", "std::async", "std::future", "std::atomic")
DRIVERS = ("engineexport_run", "engineexport_iterate_n", "engineexport_iterate")


def rule_src(ctx, tu):
    R = "C08.SRC"
    found = []
    for f in tu.all_fns():
        if f.body is None:
            continue
        for n in walk(f.body):
            cp = call_parts(n) if n.get("kind") in ("CallExpr", "CXXMemberCallExpr") else None
            if cp and cp[0] in ND_CALLS:
                found.append((f, n, cp[0]))
            t = n.get("type", {}).get("qualType", "")
            if n.get("kind") in ("VarDecl", "CXXTemporaryObjectExpr", "CXXConstructExpr") and any(x in t for x in ND_TYPES):
                found.append((f, n, t))
            if n.get("kind") == "VarDecl" and n.get("storageClass") == "static" and \
                    not n.get("type", {}).get("qualType", "").startswith("const "):
                ctx.violation(R, n, f.qual, text(n), "function-local static: state that survives a set-up and is shared "
                              "by all simulations of the process")
            if n.get("kind") == "VarDecl" and n.get("tls"):
                ctx.violation(R, n, f.qual, text(n), "thread-local state")
    for f, n, what in found:
        if what == "now" and f.qual == "engineexport_run":
            # the clock value may only flow into the loop-exit comparison
            continue
        ctx.violation(R, n, f.qual, text(n)[:80], "a source of nondeterminism (%s) outside the wall-clock bound of "
                      "engineexport_run: results may differ from run to run" % what)
    run = tu.fn("engineexport_run")
    clock_vars = set()
    for n in walk(run.body):
        if n.get("kind") == "VarDecl" and any((call_parts(y) or (None,))[0] == "now" for y in walk(n)):
            clock_vars.add(uname(n))
    ctx.need(clock_vars, R, "engineexport_run: no clock-derived local found")
    # every use of a clock-derived local is (a) the definition of another clock local or (b) the break condition
    changed = True
    while changed:
        changed = False
        for n in walk(run.body):
            if n.get("kind") == "VarDecl" and uname(n) not in clock_vars and \
                    any(y.get("kind") == "DeclRefExpr" and uname(y) in clock_vars for y in walk(n)):
                clock_vars.add(uname(n))
                changed = True
    uses = []

    def classify(n, ctxk):
        k = n.get("kind")
        if k == "VarDecl":
            for c in kids(n):
                classify(c, "def:" + str(uname(n)))
            return
        if k == "IfStmt":
            p = cxfe.raw_kids(n)
            then = p[1]
            t = then if then.get("kind") != "CompoundStmt" else (kids(then)[0] if len(kids(then)) == 1 else then)
            classify(p[0], "break-cond" if t.get("kind") == "BreakStmt" else "cond")
            for c in p[1:]:
                if c:
                    classify(c, ctxk)
            return
        if k == "DeclRefExpr" and uname(n) in clock_vars:
            uses.append((n, ctxk))
        for c in kids(n):
            classify(c, ctxk)
    classify(run.body, "stmt")
    for n, where in uses:
        ok = where == "break-cond" or (where.startswith("def:") and where[4:] in clock_vars)
        ctx.check(ok, R, n, run.qual, "clock value `%s` used in %s" % (uname(n), where),
                  "only decides when the slice ends", "wall-clock time flows into %s: the trajectory depends on timing" % where)
    nnow = sum(1 for f, n, w in found if w == "now")
    ctx.check(nnow >= 1, R, run.node, run.qual, "%d now() calls, all in engineexport_run" % nnow, "", "")
    ctx.floor(R, 3)


def rule_rng(ctx, tu, eff):
    R = "C08.RNG"
    for f in tu.all_fns():
        if f.body is None:
            continue
        for n in walk(f.body):
            t = n.get("type", {}).get("qualType", "") + n.get("type", {}).get("desugaredQualType", "")
            if n.get("kind") in ("CXXTemporaryObjectExpr", "CXXConstructExpr", "CXXFunctionalCastExpr") and \
                    ("mt19937" in t or "mersenne_twister_engine" in t):
                a = [x for x in kids(n) if x.get("kind") != "CXXDefaultArgExpr"]
                if n.get("kind") == "CXXFunctionalCastExpr":
                    continue
                if a and ("mt19937" in (strip(a[0], casts=True).get("type", {}).get("qualType", "")) or
                          "mersenne" in strip(a[0], casts=True).get("type", {}).get("desugaredQualType", "")):
                    continue   # copy / move of an engine
                if not a:
                    if f.cls is not None and f.name == f.cls.name:
                        continue
                    par_ok = False
                    # default construction of the member in a constructor is overwritten by Init (INIT-ALL)
                    ctx.info(R, n, f.qual, text(n)[:60], "default-constructed engine")
                    continue
                src = uname(strip(a[0], casts=True))
                ctx.check(src == "seed" and "seed" in f.param_names(), R, n, f.qual, text(n)[:70],
                          "constructed from the seed parameter", "a generator is seeded with `%s`, not with the seed "
                          "the caller passed" % (src or text(a[0])))
    # the member generator is assigned only in Init; it is advanced only by draws
    for c in tu.classes.values():
        for m in c.methods.values():
            if m.body is None:
                continue
            for s in cxa.all_stores(m.body):
                if s.base == ("field", "rng") and s.how == "assign":
                    ctx.check(m.name == "Init", R, s.node, m.qual, text(s.node)[:70], "the generator is (re)seeded only by Init",
                              "the generator is re-assigned outside Init: the random stream restarts in the middle of a run")
    # seed reaches Init from the export parameter
    for name in ("engineexport_initialize_grid", "engineexport_initialize_graph"):
        g = tu.fn(name)
        for n in walk(g.body):
            cp = call_parts(n) if n.get("kind") == "CXXMemberCallExpr" else None
            if cp and cp[0] == "Init":
                callee = tu.resolve_calls(g, n)[0]
                i = callee.param_names().index("seed")
                ctx.check(uname(strip(cp[2][i], casts=True)) == "seed", R, n, name, "Init(..., seed)", "the export's seed", "another value is passed as seed")
    ctx.floor(R, 9)


def handled_codes(py, qual):
    """return codes of the native initialiser that the Python caller turns into an exception: `if res == k: raise`, or every
    non-zero code (`if res != 0: raise` / `if res: raise`)"""
    import ast
    f = py.fn(qual)
    res = None
    for st in ast.walk(f):
        if isinstance(st, ast.Assign) and isinstance(st.value, ast.Call) and "engineexport_initialize" in pyfe.src(st.value.func):
            res = pyfe.src(st.targets[0])
    if res is None:
        return None
    codes = set()
    for st in ast.walk(f):
        if isinstance(st, ast.If) and any(isinstance(x, ast.Raise) for b in st.body for x in ast.walk(b)):
            for a, pol in pya.atoms(st.test, True):
                m = re.match(r"^%s == (\d+)$" % re.escape(res), a)
                if m and pol:
                    codes.add(int(m.group(1)))
                if (a == "%s == 0" % res and pol is False) or (a == res and pol):
                    codes.add("*")
    return codes


def rule_globals(ctx, tu, py=None):
    R = "C08.GLOBALS"
    ptrs, bools = c10.globals_info(tu)
    names = sorted(g["name"] for g in tu.globals)
    ctx.check(len(names) == 4, R, tu.globals[0], "engine.cpp", "namespace-scope variables: %s" % names, "the four known ones "
              "(their sharing is C10.ISOLATION)", "a new process-wide variable: state that outlives a set-up")
    for name, ptr in (("engineexport_initialize_grid", "global_grid_algo"), ("engineexport_initialize_graph", "global_graph_algo")):
        g = tu.fn(name)
        rets = []

        def gen(node):
            out = []
            for x in walk(node):
                for s in cxa.stores_of_node(x):
                    if s.base and s.base[0] == "var" and s.op == "=":
                        fresh = strip(s.rhs, casts=True).get("kind") == "CXXNewExpr"
                        out.append(("set:" + s.base[1] + (":new" if fresh else ""), True))
                        out.append(("set:" + s.base[1], True))
            return out

        class C(cxa.CanonFacts):
            def ret(self, s, cfg):
                v = cxa.const_int(s.a) if s.a is not None else None
                rets.append((s.src, v, cfg))
        cl = C(None, None, gen)
        ir.Engine(cl, "must").run(ir.cx_to_ir(g.body))
        succ = [r for r in rets if r[1] == 0]
        ctx.need(succ, R, "%s: no success return found" % name)
        for node, v, cfg in succ:
            for need in ("set:global_space_type", "set:%s:new" % ptr, "set:global_algo_freed"):
                ctx.check((need, True) in cfg, R, node, name, "success path: %s" % need.replace("set:", "assigns "),
                          "definitely assigned (fresh object)", "a successful set-up can leave %s from a previous simulation"
                          % need.split(":")[1])
        # refusals: a non-zero code either becomes an exception in the Python caller, or it is decided by the arguments alone
        # (values the Python setters have already restricted) -- never by what an earlier set-up left in the library
        if py is not None:
            hc = handled_codes(py, "librdengine.LibRDEngine._setup_" + name.rsplit("_", 1)[1])
            ctx.need(hc is not None, R, "caller of %s: result of the call not kept" % name)
            gl = {g_["name"] for g_ in tu.globals}
            for node, v, cfg in rets:
                if v in (0, None):
                    continue
                dep = sorted({g_ for g_ in gl for a, _ in cfg if isinstance(a, str) and not a.startswith("set:") and re.search(r"\b%s\b" % re.escape(g_), a)})
                ctx.check(v in hc or "*" in hc or not dep, R, node, name, "return %s" % v, "raised by the caller" if
                          (v in hc or "*" in hc) else "decided by the arguments alone", "the initialiser refuses with code %s "
                          "depending on the library-wide `%s`, and the Python caller ignores that code: set-up returns normally "
                          "without having initialised anything, the calls that follow drive the simulation of an earlier set-up"
                          % (v, dep[0] if dep else ""))
    ctx.floor(R, 7 if py is None else 12)


def flow_summary(tu, f, concrete, memo, stack=()):
    """(exposed reads, must writes) of member fields for f: a read is exposed if some path reaches it before the field
    was written inside f (callees included, virtual calls resolved in `concrete`)"""
    key = (f.qual, concrete)
    if key in memo:
        return memo[key]
    if key in stack or f.body is None:
        return (set(), set())
    fields = set(tu.all_fields(concrete))
    exposed = set()
    exits = []

    def effects(node):
        reads, writes = set(), set()
        targets = set()
        for x in walk(node):
            for s in cxa.stores_of_node(x):
                if s.base and s.base[0] == "field":
                    writes.add(s.base[1])
                    if s.op == "=" and s.how == "assign" and cxfe.subscript(s.target) is None:
                        targets.add(id(strip(s.target, casts=True)))
        for x in walk(node):
            if x.get("kind") == "MemberExpr" and cxfe.is_this_member(x) and x.get("name") in fields and \
                    id(x) not in targets:
                reads.add(x["name"])
        return reads, writes

    def on(node, facts):
        have = {t[1] for t, p in facts if isinstance(t, tuple) and t[0] == "w"}
        reads, writes = effects(node)
        # a store like  v.resize(n) / v[i] = ..  reads nothing of v's old content that matters for definedness
        for r in reads - have:
            if r not in writes:
                exposed.add(r)
        for x in walk(node):
            for callee in tu.resolve_calls(f, x, concrete=concrete):
                ce, cw = flow_summary(tu, callee, concrete, memo, stack + (key,))
                exposed.update(ce - have)

    def gen(node):
        out = []
        reads, writes = effects(node)
        for w in writes:
            out.append((("w", w), True))
        for x in walk(node):
            for callee in tu.resolve_calls(f, x, concrete=concrete):
                ce, cw = flow_summary(tu, callee, concrete, memo, stack + (key,))
                for w in cw:
                    out.append((("w", w), True))
        return out

    class C(cxa.GuardFacts):
        def ret(self, s_, cfg):
            exits.append(cfg)

        def exit(self, cfg):
            exits.append(cfg)
    cl = C(on, on, gen)
    ir.Engine(cl, "must").run(ir.cx_to_ir(f.body))
    must = None
    for c in exits:
        w = {t[1] for t, p in c if isinstance(t, tuple) and t[0] == "w"}
        must = w if must is None else must & w
    memo[key] = (exposed, must or set())
    return memo[key]


def rule_init_all(ctx, tu, eff):
    R = "C08.INIT-ALL"
    entry = ["Iterate", "Sample", "GetProgress", "GetSampledStates", "NSamples", "NSpecies", "NMeshes", "GetState", "GetT",
             "GetSampledT"]
    memo = {}
    for c in tu.classes.values():
        if not c.bases:
            continue
        init = tu.lookup_method(c.name, "Init")
        iexp, iw = flow_summary(tu, init, c.name, memo)
        ctx.check(not iexp, R, init.node, c.name + " via " + init.qual, "Init reads no field before writing it",
                  "%d fields definitely written" % len(iw),
                  "Init reads %s before any store to it: the value comes from uninitialised memory"
                  % sorted(iexp))
        for e in entry:
            m = tu.lookup_method(c.name, e)
            ex, _ = flow_summary(tu, m, c.name, memo)
            missing = sorted(ex - iw)
            ctx.check(not missing, R, m.node, "%s (%s)" % (m.qual, c.name), "%s: %d fields read before written, all set by Init"
                      % (e, len(ex)), "", "%s reads %s, which Init leaves unset: the result depends on uninitialised "
                      "memory or a previous object" % (e, missing))
    ctx.floor(R, 6 * 11)


def rule_slice(ctx, tu):
    R = "C08.SLICE"
    ptrs, _ = c10.globals_info(tu)
    for name in DRIVERS:
        f = tu.fn(name)
        for n in walk(f.body):
            if n.get("kind") == "MemberExpr" and n.get("isArrow"):
                b = strip(kids(n)[0], casts=True)
                if b.get("kind") == "DeclRefExpr" and name_of(b) in ptrs:
                    par_call = None
                    ok = n.get("name") == "Iterate"
                    ctx.check(ok, R, n, name, "%s->%s" % (name_of(b), n.get("name")), "the only access is Iterate()",
                              "the driver touches the simulation through %s: slicing the run changes the result" % n.get("name"))
        for n in walk(f.body):
            cp = call_parts(n) if n.get("kind") == "CXXMemberCallExpr" else None
            if cp and cp[0] == "Iterate":
                ctx.check(len(cp[2]) == 0, R, n, name, "Iterate()", "no argument depends on the slicing", "")
    ctx.floor(R, 6)


def rule_py_seed(ctx, py, R="C08.PY-SEED"):
    uses = []
    for m in py.mods.values():
        for f in m.funcs.values():
            for c in pyfe.calls_in(f):
                nm = pyfe.call_name(c)
                if nm.startswith("random.") or nm.startswith("np.random.") or nm in ("time.time", "os.urandom", "uuid.uuid4"):
                    uses.append((f, c, nm))
    ctx.need(uses, R, "no random.* use found (RDScript.rng_seed draws the default seed)")
    for f, c, nm in uses:
        ok = f._qual == "rdscript.RDScript.rng_seed.setter"
        if ok:
            p = pyfe.parent(c)
            while p is not None and not isinstance(p, ast.If):
                p = pyfe.parent(p)
            ok = p is not None and pyfe.src(p.test) in ("rng_seed == None", "rng_seed is None", "isnone(rng_seed)")
        ctx.check(ok, R, c, f._qual, pyfe.src(c)[:60], "only draws the seed when none was given",
                  "randomness outside the default-seed branch of RDScript.rng_seed")
    from .. import ffi
    for fn, call, name in ffi.call_sites(py):
        if name.startswith("engineexport_initialize"):
            f = ctx.cx.fn(name)
            i = f.param_names().index("seed")
            ctx.check(pyfe.src(call.args[i]) == "ctypes.c_int(script.rng_seed)", R, call.args[i], fn._qual,
                      "%s seed <- %s" % (name, pyfe.src(call.args[i])), "the script's seed", "another seed is handed to the engine")
    su = py.fn("librdengine.LibRDEngine.setup")
    first = pyfe.first_touching(su, {"script", "_script"}) or su.body[0]      # the first statement that concerns the script
    ctx.check(pyfe.src(first) == "self._script = script.copy()", R, first, su._qual, pyfe.src(first),
              "the engine keeps a copy of the script whose seed it uses", "")
    go = py.fn("librdengine.LibRDEngine.get_output")
    kw = {k.arg: pyfe.src(k.value) for c in pyfe.calls_in(go) if pyfe.call_name(c) == "RDTrajectory" for k in c.keywords}
    ctx.check(kw.get("script") == "self._script", R, go, go._qual, "trajectory.script = self._script", "the seed that was used "
              "is the one stored with the output", "")
    tr = py.fn("rdoutput.RDTrajectory.__init__")
    ctx.check("self._script = script.copy()" in pyfe.src(tr), R, tr, tr._qual, "RDTrajectory copies the script", "", "")
    sc = py.fn("rdscript.RDScript.rng_seed.setter")
    ctx.check("self._rng_seed = rng_seed" in pyfe.src(sc), R, sc, sc._qual, "the drawn seed is stored in the script", "", "")
    ctx.floor(R, 7)


FRESH = ("copy", "deepcopy", "convert", "array", "UnitArray", "UnitValue", "UnitsSystem", "list", "dict", "tuple", "float", "int",
         "str", "encode")


def _aliases(fn, roots):
    """names of fn that may denote (part of) the objects the `roots` parameters denote: a plain name / attribute / subscript
    chain rooted at an alias propagates the alias; a call (copy(), convert(), a constructor ...) yields a fresh object"""
    al = set(roots)
    changed = True
    while changed:
        changed = False
        for n in ast.walk(fn):
            if isinstance(n, ast.Assign) and len(n.targets) == 1 and isinstance(n.targets[0], ast.Name):
                v = n.value
                while isinstance(v, (ast.Attribute, ast.Subscript)):
                    v = v.value
                if isinstance(v, ast.Name) and v.id in al and n.targets[0].id not in al:
                    al.add(n.targets[0].id)
                    changed = True
    return al


def rule_py_pure(ctx, py, R="C08.PY-PURE"):
    """C08.PY-PURE -- running a simulation does not modify the script (or the system inside it) that the caller handed in:
    otherwise the second use of the same script is not the first one repeated"""
    MUT = ("append", "extend", "insert", "pop", "remove", "clear", "sort", "reverse", "update", "setdefault", "fill", "resize")
    n = 0
    for q, roots in (("librdengine.LibRDEngine.setup", ["script"]), ("librdengine.LibRDEngine._setup_grid", ["script"]),
                     ("librdengine.LibRDEngine._setup_graph", ["script"]), ("simulate.simulate_script", ["script"])):
        f = py.fn(q)
        roots = [r for r in roots if r in pyfe.params(f)]
        ctx.need(roots, R, "%s: parameter `script` not found" % q)
        al = _aliases(f, roots)
        rebound = {t.id for x in ast.walk(f) if isinstance(x, ast.Assign) for t in x.targets if isinstance(t, ast.Name) and
                   t.id in roots}
        bad = []
        for x in ast.walk(f):
            tg = []
            if isinstance(x, ast.Assign):
                tg = x.targets
            elif isinstance(x, (ast.AugAssign, ast.AnnAssign)):
                tg = [x.target]
            elif isinstance(x, ast.Delete):
                tg = x.targets
            for t in tg:
                if isinstance(t, (ast.Attribute, ast.Subscript)):
                    b = t
                    while isinstance(b, (ast.Attribute, ast.Subscript)):
                        b = b.value
                    if isinstance(b, ast.Name) and b.id in al and b.id not in rebound:
                        bad.append((x, "`%s` is written" % pyfe.src(t)))
            if isinstance(x, ast.Call) and isinstance(x.func, ast.Attribute) and x.func.attr in MUT:
                b = x.func.value
                while isinstance(b, (ast.Attribute, ast.Subscript)):
                    b = b.value
                if isinstance(b, ast.Name) and b.id in al and b.id not in rebound:
                    bad.append((x, "`%s` is modified in place" % pyfe.src(x.func.value)))
        n += 1
        if bad:
            x, why = bad[0]
            ctx.violation(R, x, q, pyfe.src(x)[:80], "%s, and %s is (part of) the caller's script (aliases: %s): a later run of the "
                          "same script differs from the first" % (why, why.split("`")[1].split(".")[0], sorted(al)))
        else:
            ctx.ok(R, f, q, "no store through %s" % sorted(al), "the caller's script is only read")
    ctx.floor(R, 4)


def rule_driver(ctx, py):
    """C08.DRIVER -- `engine.run(ms)` returns after a wall-clock slice: where a slice ends depends on the machine and its load.
    Nothing that changes what is recorded may therefore hang on the slice boundaries: inside the loop that drives run(), the
    engine is only asked for its progress / completion.  An explicit sample() (or iterate, or a new set-up) there puts the
    wall clock into the trajectory."""
    R = "C08.DRIVER"
    f = py.fn("simulate.simulate_script")
    n = 0
    for lp in [x for x in ast.walk(f) if isinstance(x, (ast.While, ast.For))]:
        calls = [c for c in pyfe.calls_in(lp) if isinstance(c.func, ast.Attribute) and isinstance(c.func.value, ast.Name) and
                 c.func.value.id == "engine"]
        if not any(c.func.attr == "run" for c in calls):
            continue
        n += 1
        bad = [c for c in calls if c.func.attr not in ("run", "get_progress", "is_complete", "get_t", "get_nsamples")]
        ctx.check(not bad, R, bad[0] if bad else lp, f._qual, "engine calls inside the run() loop: %s" % sorted({c.func.attr for c in calls}),
                  "progress / completion queries only", "`engine.%s()` is called once per wall-clock slice of run(): when it happens, "
                  "and so what the trajectory holds, depends on how fast the machine ran" % (bad[0].func.attr if bad else ""))
    ctx.need(n >= 1, R, "simulate_script: the loop that drives engine.run() is not found")
    ctx.floor(R, 1)


def rule_euler(ctx, tu, eff):
    R = "C08.EULER"
    for cname in ("Euler3D", "EulerGraph"):
        c = tu.classes[cname]
        it = c.methods["Iterate"]
        seen, todo = set(), [it]
        while todo:
            f = todo.pop()
            if f.qual in seen or f.body is None:
                continue
            seen.add(f.qual)
            for x in walk(f.body):
                for callee in tu.resolve_calls(f, x, concrete=cname):
                    todo.append(callee)
        for q in sorted(seen):
            r, w = eff.direct[q]
            bad = {x for x in (r | w) if x in ("f:rng", "f:uiud")} | ({"Poisson"} if q.endswith("::Poisson") else set())
            ctx.check(not bad, R, tu.fn(q).node, q, "%s is free of random draws" % q.split("::")[-1], "",
                      "the deterministic engine reaches %s: its result depends on the seed" % sorted(bad))
    ctx.floor(R, 16)


def run(ctx):
    tu, py = ctx.cx, ctx.py
    eff = cxa.Effects(tu)
    rule_src(ctx, tu)
    rule_rng(ctx, tu, eff)
    rule_globals(ctx, tu, ctx.py)
    rule_driver(ctx, ctx.py)
    # shared clause: the mode x engine decision table (C14.DISPATCH) -- the deterministic engine's default processing is the
    # unseeded pass-through, so its trajectory cannot depend on the seed
    from ..core import borrow
    from . import c14
    borrow(ctx, "C08", c14.rule_dispatch, tu)
    # shared clause: however the loop is driven, iterations requested past completion change nothing (C10.STICKY)
    borrow(ctx, "C08", c10.rule_sticky, tu, eff)
    rule_init_all(ctx, tu, eff)
    rule_slice(ctx, tu)
    rule_py_seed(ctx, py)
    rule_py_pure(ctx, py)
    rule_euler(ctx, tu, eff)
    from .. import lints
    # shared clause: whatever an earlier run left in the engine object is re-initialised by setup (C10.RESET)
    borrow(ctx, "C08", c10.rule_reset, ctx.py)
    lints.run(ctx, "C08", ctx.py, ["rdscript", "simulate", "librdengine", "rdsystem", "engine_collection"], truth_floor=10)
    ctx.assume("bit-identity across compilers / libm versions is not decided (same binary assumed); the sharing of the "
               "global simulation between engine objects is C10.ISOLATION")
