"""C17 -- trajectory accessors: every reshape / subscript / flat formula addresses [sample][species][cell];
species and cells are resolved through the network / space; the three sample-index lookups tile the time axis
with the documented boundary and tie rules; the query time is converted first.  Does not decide returned values."""
import ast
import re

from .. import pyfe, pya, pykind, ir
from ..core import AnalysisError
from ..poly import Poly
from .c15 import py_poly

T = "rdoutput.RDTrajectory."
KIND_OF_AXIS = ["sample", "species", "cell"]


def idx_kind(e, f, at):
    if isinstance(e, ast.Slice):
        return ":"
    k, _ = pykind.kind(e, f, at)
    if k is None and isinstance(e, ast.Name):
        d = pykind.single_def(f, e.id)
        if d is not None and isinstance(d, ast.Name) and d.id == "sample" and "sample" in pyfe.params(f):
            return "sample"
        if e.id == "sample" and "sample" in pyfe.params(f):
            return "sample"
    return k


def rule_axes(ctx, py):
    R = "C17.AXES"
    n = 0
    for name in ("get_trajectory", "get_state", "get_trajectory_point"):
        f = py.fn(T + name)
        for node in ast.walk(f):
            if isinstance(node, ast.Subscript) and isinstance(node.value, ast.Call) and \
                    isinstance(node.value.func, ast.Attribute) and node.value.func.attr == "reshape":
                shape = node.value.args[0]
                ctx.need(isinstance(shape, ast.Tuple), R, "%s: reshape argument is not a tuple" % name)
                dims = [pyfe.src(e).replace(" ", "") for e in shape.elts]
                sub = node.slice.elts if isinstance(node.slice, ast.Tuple) else [node.slice]
                kinds = [idx_kind(e, f, node) for e in sub]
                n += 1
                if dims == ["self.nsamples()", "self.nspecies()", "self.ncells()"]:
                    ok = len(kinds) == 3 and all(k in (":", KIND_OF_AXIS[i]) for i, k in enumerate(kinds))
                    ctx.check(ok, R, node, f._qual, pyfe.src(node)[:110].replace("self.data.value.", ""),
                              "(sample, species, cell) view indexed by %s" % kinds,
                              "the (sample, species, cell) view is indexed by %s" % kinds)
                elif dims in (["self.nsamples()", "self.nspecies()*self.ncells()"],
                              ["self.nsamples()", "self.ncells()*self.nspecies()"]):
                    ok = len(kinds) == 2 and kinds[0] in (":", "sample") and kinds[1] == ":"
                    ctx.check(ok, R, node, f._qual, pyfe.src(node)[:110].replace("self.data.value.", ""),
                              "(sample, state) view indexed by %s" % kinds, "wrong index kinds %s" % kinds)
                else:
                    ctx.violation(R, node, f._qual, "reshape(%s)" % ", ".join(dims), "the data is viewed with shape "
                                  "(%s), not (samples, species, cells): species and cell strides are mixed up"
                                  % ", ".join(dims))
    f = py.fn(T + "get_trajectory_point")
    rets = [r for r in ast.walk(f) if isinstance(r, ast.Return)]
    ctx.need(len(rets) == 1 and isinstance(rets[0].value, ast.Call), R, "get_trajectory_point: return not recognised")
    from .. import pysym
    e = rets[0].value.args[0]
    got = pysym.frat(e, f)
    wexpr = ast.parse("sample * self.nspecies() * self.ncells() + "
                      "self.system.network.get_species_index(species) * self.ncells() + "
                      "self.system.space.get_cell_index(position)", mode="eval").body
    want = pysym.rat(wexpr)
    ctx.check(got.equals(want), R, rets[0], f._qual, pyfe.src(e), "sample*nspecies*ncells + species*ncells + cell, with "
              "species and cell resolved from the arguments",
              "flat index %r is not sample*nspecies*ncells + species*ncells + cell" % (got,))
    ctx.check(pyfe.src(rets[0].value.func) == "self.data.get_at", R, rets[0], f._qual, "read through data.get_at",
              "keeps the data's units", "")
    # every accessor re-wraps with the data's units
    for name in ("get_trajectory", "get_state"):
        f = py.fn(T + name)
        for r in [r for r in ast.walk(f) if isinstance(r, ast.Return)]:
            u = pyfe.arg(r.value, 1, "units") if isinstance(r.value, ast.Call) else None
            ctx.check(u is not None and pyfe.src(u) == "self.data.units", R, r, f._qual, "returned with self.data.units",
                      "", "returned with other units")
    # merged trajectory: sum over the cell axis of the species' slice
    f = py.fn(T + "get_trajectory")
    lc = [n for n in ast.walk(f) if isinstance(n, ast.ListComp)]
    ctx.check(len(lc) == 1 and pyfe.src(lc[0].elt) == "sum(%s)" % pyfe.src(lc[0].generators[0].target), R,
              lc[0] if lc else f, f._qual, "merge = [sum(state) for state in <(:, species, :) slice>]", "", "")
    ctx.floor(R, 10)


def rule_resolve(ctx, py):
    R = "C17.RESOLVE"
    for name, has_cell in (("get_trajectory", True), ("get_state", False), ("get_trajectory_point", True)):
        f = py.fn(T + name)
        sp = [n for n in ast.walk(f) if isinstance(n, ast.Assign) and pyfe.src(n.targets[0]) == "species_index"]
        ok = sp and all(pyfe.src(n.value) == "self.system.network.get_species_index(species)" for n in sp)
        ctx.check(ok, R, f, f._qual, "%s: species resolved by the network" % name, "", "species not resolved through "
                  "get_species_index(species)")
        guard = [n for n in ast.walk(f) if isinstance(n, ast.If) and any(isinstance(b, ast.Raise) for b in n.body) and
                 any(a_ in (("species_index is None", True), ("species_index == None", True)) for a_ in pya.atoms(n.test, True))]
        ctx.check(len(guard) == len(sp), R, f, f._qual, "%s: unknown species raises" % name, "", "a None species index "
                  "is used")
        if has_cell:
            ce = [n for n in ast.walk(f) if isinstance(n, ast.Assign) and pyfe.src(n.targets[0]) == "cell_index"]
            ok = len(ce) == 1 and pyfe.src(ce[0].value) == "self.system.space.get_cell_index(position)"
            ctx.check(ok, R, f, f._qual, "%s: cell resolved (and validated) by the space" % name, "", "cell not resolved "
                      "through get_cell_index(position)")
    ctx.floor(R, 8)


def returns_with_facts(f):
    """(node, returned expression text with locals inlined, facts); `return a if c else b` counts as two returns"""
    from .. import pysym
    out = []

    def emit(node, value, cfg):
        if isinstance(value, ast.IfExp):
            c = pysym.inline(value.test, f)
            emit(node, value.body, cfg | frozenset(pya.atoms(c, True)))
            emit(node, value.orelse, cfg | frozenset(pya.atoms(c, False)))
            return
        # a helper's local renamed at inlining (`i__h3`) is that local
        un = lambda t_: re.sub(r"__h\d+", "", t_) if isinstance(t_, str) else t_
        out.append((node, un(pysym.isrc(value, f)) if value is not None else "None", frozenset((un(t_), p_) for t_, p_ in cfg)))

    class C(pya.PyFacts):
        inline_fn = f

        def ret(self, s, cfg):
            emit(s.src, s.src.value, cfg)
    ir.Engine(C(), "must").run(ir.py_to_ir(f.body))
    return out


FIRST, LAST = "self.t.get_at(0)", "self.t.get_at(self.nsamples() - 1)"
LO, HI = "self.t.get_at(i)", "self.t.get_at(i + 1)"
EMPTY = ("len(self.t) == 0", True)
# expected (returned expression -> facts that must hold, facts that must not), per lookup
TILES = {
    "_get_sample_index_closest": [
        ("None", [EMPTY]),
        ("0", [("t <= " + FIRST, True)]),
        ("self.nsamples() - 1", [(LAST + " <= t", True)]),
        ("i", [(LO + " <= t", True), ("t < " + HI, True), ("t - %s <= %s - t" % (LO, HI), True)]),
        ("i + 1", [(LO + " <= t", True), ("t < " + HI, True), ("t - %s <= %s - t" % (LO, HI), False)]),
    ],
    "_get_sample_index_infeq": [
        ("None", [EMPTY]),
        ("None", [("t < " + FIRST, True)]),
        ("self.nsamples() - 1", [(LAST + " <= t", True)]),
        ("i", [(LO + " <= t", True), ("t < " + HI, True)]),
    ],
    "_get_sample_index_supeq": [
        ("None", [EMPTY]),
        ("0", [("t <= " + FIRST, True)]),
        ("self.nsamples() - 1", [("t == " + LAST, True)]),
        ("None", [(LAST + " < t", True)]),
        ("i + 1", [(LO + " < t", True), ("t <= " + HI, True)]),
    ],
}


def rule_tiling(ctx, py):
    R = "C17.TILING"
    for name, want in TILES.items():
        f = py.fn(T + name)
        got = returns_with_facts(f)
        got = [g for g in got if g[1] != "None" or any(isinstance(t, str) and (" t" in t or "t " in t or "len(" in t)
                                                         for t, p in g[2])]
        # an explicit `return None` that ends the function says what falling off the end says
        if f.body and isinstance(f.body[-1], ast.Return) and (f.body[-1].value is None or (
                isinstance(f.body[-1].value, ast.Constant) and f.body[-1].value.value is None)):
            got = [g for g in got if g[0] is not f.body[-1]]
        ctx.need(got, R, "%s: no return found" % name)
        # tiles are matched by what they return and under which tests, not by position: a missing tile and a return that is no
        # documented tile are both reported
        used = set()
        for wexpr, wfacts in want:
            hit = [k for k, (node, expr, facts) in enumerate(got) if k not in used and expr == wexpr and
                   all(x in facts for x in wfacts)]
            if hit:
                used.add(hit[0])
            near = [g for k, g in enumerate(got) if k not in used and g[1] == wexpr]
            node = got[hit[0]][0] if hit else (near[0][0] if near else f)
            mine = sorted("%s%s" % ("" if p else "not ", t) for t, p in (near[0][2] if near and not hit else ()) if isinstance(t, str)
                          and ("t " in t or " t" in t or "dt" in t or "len(" in t) and not t.startswith("iter:"))
            ctx.check(bool(hit), R, node, f._qual, "return %s when %s" % (wexpr, " and ".join(
                      "%s%s" % ("" if p else "not ", t) for t, p in wfacts)),
                      "boundary / interval test as documented",
                      "no return of %s under these tests%s: the lookups no longer tile the time axis with the documented "
                      "boundaries and ties" % (wexpr, (" (it is returned under [%s])" % "; ".join(mine)) if mine else ""))
        for k, (node, expr, facts) in enumerate(got):
            if k in used:
                continue
            mine = sorted("%s%s" % ("" if p else "not ", t) for t, p in facts if isinstance(t, str) and
                          ("t " in t or " t" in t or "dt" in t or "len(" in t) and not t.startswith("iter:"))
            ctx.violation(R, node, f._qual, "return %s under [%s]" % (expr, "; ".join(mine)[:90]),
                          "this return is none of the documented tiles of %s: part of the time axis is answered differently" % name)
        from .. import pysym
        loops = [n for n in ast.walk(f) if isinstance(n, ast.For)]
        ctx.check(len(loops) == 1 and pysym.isrc(loops[0].iter, f) == "range(self.nsamples() - 1)", R,
                  loops[0] if loops else f, f._qual, "interval loop over range(nsamples - 1)", "all intervals", "wrong range")
    ctx.floor(R, 17)


def rule_units(ctx, py):
    R = "C17.UNITS"
    from .. import pynorm
    f = pynorm.unrolled(py.fn(T + "get_sample_index"))     # a scan over a literal (name, finder) table reads like the if-chain
    body = [st for st in f.body if not (isinstance(st, ast.Expr) and isinstance(st.value, ast.Constant))]
    first = pyfe.first_touching(f, {"t"}) or body[0]          # the first statement that concerns the query time
    ok = isinstance(first, ast.Assign) and pyfe.src(first.targets[0]) == "t" and \
        pyfe.src(first.value).replace(" ", "") in ("UnitValue(t,self.t.units,convert=True)", "UnitValue(t,self.t.units)")
    ctx.check(ok, R, first, f._qual, pyfe.src(first)[:80], "the query time is converted to the time array's units "
              "before any comparison", "the query time is compared without conversion to the units of the sample times")
    disp = {}
    for n in ast.walk(f):
        if isinstance(n, ast.If) and isinstance(n.test, ast.Compare) and pyfe.src(n.test.left) == "policy" and \
                isinstance(n.body[0], ast.Return) and len(n.test.ops) == 1 and isinstance(n.test.ops[0], ast.Eq) and \
                isinstance(n.test.comparators[0], ast.Constant):
            disp[ast.literal_eval(n.test.comparators[0])] = pyfe.src(n.body[0].value)
    # the same dispatch written as a lookup table: tbl = {"closest": self.m, ..}; finder = tbl.get(policy) / tbl[policy];
    # return finder(t)
    from .. import pysym
    defs = pysym.local_defs(f)
    for r in [x for x in ast.walk(f) if isinstance(x, ast.Return) and isinstance(x.value, ast.Call)]:
        fn_ = r.value.func
        if isinstance(fn_, ast.Name) and fn_.id in defs:
            fn_ = defs[fn_.id]
        sel = None
        if isinstance(fn_, ast.Call) and isinstance(fn_.func, ast.Attribute) and fn_.func.attr == "get" and fn_.args and \
                pyfe.src(fn_.args[0]) == "policy":
            sel = fn_.func.value
        elif isinstance(fn_, ast.Subscript) and pyfe.src(fn_.slice) == "policy":
            sel = fn_.value
        if isinstance(sel, ast.Name) and sel.id in defs:
            sel = defs[sel.id]
        if isinstance(sel, ast.Dict) and all(isinstance(k_, ast.Constant) for k_ in sel.keys):
            args = ", ".join(pyfe.src(a) for a in r.value.args)
            for k_, v_ in zip(sel.keys, sel.values):
                disp.setdefault(k_.value, "%s(%s)" % (pyfe.src(v_), args))
    # the dispatcher itself answers nothing: an index it returns without going through a finder has not been compared with the
    # sample times (a single-sample trajectory answered with 0 for every query, before or after the sample)
    f0 = py.fn(T + "get_sample_index")

    def arms(e):
        if isinstance(e, ast.IfExp):
            return arms(e.body) + arms(e.orelse)
        return [e]
    for r in [x for x in ast.walk(f0) if isinstance(x, ast.Return) and x.value is not None]:
        for a_ in arms(r.value):
            if isinstance(a_, ast.Constant) and a_.value is None:
                continue
            via = isinstance(a_, ast.Call) and ("_get_sample_index_" in pyfe.src(a_.func) or isinstance(a_.func, ast.Name) or
                                                isinstance(a_.func, ast.Subscript) or (isinstance(a_.func, ast.Call)))
            ctx.check(via, R, r, f0._qual, "return %s" % pyfe.src(a_)[:50], "the answer of one of the three finders",
                      "get_sample_index returns `%s` itself, without comparing the query time with any sample time: the documented "
                      "None cases (no sample at or before / at or after the time) are answered with an index" % pyfe.src(a_)[:40])
    want = {"closest": "self._get_sample_index_closest(t)", "infeq": "self._get_sample_index_infeq(t)",
            "supeq": "self._get_sample_index_supeq(t)"}
    for k, v in want.items():
        ctx.check(disp.get(k) == v, R, f, f._qual, "policy %s -> %s" % (k, v), "", "dispatched to %s" % disp.get(k))
    ctx.floor(R, 4)


def run(ctx):
    py = ctx.py
    rule_axes(ctx, py)
    rule_resolve(ctx, py)
    rule_units(ctx, py)
    rule_tiling(ctx, py)
    # shared clauses: the state index (C13.INDEX) and the cell index of a position (C15.RADIX), which the accessors go through
    from ..core import borrow
    from . import c13, c15
    borrow(ctx, "C17", c13.rule_index, ctx.py)
    borrow(ctx, "C17", c15.rule_radix_py, ctx.py)
    # shared clause: a trajectory read back from a file is the trajectory that was written (C12.TRAJ), data layout included
    from . import c12
    c12.rule_traj(ctx, ctx.py, "C17.TRAJ")
    from .. import lints
    lints.run(ctx, "C17", ctx.py, ["rdoutput", "rdgridspace", "rdgraphspace", "rdsystem", "rdnetwork"], truth_floor=8)
    ctx.assume("returned values are not decided; the data layout written by the engine is C09.LAYOUT-OUT")
