"""C10 -- lifecycle: finalize / liveness / reset / sticky completion / read-only fetch / loop forms / isolation.
Decides the structural clauses of DESIGN.md section 6 C10; does not decide "completes after ceil(t_max/dt) steps"."""
import ast

from .. import cxfe, cxa, ir, pyfe
from ..cxfe import kids, strip, text, walk, name_of, call_parts, uname
from ..core import AnalysisError

# simulation state of an algorithm object: what a completed simulation must no longer change
SIM_STATE = {"mesh_x", "t", "sampled_mesh_x", "sampled_t", "sample_pos", "last_tsi_ratio", "rng", "dt", "complete"}
# named exception (one symbol, with its reason): reset before the `complete` test so that an explicit sample() can
# still record once after completion
STICKY_EXEMPT = {"sampling_done_this_iteration"}
GETTERS = ["engineexport_get_progress", "engineexport_get_trajectory", "engineexport_get_state",
           "engineexport_get_time", "engineexport_get_tsample", "engineexport_get_nsamples"]


def globals_info(tu):
    ptrs = [g["name"] for g in tu.globals if "*" in g.get("type", {}).get("qualType", "")]
    bools = [g["name"] for g in tu.globals if g.get("type", {}).get("qualType", "") == "bool"]
    return ptrs, bools


def exports(tu):
    return [f for f in tu.funcs.values() if f.extern_c and f.name.startswith("engineexport_")]


def find_flag(ctx, tu):
    """the liveness flag: the bool global that engineexport_finalize tests before deleting"""
    fin = tu.fn("engineexport_finalize")
    ptrs, bools = globals_info(tu)
    for n in walk(fin.body):
        if n.get("kind") == "IfStmt":
            c = cxfe.raw_kids(n)[0]
            for x in walk(c):
                if name_of(x) in bools:
                    return name_of(x)
    ctx.error("C10.FINALIZE", "engineexport_finalize tests no bool global before deleting")


def is_flag_store(n, flag, value):
    for s in cxa.stores_of_node(n):
        if s.base and s.base[0] == "var" and s.base[1] == flag and s.op == "=":
            r = strip(s.rhs, casts=True)
            if r.get("kind") == "CXXBoolLiteralExpr" and bool(r.get("value")) == value:
                return True
    return False


def rule_finalize(ctx, tu, flag):
    R = "C10.FINALIZE"
    ptrs, _ = globals_info(tu)

    class Pair(ir.Client):
        def __init__(self):
            self.bad = {}

        def atom(self, node, cfg):
            for n in walk(node):
                if n.get("kind") == "CXXDeleteExpr":
                    cfg = cfg | {("pending", id(n))}
                    nodes[id(n)] = n
                if is_flag_store(n, flag, True):
                    cfg = frozenset(f for f in cfg if f[0] != "pending")
                if n.get("kind") == "CXXNewExpr":
                    cfg = cfg | {("newed", id(n))}
                    nodes[id(n)] = n
                if is_flag_store(n, flag, False):
                    cfg = frozenset(f for f in cfg if f[0] != "newed")
            return cfg

        def _end(self, cfg):
            for f in cfg:
                self.bad[f] = True

        def ret(self, s, cfg):
            self._end(cfg)

        def exit(self, cfg):
            self._end(cfg)

    n_del = n_new = 0
    for f in exports(tu):
        nodes = {}
        cl = Pair()
        ir.Engine(cl, "paths").run(ir.cx_to_ir(f.body))
        for nid, n in nodes.items():
            if n["kind"] == "CXXDeleteExpr":
                n_del += 1
                ctx.check(("pending", nid) not in cl.bad, R, n, f.qual, text(n),
                          "every path from the delete to the exit sets %s = true" % flag,
                          "a path from this delete reaches the function exit without `%s = true`: the next "
                          "finalize() deletes the same object again" % flag)
            else:
                # only allocations stored in a global algorithm pointer are lifecycle-relevant
                n_new += 1
                ctx.check(("newed", nid) not in cl.bad, R, n, f.qual, text(n),
                          "the allocation is followed by %s = false on every path" % flag,
                          "a path from this allocation reaches the exit without `%s = false`: finalize() "
                          "would leak the object / liveness tests would refuse a live object" % flag)
    # the object deleted is the live one: each algorithm pointer is allocated by the initialiser that stores its type code, so a
    # delete through it is reached only under that type code (or the pointer is reset to null right after, which makes a second
    # delete harmless).  Deleting both pointers unconditionally frees the stale object of an earlier simulation a second time.
    tcode = {}
    for f in exports(tu):
        codes = [cxa.const_int(s_.rhs) for s_ in cxa.all_stores(f.body) if s_.base and s_.base[:2] == ("var", "global_space_type") and s_.op == "="]
        allocs = [s_.base[1] for s_ in cxa.all_stores(f.body) if s_.base and s_.base[0] == "var" and s_.base[1] in ptrs and
                  s_.rhs is not None and strip(s_.rhs, casts=True).get("kind") == "CXXNewExpr"]
        if len(set(codes)) == 1 and allocs:
            for p_ in set(allocs):
                tcode[p_] = codes[0]
    for f in exports(tu):
        if not any(n.get("kind") == "CXXDeleteExpr" for n in walk(f.body)):
            continue
        recs = []

        def on_atom(node, facts, recs=recs):
            for n in walk(node):
                if n.get("kind") == "CXXDeleteExpr":
                    recs.append((n, set(facts)))
        cxa.canon_facts(f.body, on_atom=on_atom)
        nulls = {s_.base[1] for s_ in cxa.all_stores(f.body) if s_.base and s_.base[0] == "var" and s_.base[1] in ptrs and
                 s_.rhs is not None and (strip(s_.rhs, casts=True).get("kind") in ("CXXNullPtrLiteralExpr", "GNUNullExpr") or
                                         cxa.const_int(s_.rhs) == 0)}
        for n, facts in recs:
            p_ = name_of(strip(kids(n)[0], casts=True)) if kids(n) else None
            if p_ not in tcode:
                continue
            k_ = tcode[p_]
            others = [c for c in set(tcode.values()) if c != k_]
            sel = ("global_space_type == %d" % k_, True) in facts or (others and all(
                ("global_space_type == %d" % c, False) in facts for c in others))
            ctx.check(sel or p_ in nulls, R, n, f.qual, text(n) + " under the type code of " + p_,
                      "the pointer selected by global_space_type (or reset to null after the delete)",
                      "`%s` is deleted without the type code that says it is the live object, and is not reset to null: after a "
                      "simulation on the other space type this frees the stale object of the earlier one again" % p_)
    # delete / new only in exports
    for f in tu.all_fns():
        if f.body is None or f in exports(tu):
            continue
        for n in walk(f.body):
            if n.get("kind") in ("CXXDeleteExpr", "CXXNewExpr"):
                ctx.violation(R, n, f.qual, text(n), "allocation / release of an object outside the export layer "
                              "is not covered by the liveness flag")
    ctx.floor(R, 8)
    ctx.analysed["C10.FINALIZE"] = {"deletes": n_del, "news": n_new, "flag": flag}


def rule_live(ctx, tu, flag):
    """every dereference of a global algorithm pointer is dominated by the liveness test or by its allocation"""
    R = "C10.LIVE"
    ptrs, _ = globals_info(tu)
    n_inst = 0
    for f in exports(tu):
        derefs = []

        def on_any(node, facts, f=f):
            for n in walk(node):
                if n.get("kind") == "MemberExpr" and n.get("isArrow"):
                    b = strip(kids(n)[0], casts=True)
                    if b.get("kind") == "DeclRefExpr" and b["referencedDecl"].get("name") in ptrs:
                        p = b["referencedDecl"]["name"]
                        live = (flag, False) in facts or ("alloc:" + p, True) in facts
                        derefs.append((n, p, live))

        def gen(node):
            out = []
            for n in walk(node):
                for s in cxa.stores_of_node(n):
                    if s.base and s.base[0] == "var" and s.base[1] in ptrs and s.op == "=" and \
                            strip(s.rhs, casts=True).get("kind") == "CXXNewExpr":
                        out.append(("alloc:" + s.base[1], True))
            return out

        cxa.must_facts(f.body, on_atom=on_any, on_cond=on_any, gen=gen)
        per = {}
        for n, p, live in derefs:
            per.setdefault((p, live), []).append(n)
        for (p, live), ns in per.items():
            n_inst += 1
            what = "%s->" % p
            ctx.check(live, R, ns[0], f.qual, what,
                      "%d dereference(s), each dominated by the `%s` test or by the allocation of %s" % (len(ns), flag, p),
                      "dereferenced without a dominating test of `%s`: after finalize() this export uses a "
                      "deleted object" % flag)
    ctx.floor(R, 20)


def rule_sticky(ctx, tu, eff):
    R = "C10.STICKY"
    n = 0
    # (a) who writes `complete`, and with what
    for f in tu.all_fns():
        if f.body is None or f.cls is None:
            continue
        for s in cxa.all_stores(f.body):
            if s.base == ("field", "complete"):
                r = strip(s.rhs, casts=True) if s.rhs else None
                val = r.get("value") if r and r.get("kind") == "CXXBoolLiteralExpr" else None
                okk = (val is True and f.name == "FlagAsComplete") or (val is False and f.name == "Init")
                n += 1
                ctx.check(okk, R, s.node, f.qual, text(s.node),
                          "completion is set only by FlagAsComplete and cleared only by Init",
                          "`complete` is written outside FlagAsComplete(true) / Init(false): completion is no "
                          "longer sticky")
    # (b) every Iterate: nothing of the simulation state is written unless `complete` is known false
    for c in tu.classes.values():
        m = c.methods.get("Iterate")
        if m is None or m.body is None:
            continue

        def on_atom(node, facts, m=m, c=c):
            written = set()
            for x in walk(node):
                for s in cxa.stores_of_node(x):
                    if s.base and s.base[0] == "field":
                        written.add(s.base[1])
                for callee in tu.resolve_calls(m, x, concrete=c.name):
                    written |= {w[2:] for w in eff.writes(callee.qual) if w.startswith("f:")}
            hit = (written & SIM_STATE) - STICKY_EXEMPT
            if hit:
                ok = ("complete", False) in facts
                ctx.check(ok, R, node, m.qual, text(node)[:100],
                          "writes {%s} only where `complete` is known false" % ",".join(sorted(hit)),
                          "writes {%s} on a path where the simulation may already be complete"
                          % ",".join(sorted(hit)))
            elif written - STICKY_EXEMPT - SIM_STATE and ("complete", False) not in facts:
                # other fields written before the completion test (scratch tables): information only
                ctx.info(R, node, m.qual, text(node)[:100], "writes scratch fields {%s} before the completion test"
                         % ",".join(sorted(written - STICKY_EXEMPT)))

        cxa.must_facts(m.body, on_atom=on_atom)
        n += 1
    ctx.floor(R, 6 * 3 + 4)


def rule_fetch(ctx, tu, eff):
    R = "C10.FETCH"
    for g in GETTERS:
        f = tu.fn(g)
        w = {x for x in eff.writes(f.qual)}
        bad = {x for x in w if x.startswith("f:") or x.startswith("g:")}
        ctx.check(not bad, R, f.node, f.qual, "write effects of %s and its callees" % g,
                  "no field or global is written (transitively)",
                  "a getter export writes %s: fetching the output changes the simulation" % sorted(bad))
        # references to internal vectors handed out by Get*() must only be read
        refs = {}
        for n in walk(f.body):
            if n.get("kind") == "VarDecl" and "&" in n.get("type", {}).get("qualType", ""):
                refs[n.get("name")] = n
        for s in cxa.all_stores(f.body):
            if s.base and s.base[0] == "var" and s.base[1] in refs:
                ctx.violation(R, s.node, f.qual, text(s.node), "stores through a reference to the engine's "
                              "internal state inside a getter")
        for name, n in refs.items():
            ctx.ok(R, n, f.qual, "reference %s is only read" % name)
    ctx.floor(R, 6)


def bound_operands(rhs):
    """(names whose value the bound reads, names only read through .size())"""
    plain, sized = set(), set()
    size_objs = set()
    for x in walk(rhs):
        cp = call_parts(x) if x.get("kind") == "CXXMemberCallExpr" else None
        if cp and cp[0] == "size" and cp[1] is not None:
            b = cxa.lvalue_base(cp[1])
            if b:
                sized.add(b[1])
                for y in walk(cp[1]):
                    size_objs.add(id(y))
    for x in walk(rhs):
        if id(x) in size_objs:
            continue
        if x.get("kind") in ("MemberExpr", "DeclRefExpr"):
            nm = uname(x)
            if nm and nm not in ("size", "operator[]") and x.get("kind") == "DeclRefExpr" or \
                    (x.get("kind") == "MemberExpr" and cxfe.is_this_member(x)):
                plain.add(nm)
    return plain, sized


def body_writes(tu, fn, body, eff, concrete=None):
    """(names stored in any way, names whose size may change)"""
    written, resized = set(), set()
    for x in walk(body):
        for st in cxa.stores_of_node(x):
            if st.base:
                written.add(st.base[1])
                whole = cxfe.subscript(st.target) is None
                if st.how == "method" or (whole and st.how == "assign") or st.how == "refarg":
                    resized.add(st.base[1])
        for callee in tu.resolve_calls(fn, x, concrete=concrete):
            w = {w[2:] for w in eff.writes(callee.qual)}
            written |= w
            resized |= w
    return written, resized


def classify_for(tu, fn, n, eff, concrete=None):
    """'counted' or a reason string"""
    init, cond, inc, body = cxa.for_parts(n)
    if cond is None:
        return None, "no condition"
    c = strip(cond, casts=True)
    if c.get("kind") != "BinaryOperator" or c.get("opcode") not in ("<", "<=", ">", ">=", "!="):
        return None, "condition is not a bound test"
    lhs, rhs = kids(c)
    v = uname(strip(lhs, casts=True))
    if v is None:
        return None, "bound test is not on a variable"
    if inc is None:
        return None, "no step"
    s = cxa.stores_of_node(strip(inc))
    if len(s) != 1 or s[0].base is None or s[0].base[1] != v:
        return None, "step does not update the tested variable"
    up = None
    if s[0].op in ("++",):
        up = 1
    elif s[0].op == "--":
        up = -1
    elif s[0].op in ("+=", "-="):
        k = cxa.const_int(s[0].rhs)
        if k is None or k == 0:
            return None, "non-constant step"
        up = k if s[0].op == "+=" else -k
    else:
        return None, "unrecognised step"
    if (up > 0) != (c["opcode"] in ("<", "<=", "!=")):
        return None, "step moves away from the bound"
    # neither the variable nor any operand of the bound is stored in the body; for a bound `X.size()` only
    # size-changing stores to X count (an element store X[i] = .. leaves size() unchanged)
    bound_syms, size_syms = bound_operands(rhs)
    written, resized = body_writes(tu, fn, body, eff, concrete)
    if v in written:
        return None, "induction variable %s is stored in the body" % v
    hit = (bound_syms & written) | (size_syms & resized)
    if hit:
        return None, "bound operand(s) %s stored in the body" % sorted(hit)
    return "counted", "%s moves by %+d towards %s; neither is stored in the body" % (v, up, text(rhs))


def classify_while(tu, fn, n, eff):
    cond, body = kids(n)[0], kids(n)[1]
    conj = []

    def flat(c):
        c = strip(c)
        if c.get("kind") == "BinaryOperator" and c.get("opcode") == "&&":
            flat(kids(c)[0])
            flat(kids(c)[1])
        else:
            conj.append(c)
    flat(cond)
    for c in conj:
        if c.get("kind") == "BinaryOperator" and c.get("opcode") in ("<", "<="):
            v = uname(strip(kids(c)[0], casts=True))
            if v is None:
                continue
            bound = {uname(x) for x in walk(kids(c)[1]) if x.get("kind") in ("MemberExpr", "DeclRefExpr")}
            # body: top-level statement `v++` on every path, no other store to v, bound not stored
            top = kids(body) if body.get("kind") == "CompoundStmt" else [body]
            incs = 0
            for st in top:
                ss = cxa.stores_of_node(strip(st))
                if len(ss) == 1 and ss[0].base and ss[0].base[1] == v and ss[0].op == "++":
                    incs += 1
            others = 0
            written = set()
            for x in walk(body):
                for st in cxa.stores_of_node(x):
                    if st.base:
                        written.add(st.base[1])
                        if st.base[1] == v:
                            others += 1
                for callee in tu.resolve_calls(fn, x):
                    written |= {w[2:] for w in eff.writes(callee.qual)}
            exits = [x for x in walk(body) if x.get("kind") in ("ContinueStmt",)]
            if incs == 1 and others == 1 and not (bound & written) and not exits:
                return "monotone-counter", "%s++ on every iteration, bound %s not stored" % (v, text(kids(c)[1]))
    return None, "no monotone counter conjunct"


def classify_forever(tu, fn, n):
    """for(;;): clock-bounded iff a break is taken when a local computed from now() reaches a parameter"""
    body = cxa.for_parts(n)[3] if n.get("kind") == "ForStmt" else kids(n)[1]
    params = set(fn.param_names())
    clock_locals = set()
    for x in walk(body):
        if x.get("kind") == "VarDecl" and any("now" == (call_parts(y) or (None,))[0] for y in walk(x)):
            clock_locals.add(uname(x))
    for x in walk(body):
        if x.get("kind") == "IfStmt":
            p = cxfe.raw_kids(x)
            then = p[1]
            t = then if then.get("kind") != "CompoundStmt" else (kids(then)[0] if len(kids(then)) == 1 else then)
            if t.get("kind") != "BreakStmt":
                continue
            disj = []

            def flat(c):
                c = strip(c)
                if c.get("kind") == "BinaryOperator" and c.get("opcode") == "||":
                    flat(kids(c)[0])
                    flat(kids(c)[1])
                else:
                    disj.append(c)
            flat(p[0])
            for d in disj:
                if d.get("kind") == "BinaryOperator" and d.get("opcode") in (">=", ">"):
                    l, r = uname(strip(kids(d)[0], casts=True)), uname(strip(kids(d)[1], casts=True))
                    if l in clock_locals and r in params:
                        return "clock-bounded", "leaves when %s (from now()) reaches parameter %s" % (l, r)
    return None, "for(;;) without a clock bound"


def rule_loops(ctx, tu, eff):
    R = "C10.LOOPS"
    total = 0
    uncounted = {}
    for f in tu.all_fns():
        if f.body is None:
            continue
        for n in cxa.loops_in(f.body):
            total += 1
            k = n.get("kind")
            if k == "ForStmt":
                init, cond, inc, body = cxa.for_parts(n)
                if cond is None and inc is None:
                    cls, why = classify_forever(tu, f, n)
                else:
                    cls, why = classify_for(tu, f, n, eff)
            elif k == "WhileStmt":
                cls, why = classify_while(tu, f, n, eff)
            elif k == "DoStmt":
                cls, why = None, "do-while without a recognised counter"
            else:
                cls, why = None, "loop form not modelled"
            if cls is None:
                # keyed by its position among the uncounted loops of the function, not by its spelling: rewriting
                # `for(;;){..if(c) break;}` as `do{..}while(!c)` is the same loop
                unc = uncounted.setdefault(f.qual, 0) + 1
                uncounted[f.qual] = unc
                ctx.violation(R, n, f.qual, "uncounted loop #%d" % unc, "uncounted loop `%s` (%s): termination depends on "
                              "run-time values" % (text(n)[:60], why))
            else:
                ctx.ok(R, n, f.qual, text(n), "%s: %s" % (cls, why), nontrivial=(cls != "counted"))
    ctx.floor(R, 100)
    ctx.analysed["C10.LOOPS"] = {"loops": total}
    # Python side: every loop on the setup / fetch path is a `for` over a finite sequence; the driver `while`
    # of simulate_script ends only when the engine reports completion (value level: information)
    py = ctx.py
    for q in ("librdengine", "simulate"):
        m = py.mods[q]
        for n in ast.walk(m.tree):
            if isinstance(n, ast.While):
                fn = pyfe.enclosing_fn(n)
                ctx.info(R, n, fn._qual if fn else q, "while " + pyfe.src(n.test),
                         "ends when the engine reports completion; not decided statically")


def rule_isolation(ctx, tu, eff):
    R = "C10.ISOLATION"
    users = {}
    for f in exports(tu):
        for s in eff.reads(f.qual) | eff.writes(f.qual):
            if s.startswith("g:"):
                users.setdefault(s[2:].lstrip("*"), set()).add(f.name)
    for g in tu.globals:
        name = g["name"]
        qt = g.get("type", {}).get("qualType", "")
        if qt.startswith("const ") and "*" not in qt:
            continue
        u = sorted(users.get(name, ()))
        if u:
            ctx.violation(R, g, "engine.cpp", "%s %s" % (qt, name),
                          "process-wide mutable state shared by every engine object (used by %d exports): "
                          "two engine objects drive one simulation" % len(u))
        else:
            ctx.info(R, g, "engine.cpp", "%s %s" % (qt, name), "namespace-scope variable not used by exports")
    # function-local statics would be hidden globals
    for f in tu.all_fns():
        if f.body is None:
            continue
        for n in walk(f.body):
            if n.get("kind") == "VarDecl" and n.get("storageClass") == "static" and \
                    not n.get("type", {}).get("qualType", "").startswith("const "):
                ctx.violation(R, n, f.qual, text(n), "function-local static: state shared across engine objects")
    ctx.floor(R, 1)


def rule_reset(ctx, py):
    """attributes written by the loop methods and read by query methods are re-initialised by every setup"""
    R = "C10.RESET"
    c = py.cls("librdengine.LibRDEngine")
    meths = {n.name: n for n in c.body if isinstance(n, ast.FunctionDef)}
    ctx.need("setup" in meths and "__init__" in meths, R, "LibRDEngine.setup / __init__ not found")

    def stores(fn):
        out = set()
        for n in ast.walk(fn):
            if isinstance(n, ast.Attribute) and isinstance(n.ctx, ast.Store) and isinstance(n.value, ast.Name) \
                    and n.value.id == "self":
                out.add(n.attr)
        return out

    def loads(fn):
        out = set()
        for n in ast.walk(fn):
            if isinstance(n, ast.Attribute) and isinstance(n.ctx, ast.Load) and isinstance(n.value, ast.Name) \
                    and n.value.id == "self":
                out.add(n.attr)
        return out

    setup_family = {"setup"} | {n for n in meths if n.startswith("_setup")}
    per_run = set()
    for name, fn in meths.items():
        if name in setup_family or name == "__init__":
            continue
        per_run |= stores(fn)
    readers = {}
    for name, fn in meths.items():
        for a in loads(fn) & per_run:
            readers.setdefault(a, []).append(name)
    ctx.need(per_run, R, "no per-run attribute found (the loop methods store nothing)")

    # must-assigned on every path through setup (helper calls self._setup_* are inlined one level)
    def assigned_on_all_paths(fn):
        class A(ir.Client):
            res = None

            def atom(self, node, cfg):
                for n in ast.walk(node):
                    if isinstance(n, ast.Attribute) and isinstance(n.ctx, ast.Store) and \
                            isinstance(n.value, ast.Name) and n.value.id == "self":
                        cfg = cfg | {n.attr}
                    if isinstance(n, ast.Call) and isinstance(n.func, ast.Attribute) and \
                            isinstance(n.func.value, ast.Name) and n.func.value.id == "self" and \
                            n.func.attr in meths and n.func.attr.startswith("_setup"):
                        cfg = cfg | assigned_on_all_paths(meths[n.func.attr])
                return cfg

            def ret(self, s, cfg):
                A.res = cfg if A.res is None else A.res & cfg

            def exit(self, cfg):
                A.res = cfg if A.res is None else A.res & cfg
        ir.Engine(A(), "must").run(ir.py_to_ir(fn.body))
        return A.res or frozenset()

    done = assigned_on_all_paths(meths["setup"])
    for a in sorted(per_run):
        if a not in readers:
            continue
        ctx.check(a in done, R, meths["setup"], "librdengine.LibRDEngine.setup", "self.%s" % a,
                  "re-initialised on every path of setup (read by %s)" % ",".join(readers[a]),
                  "written by the loop methods, read by %s, but not re-initialised by setup: the status of "
                  "a previous simulation survives a new set-up" % ",".join(readers[a]))
    ctx.floor(R, 1)


def rule_status(ctx, tu, py):
    """C10.STATUS -- the loop exports answer 'unfinished?' and the Python side reads the answer by truthiness
    (`bool(engineexport_run(..))`): every value they return is a bool or the literal 0 / 1.  Any other code (-1 for 'nothing set
    up') is true for Python: a released or completed engine reports 'unfinished', `while engine.run(dt)` never ends."""
    R = "C10.STATUS"
    drivers = ("engineexport_run", "engineexport_iterate_n", "engineexport_iterate")
    # how the caller reads the value
    by_truth = set()
    f_ = py.cls("librdengine.LibRDEngine")
    for m in [n for n in f_.body if isinstance(n, ast.FunctionDef)]:
        for c in pyfe.calls_in(m):
            nm = pyfe.call_name(c)
            for d in drivers:
                if nm.endswith(d):
                    by_truth.add(d)
    ctx.need(by_truth, R, "no caller of the loop exports found in LibRDEngine")
    n = 0
    for d in drivers:
        f = tu.fn(d)
        for r in [x for x in walk(f.body) if x.get("kind") == "ReturnStmt" and kids(x)]:
            v = strip(kids(r)[0], casts=True)
            ty = v.get("type", {}).get("qualType", "")
            lit = cxa.const_int(v)
            okk = ty == "bool" or lit in (0, 1)
            n += 1
            ctx.check(okk, R, r, d, text(r)[:50], "a bool, 0 or 1", "`%s`: the Python side reads this export by truthiness, so the "
                      "code %s means 'unfinished': after release or completion the engine never reports completion" %
                      (text(r)[:30], lit if lit is not None else "returned"))
    ctx.floor(R, 6)


def rule_release(ctx, py):
    """C10.RELEASE -- who may release the native simulation: only an explicit finalize() call made by the user or by the
    simulate driver.  The library holds one simulation for the whole process (C10.ISOLATION), so a release triggered from
    inside an engine object -- its destructor, its constructor, its set-up or loop methods -- frees whichever simulation is
    live, possibly the one another object is running."""
    R = "C10.RELEASE"
    n = 0
    for mn in ("librdengine", "kineticsrdengine", "rdengine", "engine_collection"):
        m = py.mods.get(mn)
        if m is None:
            continue
        for f in m.funcs.values():
            if getattr(f, "_cls", None) is None:
                continue
            for c in pyfe.calls_in(f):
                nm = pyfe.call_name(c)
                native = nm.endswith("engineexport_finalize")
                meth = isinstance(c.func, ast.Attribute) and c.func.attr == "finalize"
                if not (native or meth):
                    continue
                n += 1
                ok = native and f.name == "finalize"
                ctx.check(ok, R, c, f._qual, "%s in %s" % (pyfe.src(c)[:50], f.name), "the native release is reached only through "
                          "the finalize() method itself", "`%s` releases the simulation from inside `%s`: the library holds one "
                          "simulation per process, so this frees whichever one is live (another engine object's run) at a moment "
                          "the user did not choose" % (pyfe.src(c)[:40], f.name))
    ctx.need(n >= 1, R, "no call of engineexport_finalize found in the engine modules")
    ctx.floor(R, 1)


def rule_progress(ctx, tu, eff):
    """every path through an Iterate that does not return on `complete` either flags completion or advances the
    clock by `t += dt` (a step that does neither can be repeated forever: the driver loops never return)"""
    R = "C10.PROGRESS"
    for c in tu.classes.values():
        m = c.methods.get("Iterate")
        if m is None or m.body is None:
            continue

        def gen(node, m=m, c=c):
            out = []
            for x in walk(node):
                cp = call_parts(x) if x.get("kind") == "CXXMemberCallExpr" else None
                if cp and cp[0] == "FlagAsComplete":
                    out.append((("done",), True))
                for s_ in cxa.stores_of_node(x):
                    if s_.base == ("field", "t") and s_.op == "+=" and uname(strip(s_.rhs, casts=True)) == "dt":
                        out.append((("advanced",), True))
            return out

        class C(cxa.CanonFacts):
            def ret(self, s_, cfg):
                early = ("complete", True) in cfg
                okk = early or (("done",), True) in cfg or (("advanced",), True) in cfg
                ctx.check(okk, R, s_.src, m.qual, text(s_.src) + (" [complete]" if early else ""),
                          "the step ended the simulation or advanced the clock by dt",
                          "a path through Iterate neither flags completion nor advances the clock by `t += dt`: when no "
                          "event can happen the engine reports 'unfinished' forever and the run never returns")
        cl = C(None, None, gen)
        ir.Engine(cl, "paths").run(ir.cx_to_ir(m.body))
        # the Gillespie dead-state rule: zero total propensity ends the run
        if "a0" in tu.all_fields(c.name):
            recs = []

            class D(cxa.CanonFacts):
                def ret(self, s_, cfg):
                    if ("a0 == 0", True) in cfg:
                        recs.append((s_.src, (("done",), True) in cfg))
            ir.Engine(D(None, None, gen), "paths").run(ir.cx_to_ir(m.body))
            ctx.check(bool(recs) and all(okk for _, okk in recs), R, m.node, m.qual, "a0 == 0 => FlagAsComplete()",
                      "a system in which nothing can happen any more completes",
                      "with zero total propensity the simulation is not flagged complete")
    ctx.floor(R, 6 * 2)


def rule_type_ptr(ctx, tu):
    """between a store to global_space_type and the allocation of the matching algorithm object, nothing may delete
    through the type-selected pointer (the type no longer identifies the live object)"""
    R = "C10.TYPE-PTR"
    ptrs, bools = globals_info(tu)
    deleters = set()
    changed = True
    while changed:
        changed = False
        for f in tu.all_fns():
            if f.body is None or f.qual in deleters:
                continue
            for x in walk(f.body):
                if x.get("kind") == "CXXDeleteExpr" or any(c.qual in deleters for c in tu.resolve_calls(f, x)):
                    deleters.add(f.qual)
                    changed = True
                    break
    n = 0
    for f in exports(tu):
        stores = [s_ for s_ in cxa.all_stores(f.body) if s_.base and s_.base[0] == "var" and s_.base[1] == "global_space_type"]
        if not stores:
            continue
        bad = []

        class C(ir.Client):
            def atom(self, node, cfg):
                for x in walk(node):
                    for s_ in cxa.stores_of_node(x):
                        if s_.base and s_.base[0] == "var":
                            if s_.base[1] == "global_space_type":
                                cfg = cfg | {"switched"}
                            elif s_.base[1] in ptrs and strip(s_.rhs, casts=True).get("kind") == "CXXNewExpr":
                                cfg = cfg - {"switched"}
                    if x.get("kind") == "CXXDeleteExpr" and "switched" in cfg and self.record:
                        bad.append(x)
                    for callee in tu.resolve_calls(f, x):
                        if callee.qual in deleters and "switched" in cfg and self.record:
                            bad.append(x)
                return cfg
        ir.Engine(C(), "paths").run(ir.cx_to_ir(f.body))
        n += 1
        ctx.check(not bad, R, bad[0] if bad else stores[0].node, f.qual, "global_space_type = ... then " +
                  (text(bad[0])[:60] if bad else "allocation"), "no release between switching the space type and allocating "
                  "the object of that type", "an object is released through the type-selected pointer after "
                  "global_space_type was switched: the pointer of the *new* kind is deleted (dangling or never allocated) "
                  "and the live object of the old kind leaks")
    ctx.floor(R, 2)


def rule_own(ctx, py):
    """C10.OWN -- what the engine object keeps from a set-up is its own: an attribute of self assigned in setup() from a parameter
    holds a copy (`script.copy()`, deepcopy, a converted value), never the caller's object itself.  The fetch methods read the
    output units, the state size and the script attached to the trajectory from that attribute; an alias of the caller's script
    makes a second fetch return something else as soon as the caller touches his script."""
    R = "C10.OWN"
    c = py.cls("librdengine.LibRDEngine")
    meths = {n.name: n for n in c.body if isinstance(n, ast.FunctionDef)}
    f = meths.get("setup")
    ctx.need(f is not None, R, "LibRDEngine.setup not found")
    ps = set(pyfe.params(f)) - {"self"}
    n = 0
    for st in ast.walk(f):
        if isinstance(st, ast.Assign) and any(isinstance(t, ast.Attribute) and isinstance(t.value, ast.Name) and t.value.id == "self"
                                              for t in st.targets):
            v = st.value
            # the parameter itself, or an attribute chain of it (script.system): the caller's object
            root = v
            while isinstance(root, ast.Attribute):
                root = root.value
            mentions = {x.id for x in ast.walk(v) if isinstance(x, ast.Name)} & ps
            if not mentions:
                continue
            n += 1
            bare = isinstance(root, ast.Name) and root.id in ps and isinstance(v, (ast.Name, ast.Attribute))
            ctx.check(not bare, R, st, f._qual if hasattr(f, "_qual") else "librdengine.LibRDEngine.setup", pyfe.src(st)[:70],
                      "a copy / a value computed from the argument", "`%s` keeps the caller's own object: a later change of it "
                      "by the caller changes what get_output() returns for this set-up (units, state size, attached script)"
                      % pyfe.src(st)[:60])
    ctx.floor(R, 1)


def run(ctx):
    tu = ctx.cx
    eff = cxa.Effects(tu)
    flag = find_flag(ctx, tu)
    rule_finalize(ctx, tu, flag)
    rule_live(ctx, tu, flag)
    rule_sticky(ctx, tu, eff)
    rule_fetch(ctx, tu, eff)
    rule_loops(ctx, tu, eff)
    rule_isolation(ctx, tu, eff)
    rule_reset(ctx, ctx.py)
    rule_release(ctx, ctx.py)
    rule_own(ctx, ctx.py)
    rule_status(ctx, tu, ctx.py)
    rule_progress(ctx, tu, eff)
    rule_type_ptr(ctx, tu)
    ctx.analysed["engine"] = tu.meta
    # a set-up leaves the caller's script as it found it: the next set-up made with that script starts from the same input
    from . import c08
    c08.rule_py_pure(ctx, ctx.py, "C10.PY-PURE")
    # shared clause: a set-up always replaces what an earlier one left (fresh object, globals assigned), and a refusal of the
    # native initialiser reaches the caller as an exception -- the status reported afterwards is the one of this set-up
    from ..core import borrow
    borrow(ctx, "C10", c08.rule_globals, tu, ctx.py)
    # shared clause: completion is flagged only past t_max or in a dead state (C09.COMPLETE) -- a fixed-step run takes its
    # ceil(t_max/dt) steps
    from . import c09
    borrow(ctx, "C10", c09.rule_complete, tu)
    from .. import lints
    lints.run(ctx, "C10", ctx.py, ["librdengine", "engine_collection", "simulate"])
    ctx.assume("completion after ceil(t_max/dt) steps and absence of hangs in general are value-level and not "
               "decided; the Python driver loop ends only when the engine reports completion")
