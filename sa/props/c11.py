"""C11 -- memory safety of the native engine, the part visible in the shape of the code:
bounds of every subscript (IDX), short-circuit guard order, library preconditions (Poisson mean), sentinel (-1)
discipline, ragged-table pairing, virtual destructors, definite initialisation, the ctypes boundary, and the
lifecycle rules shared with C10 (double free / use after free)."""
from .. import cxfe, cxa, ir, idx as idxmod
from ..cxfe import kids, strip, text, walk, name_of, call_parts, subscript, uname
from ..core import AnalysisError
from ..poly import Poly
from . import c10


def _last_element_accesses(ctx, tu, I, R):
    """`T[E - c]` with E the extent of T (the last elements): in range only if E >= c, which a dominating test must establish"""
    keep = []
    for n, fq, what, why in I.unknown:
        sub = subscript(n)
        f = next((x for x in tu.all_fns() if x.qual == fq), None)
        handled = False
        if sub is not None and f is not None:
            p = cxa.poly(sub[1])
            consts = [c for m, c in p.t.items() if not m]
            syms = [(m, c) for m, c in p.t.items() if m]
            if len(consts) == 1 and consts[0] < 0 and len(syms) == 1 and syms[0][1] == 1 and len(syms[0][0]) == 1 and syms[0][0][0][1] == 1:
                e_atom = syms[0][0][0][0]
                b = cxa.lvalue_base(sub[0])
                try:
                    te = I.extent.get(I._key(f, b)) if b else None
                except Exception:
                    te = None
                if te is not None and repr(te) in (repr(idxmod.norm_xyz(Poly.sym(idxmod.RAW2EXT.get(e_atom, e_atom)))), e_atom):
                    c_ = -int(consts[0])
                    found = []

                    def on_any(node, facts, n=n):
                        if any(x is n for x in walk(node)):
                            found.append(frozenset(facts) | frozenset(cxa.local_facts(node, n)))
                    cxa.canon_facts(f.body, on_atom=on_any, on_cond=on_any)
                    okk = bool(found) and all(
                        ("0 < %s" % e_atom, True) in fc or ("%s == 0" % e_atom, False) in fc or ("0 == %s" % e_atom, False) in fc or
                        ("%d <= %s" % (c_, e_atom), True) in fc or ("%s < %d" % (e_atom, c_), False) in fc or
                        ("%s <= 0" % e_atom, False) in fc for fc in found)
                    ctx.check(okk, R, n, fq, what, "last element, under a test that the table is not empty",
                              "`%s` reads element %s - %d: for an empty table (%s == 0) the index is -%d, and no test of %s > 0 "
                              "dominates the access" % (what, e_atom, c_, e_atom, c_, e_atom))
                    handled = True
        if not handled:
            keep.append((n, fq, what, why))
    I.unknown[:] = keep


def _unbounded_scans(ctx, tu, I, R):
    """An index built on a local that is stepped (`c++`, `c += k`) inside a loop whose condition never compares that local with
    anything is unbounded: nothing stops the scan at the end of the table.  This is a definite finding, not an unknown idiom."""
    import re
    keep = []
    for n, fq, what, why in I.unknown:
        m = re.search(r"atom ([A-Za-z_][A-Za-z_0-9']*) has neither an index kind nor an extent", why or "")
        handled = False
        if m:
            v = m.group(1)
            try:
                f = tu.fn(fq)
            except Exception:
                f = None
            if f is not None and f.body is not None:
                loops_ = sorted([x for x in walk(f.body) if x.get("kind") in ("WhileStmt", "DoStmt", "ForStmt")],
                                key=lambda x: sum(1 for _ in walk(x)))          # innermost first
                for lp in loops_:
                    raw = cxfe.raw_kids(lp)
                    cond = raw[0] if lp.get("kind") == "WhileStmt" else raw[1] if lp.get("kind") == "DoStmt" else raw[2]
                    body = raw[1] if lp.get("kind") == "WhileStmt" else raw[0] if lp.get("kind") == "DoStmt" else raw[4]
                    step = [s_ for s_ in cxa.all_stores(body) if s_.base and s_.base[0] == "var" and s_.base[1] == v and
                            s_.op in ("++", "--", "+=", "-=")] if body else []
                    if lp.get("kind") == "ForStmt" and raw[3]:
                        step += [s_ for s_ in cxa.stores_of_node(strip(raw[3])) if s_.base and s_.base[1] == v]
                    if not step:
                        continue
                    rel = [x for x in walk(cond or {}) if x.get("kind") == "BinaryOperator" and x.get("opcode") in ("<", "<=", ">", ">=", "!=")
                           and any(uname(strip(k_, casts=True)) == v for k_ in kids(x))]
                    if rel:
                        break               # the innermost loop that steps the local bounds it
                    if not rel:
                        ctx.violation(R, n, fq, what, "the index local `%s` is stepped in a loop whose condition (`%s`) never "
                                      "compares it with a bound: the scan runs past the end of the table when no element "
                                      "satisfies the condition (out-of-bounds read, then write)" % (v.split("'")[0], text(cond)[:60] if cond else ""))
                        handled = True
                        break
        if not handled:
            keep.append((n, fq, what, why))
    I.unknown[:] = keep


def rule_bounds(ctx, tu, I):
    R = "C11.BOUNDS"
    _last_element_accesses(ctx, tu, I, R)
    _unbounded_scans(ctx, tu, I, R)
    if I.unknown:
        n, fn, what, why = I.unknown[0]
        ctx.error(R, "%d subscripts are not a mixed-radix form over known kinds, first: %s in %s (%s)"
                  % (len(I.unknown), what, fn, why))
    layouts = {}
    ptr_req = {}
    for r in I.subs:
        if r["status"] == "dead":
            ctx.info(R, r["node"], r["fn"], r["text"], "function is never called; not analysed")
            continue
        key = (r["root"], r["table"], r["inner"])
        lay = r["layout"]
        what = r["text"]
        if r["status"] == "bad":
            ctx.violation(R, r["node"], r["fn"], what, r["detail"])
            continue
        if r["status"] == "top":
            ctx.violation(R, r["node"], r["fn"], what, "an index variable receives different index kinds at its "
                          "call sites: one of them addresses another table dimension")
            continue
        ie, te = r.get("index_extent"), r.get("table_extent")
        if "lit" in r:
            ok = te is not None and te.isconst() and 0 <= r["lit"] < te.constval()
            ctx.check(ok, R, r["node"], r["fn"], what, "literal index within extent %r" % (te,),
                      "literal index %s outside the table extent %r" % (r["lit"], te), nontrivial=False)
            continue
        lays = "(" + ", ".join(idxmod.kstr(k) for k in lay) + ")"
        if te is None:
            # raw pointer handed in by the caller: the requirement goes to the FFI rule
            ptr_req.setdefault((r["fn"], r["table"]), set()).add(ie)
            ctx.ok(R, r["node"], r["fn"], what, "layout %s; caller-supplied buffer must hold %r elements (FFI rule)"
                   % (lays, ie))
        else:
            ctx.check(ie == te, R, r["node"], r["fn"], what,
                      "layout %s, index range %r = table extent" % (lays, ie),
                      "index form %s ranges over %r but the table holds %r elements" % (lays, ie, te))
        if lay and lay[0][0] != "flat":
            prev = layouts.setdefault(key, (lay, r))
            if prev[0] != lay:
                ctx.violation("C11.LAYOUT", r["node"], r["fn"], what,
                              "table %s is addressed as %s here but as (%s) at %s" %
                              (r["table"], lays, ", ".join(idxmod.kstr(k) for k in prev[0]), prev[1]["text"]))
    for n, fn, key, old, new in I.extent_conf:
        ctx.violation(R, n, fn, "extent of %s" % (key[1],), "sized %r here but %r elsewhere" % (new, old))
    for n, fn, what, want, got in I.extent_checks:
        if want != got:
            ctx.violation(R, n, fn, what, "a count of kind %r receives %r" % (want, got))
    for a in sorted(I.assumptions):
        ctx.assume(a)
    ctx.floor(R, 240)     # coverage guard (see C01.LAYOUT)
    ctx.analysed["C11.BOUNDS"] = {"subscripts": len(I.subs), "tables": len(layouts),
                                  "pointer_requirements": {"%s:%s" % k: sorted(repr(x) for x in v)
                                                           for k, v in ptr_req.items()}}
    return ptr_req


def rule_ragged_pair(ctx, tu):
    """SetNeighbors: for each endpoint a, one ++mesh_neighbor_n[a] and one push_back per ragged table [a]"""
    R = "C11.RAGGED-PAIR"
    f = tu.fn("SimulationAlgorithmGraphBase::SetNeighbors")
    inc, push = {}, {}
    for s in cxa.all_stores(f.body):
        if s.base is None or s.base[0] != "field":
            continue
        sub = subscript(s.target)
        if sub is None:
            continue
        a = repr(cxa.poly(sub[1]))
        if s.base[1] == "mesh_neighbor_n" and (s.op == "++" or (s.op == "+=" and cxa.const_int(s.rhs) == 1)):
            inc[a] = inc.get(a, 0) + 1
        elif s.how == "method" and s.op == "push_back":
            push.setdefault(s.base[1], {}).setdefault(a, 0)
            push[s.base[1]][a] += 1
    ctx.need(inc and push, R, "SetNeighbors: no neighbour count increment / push_back found")
    for t, per in sorted(push.items()):
        ctx.check(per == inc, R, f.node, f.qual, "%s[a].push_back paired with ++mesh_neighbor_n[a]" % t,
                  "for each endpoint a in %s" % sorted(inc),
                  "push_back counts %r differ from neighbour-count increments %r: the ragged extent "
                  "mesh_neighbor_n[a] no longer equals the row length" % (per, inc))
    # ... and under the same conditions: a push that a `continue` / `if` skips while the count still advances (or the reverse)
    # leaves mesh_neighbor_n[a] different from the row length
    recs = []

    def on_atom(node, facts):
        for x in walk(node):
            for s_ in cxa.stores_of_node(x):
                if s_.base is None or s_.base[0] != "field" or subscript(s_.target) is None:
                    continue
                a_ = repr(cxa.poly(subscript(s_.target)[1]))
                if s_.base[1] == "mesh_neighbor_n" and (s_.op == "++" or (s_.op == "+=" and cxa.const_int(s_.rhs) == 1)):
                    recs.append(("count", a_, frozenset(facts), s_))
                elif s_.how == "method" and s_.op == "push_back":
                    recs.append((s_.base[1], a_, frozenset(facts), s_))
    cxa.canon_facts(f.body, on_atom=on_atom)
    for a_ in sorted({r[1] for r in recs}):
        conds = {}
        for kind_, aa, fc, s_ in recs:
            if aa == a_:
                conds.setdefault(kind_, set()).add(frozenset(t for t in fc if isinstance(t[0], str)))
        base = conds.get("count")
        for kind_, cs in sorted(conds.items()):
            if kind_ == "count" or base is None:
                continue
            ctx.check(cs == base, R, f.node, f.qual, "%s[%s].push_back under the conditions of ++mesh_neighbor_n[%s]" % (kind_, a_, a_),
                      "count and row grow on exactly the same paths", "the row %s[%s] grows under %s but its count under %s: on some "
                      "path mesh_neighbor_n[%s] differs from the row length, loops bounded by it run past the row" % (
                          kind_, a_, sorted(sorted(x) for x in cs)[:1], sorted(sorted(x) for x in base)[:1], a_))
    # the count table is sized before use and rows exist for every cell
    ctx.floor(R, 3)


def _conj(c, op):
    c = strip(c)
    if c.get("kind") == "BinaryOperator" and c.get("opcode") == op:
        return _conj(kids(c)[0], op) + _conj(kids(c)[1], op)
    return [c]


def _is_bound_test(e, v):
    e = strip(e)
    if e.get("kind") != "BinaryOperator" or e.get("opcode") not in ("<", "<=", ">", ">=", "!="):
        return False
    l, r = strip(kids(e)[0], casts=True), strip(kids(e)[1], casts=True)
    return cxa.canon(l) == v or cxa.canon(r) == v


def rule_guard_order(ctx, tu):
    R = "C11.GUARD-ORDER"
    n_inst = 0
    for f in tu.all_fns():
        if f.body is None:
            continue
        conds = []
        for n in walk(f.body):
            k = n.get("kind")
            if k == "IfStmt":
                conds.append(cxfe.raw_kids(n)[0])
            elif k == "WhileStmt":
                conds.append(kids(n)[0])
            elif k == "ForStmt":
                c = cxa.for_parts(n)[1]
                if c is not None:
                    conds.append(c)
        for c in conds:
            for op in ("&&", "||"):
                ops = _conj(c, op)
                if len(ops) < 2:
                    continue
                has_sub = False
                for i, e in enumerate(ops):
                    for x in walk(e):
                        sub = subscript(x) if x.get("kind") in ("CXXOperatorCallExpr", "ArraySubscriptExpr") else None
                        if sub is None:
                            continue
                        has_sub = True
                        vars_ = {a for m in cxa.poly(sub[1]).t for a, _ in m}
                        late = [ej for ej in ops[i + 1:] for v in vars_ if _is_bound_test(ej, v)]
                        n_inst += 1
                        ctx.check(not late, R, c, f.qual, text(c),
                                  "every subscript is evaluated after the bound tests on its index",
                                  "`%s` is evaluated before the bound test `%s` of the same condition: "
                                  "the element is read even when the index is out of range"
                                  % (text(x), text(late[0]) if late else ""))
    ctx.floor(R, 2)


def rule_poisson(ctx, tu):
    R = "C11.POISSON-PRE"
    count = 0
    for f in tu.all_fns():
        if f.body is None:
            continue
        sites = []
        for n in walk(f.body):
            if n.get("kind") in ("CXXTemporaryObjectExpr", "CXXConstructExpr", "CXXFunctionalCastExpr") and \
                    "poisson_distribution" in n.get("type", {}).get("qualType", ""):
                a = [x for x in kids(n) if x.get("kind") != "CXXDefaultArgExpr"]
                if n.get("kind") == "CXXFunctionalCastExpr":
                    continue   # wrapper node around the construct expression
                if a and "poisson_distribution" not in strip(a[0], casts=True).get("type", {}).get("qualType", ""):
                    sites.append((n, a[0]))
        if not sites:
            continue
        ids = {id(n): (n, a) for n, a in sites}
        done = set()

        def on_any(node, facts, f=f):
            for x in walk(node):
                if id(x) in ids and id(x) not in done:
                    done.add(id(x))
                    n, a = ids[id(x)]
                    subj = cxa.canon(a)
                    fs = set(facts) | set(cxa.local_facts(node, x))
                    ok = cxa.is_positive_fact(fs, subj)
                    ctx.check(ok, R, n, f.qual, "poisson_distribution<int>(%s)" % text(a),
                              "constructed only where %s > 0 is established" % subj,
                              "mean %s may be 0 (or negative): libstdc++ requires mean > 0 "
                              "(__glibcxx_assert in bits/random.h); zero propensity / empty cell reaches this" % subj)

        cxa.canon_facts(f.body, on_atom=on_any, on_cond=on_any)
        count += len(sites)
        for i_, (n, a) in ids.items():
            if i_ not in done:
                ctx.error(R, "construction %s in %s not reached by the flow engine" % (text(n), f.qual))
    ctx.floor(R, 5)


def rule_sentinel(ctx, tu, I):
    """a neighbour-table value (cell or -1) is used as an index only where it is known to be != -1"""
    R = "C11.SENTINEL"
    SENT = {t for t, k in idxmod.ELEM.items() if k == ("cell?",)}
    ctx.need(SENT, R, "no sentinel-carrying table in the element-kind table")

    def cell_dir(p):
        """(cell atom, dir atom) of a (dir6, cell) index polynomial  c*6 + d"""
        c = d = None
        for m, co in p.t.items():
            if len(m) == 1 and m[0][1] == 1 and co == 6:
                c = m[0][0]
            elif len(m) == 1 and m[0][1] == 1 and co == 1:
                d = m[0][0]
            else:
                return None
        return (c, d) if c and d else None

    def cell_dir_of(index_poly, nsp="n_species"):
        """(cell atom, dir atom) of a (dir6, species, cell) form  c*6*S + s*6 + d"""
        c = d = None
        for m, co in index_poly.t.items():
            atoms = dict(m)
            if co == 6 and nsp in atoms and len(atoms) == 2:
                c = [a for a in atoms if a != nsp][0]
            elif co == 1 and len(atoms) == 1:
                d = list(atoms)[0]
        return (c, d) if c and d else None

    # writer invariant of count / propensity tables: non-zero stores only where the neighbour exists
    inv_tables = {}
    for f in tu.all_fns():
        if f.body is None or f.cls is None:
            continue
        recs = []

        def on_atom(node, facts, f=f):
            for x in walk(node):
                for s in cxa.stores_of_node(x):
                    if s.base and s.base[0] == "field" and s.how == "assign" and subscript(s.target):
                        recs.append((s, frozenset(facts)))
        cxa.canon_facts(f.body, on_atom=on_atom)
        for s, facts in recs:
            t = s.base[1]
            lay = None
            for r in I.subs:
                if r["node"] is strip(s.target, casts=True) and r["layout"]:
                    lay = [k[0] for k in r["layout"]]
            if lay != ["dir6", "species", "cell"] or t in ("mesh_kd",):
                continue
            cd = cell_dir_of(cxa.poly(subscript(s.target)[1]))
            zero = s.op == "=" and cxa.const_int(s.rhs) == 0
            guarded = cd is not None and any(
                (("%s[%r] == -1" % (st, Poly.sym(cd[0]) * Poly.const(6) + Poly.sym(cd[1]))), False) in facts
                for st in SENT)
            r_ = strip(s.rhs, casts=True) if s.rhs is not None else {}
            if not (zero or guarded) and cd is not None and r_.get("kind") == "ConditionalOperator" and s.op == "=":
                # value = (neighbour exists) ? propensity : 0   -- the same invariant in one expression
                c_, a_, b_ = kids(r_)
                def _is0(e):
                    e = strip(e, casts=True)
                    return cxa.const_int(e) == 0 or (e.get("kind") == "FloatingLiteral" and float(e.get("value", "1")) == 0.0)
                for arm_nz, arm_z, pol in ((a_, b_, True), (b_, a_, False)):
                    if _is0(arm_z):
                        cf = set(cxa.cfacts(c_, pol))
                        if any((("%s[%r] == -1" % (st, Poly.sym(cd[0]) * Poly.const(6) + Poly.sym(cd[1]))), False) in cf for st in SENT):
                            guarded = True
            inv_tables.setdefault(t, []).append((zero or guarded, s, f))
    inv_ok = {t: all(x[0] for x in v) for t, v in inv_tables.items()}

    # obligations: uses of a sentinel value as (part of) an index, or as a cell argument
    oblig = {}   # fn qual -> list of (node, canonical subject "mesh_neighbors[poly]", poly)

    def subject_of(expr, f):
        """if expr is (a local defined as) a load from a sentinel table, its canonical subject and index poly"""
        e = strip(expr, casts=True)
        nm = uname(e) if e.get("kind") == "DeclRefExpr" else None
        if nm is not None:
            d = I.scopes[f.qual].defs.get(nm)
            if d is not None and not I.scopes[f.qual].stored.get(nm):
                r = subject_of(d, f)
                if r:
                    return r + (nm,)
            return None
        sub = subscript(e)
        if sub is not None:
            b = cxa.lvalue_base(sub[0])
            if b and b[1] in SENT:
                return (b[1], cxa.poly(sub[1]))
        return None

    results = []

    def check_fn(f, depth=0):
        uses = []

        def scan(node, facts):
            for x in walk(node):
                # (1) subscript whose index contains a sentinel-valued atom
                sub = subscript(x) if x.get("kind") in ("CXXOperatorCallExpr", "ArraySubscriptExpr") else None
                if sub is not None:
                    for y in walk(sub[1]):
                        s = subject_of(y, f) if y.get("kind") in ("DeclRefExpr", "CXXOperatorCallExpr") else None
                        if s and strip(y, casts=True) is y:
                            uses.append((x, s, frozenset(facts) | frozenset(cxa.local_facts(node, x)), "index"))
                        elif s is None and y.get("kind") == "DeclRefExpr" and uname(y) is not None:
                            # a local holding index arithmetic over a sentinel load:  int dst = nb[c*6+d]*S + s;  x[dst]
                            d_ = I.scopes[f.qual].defs.get(uname(y))
                            if d_ is not None and not I.scopes[f.qual].stored.get(uname(y)):
                                for z in walk(d_):
                                    s2 = subject_of(z, f) if z.get("kind") in ("DeclRefExpr", "CXXOperatorCallExpr") else None
                                    if s2 and strip(z, casts=True) is z:
                                        uses.append((x, s2, frozenset(facts) | frozenset(cxa.local_facts(node, x)), "index"))
                # (2) call passing a sentinel value to a parameter used as a cell index
                cp = call_parts(x) if x.get("kind") in ("CallExpr", "CXXMemberCallExpr") else None
                if cp:
                    for callee in tu.resolve_calls(f, x):
                        for a in cp[2][:len(callee.params)]:
                            s = subject_of(a, f)
                            if s:
                                uses.append((x, s, frozenset(facts) | frozenset(cxa.local_facts(node, x)), "arg"))
                            break_ = False
        cxa.canon_facts(f.body, on_atom=scan, on_cond=scan)
        return uses

    def discharged(s, facts, f, node):
        tab, p = s[0], s[1]
        subj = "%s[%r]" % (tab, p)
        if (subj + " == -1", False) in facts:
            return "tested != -1 (%s)" % subj
        if len(s) > 2 and ("%s == -1" % s[2], False) in facts:
            return "local %s tested != -1" % s[2]
        cd = cell_dir(p)
        if cd:
            # non-zero test of a count / propensity table with the writer invariant, same (cell, dir)
            for (t, pol) in facts:
                if not isinstance(t, str):
                    continue
                for tb, ok in inv_ok.items():
                    if not ok or not t.startswith(tb + "["):
                        continue
                    if t.endswith("] == 0") and pol is False:
                        inner = t[len(tb) + 1:-len("] == 0")]
                        # same cell and direction atoms appear with the (dir6, species, cell) strides
                        if ("6*%s*n_species" % cd[0] in inner or "6*n_species*%s" % cd[0] in inner) and \
                                inner.split(" + ")[0] in (cd[1],) or (" + %s" % cd[1]) in inner or \
                                inner.startswith(cd[1] + " "):
                            return "non-zero %s entry of the same (cell, direction): its non-zero stores are all " \
                                   "made under the != -1 test" % tb
        return None

    # per-function, with one level of lifting to the callers for obligations stated on parameters
    n_inst = 0
    lifted = []
    for f in tu.all_fns():
        if f.body is None or f.cls is None:
            continue
        for node, s, facts, how in check_fn(f):
            why = discharged(s, facts, f, node)
            params = set(f.param_names())
            if why is None and (s[1].syms() <= params | {"6"}) and s[1].syms() & params:
                lifted.append((f, node, s))
                continue
            n_inst += 1
            ctx.check(why is not None, R, node, f.qual, text(node)[:110], why or "",
                      "a value of %s (neighbour or -1) is used as an index without a dominating != -1 test: "
                      "an absent neighbour addresses element -1" % s[0])
    for f, node, s in lifted:
        callers = []
        for g in tu.all_fns():
            if g.body is None:
                continue
            sites = []

            def scan(nd, facts, g=g):
                for x in walk(nd):
                    cp = call_parts(x) if x.get("kind") in ("CallExpr", "CXXMemberCallExpr") else None
                    if cp and f in tu.resolve_calls(g, x):
                        sites.append((x, cp[2], frozenset(facts) | frozenset(cxa.local_facts(nd, x))))
            cxa.canon_facts(g.body, on_atom=scan, on_cond=scan)
            for x, args, facts in sites:
                callers.append((g, x, args, facts))
        if not callers:
            ctx.info(R, node, f.qual, text(node)[:110], "obligation on parameters of a function without callers")
            continue
        for g, x, args, facts in callers:
            mp = {pn: cxa.poly(a) for pn, a in zip(f.param_names(), args)}
            p2 = s[1].subs(mp)
            why = discharged((s[0], p2), facts, g, x)
            if why is None:
                # Gillespie selection: the call is dominated by  r2 < a_cumul  right after a_cumul += T[(cell,.,dir)]
                cd = cell_dir(p2)
                if cd:
                    for (t, pol) in facts:
                        if isinstance(t, str) and pol and " < " in t:
                            acc = t.split(" < ")[1]
                            for y in walk(g.body):
                                for st in cxa.stores_of_node(y):
                                    if st.op == "+=" and st.base and st.base[1] == acc and st.rhs is not None:
                                        sb = subscript(st.rhs)
                                        if sb:
                                            b = cxa.lvalue_base(sb[0])
                                            cd2 = cell_dir_of(cxa.poly(sb[1]))
                                            if b and inv_ok.get(b[1]) and cd2 == cd:
                                                why = ("selected under `%s` right after %s += %s[...] of the same "
                                                       "(cell, direction); that table is zero where no neighbour "
                                                       "exists (writer invariant checked)" % (t, acc, b[1]))
                                                ctx.assume("Gillespie selection: a channel chosen by the cumulative "
                                                           "search has positive propensity (arithmetic on run-time "
                                                           "values), hence an existing neighbour")
            n_inst += 1
            ctx.check(why is not None, R, x, g.qual, text(x)[:110] + " -> " + f.name, why or "",
                      "%s uses %s[%r] as an index; this call site does not establish != -1"
                      % (f.name, s[0], s[1]))
    for t, v in sorted(inv_tables.items()):
        for okk, s, f in v:
            ctx.check(okk, R + "-INV", s.node, f.qual, text(s.node)[:110],
                      "store is the literal 0 or made under the neighbour != -1 test",
                      "non-zero value stored for a direction whose neighbour may be -1: readers that rely on "
                      "`%s != 0 => neighbour exists` index element -1" % t)
    ctx.floor(R, 6)


def rule_static(ctx, tu, R="C11.STATIC"):
    """a function-local static container is sized once per process: a later simulation with larger extents indexes
    it out of bounds"""
    n_ok = 0
    for f in tu.all_fns():
        if f.body is None:
            continue
        for n in walk(f.body):
            if n.get("kind") == "VarDecl" and n.get("storageClass") == "static":
                t = n.get("type", {}).get("qualType", "")
                if t.startswith("const "):
                    continue
                ctx.violation(R, n, f.qual, text(n)[:80], "function-local static object: it is constructed (sized) once per "
                              "process and keeps its content between simulations, so a later simulation with other extents reads / "
                              "writes outside it and a run depends on what ran before in the process")
        n_ok += 1
    ctx.ok(R, None, "engine", "%d functions without mutable function-local statics" % n_ok, nontrivial=False)


def rule_dtor(ctx, tu):
    R = "C11.DTOR"
    for c in tu.classes.values():
        poly_ = any(m.virtual for m in c.methods.values())
        if not poly_:
            continue
        if not c.bases:
            ctx.check(c.dtor is not None and c.dtor.get("virtual"), R, c.node, c.name, "virtual ~%s()" % c.name,
                      "polymorphic base deleted through a base pointer has a virtual destructor",
                      "polymorphic base without a virtual destructor: `delete global_*_algo` is undefined behaviour")
    ctx.floor(R, 2)


def rule_init(ctx, tu):
    """scalar locals are initialised on every path before they are read (must-facts)"""
    R = "C11.INIT"
    n_inst = 0
    for f in tu.all_fns():
        if f.body is None:
            continue
        scal = {}
        for n in walk(f.body):
            if n.get("kind") == "VarDecl" and not kids(n):
                t = n.get("type", {}).get("qualType", "")
                if t in ("int", "double", "bool", "float", "size_t", "long", "unsigned int"):
                    scal[uname(n)] = n
        if not scal:
            continue
        bad = {}

        def gen(node):
            out = []
            for x in walk(node):
                for s in cxa.stores_of_node(x):
                    if s.base and s.base[0] == "var" and s.base[1] in scal and s.op == "=":
                        out.append(("init:" + s.base[1], True))
            return out

        def on_any(node, facts):
            written = set()
            for x in walk(node):
                for s in cxa.stores_of_node(x):
                    if s.op == "=" and s.base and s.base[0] == "var":
                        written.add(id(strip(s.target, casts=True)))
            for x in walk(node):
                if x.get("kind") == "DeclRefExpr" and uname(x) in scal and id(x) not in written:
                    if ("init:" + uname(x), True) not in facts:
                        bad.setdefault(uname(x), x)

        cxa.must_facts(f.body, on_atom=on_any, on_cond=on_any, gen=gen)
        for v, n in scal.items():
            n_inst += 1
            ctx.check(v not in bad, R, n, f.qual, text(n), "assigned on every path before its first read",
                      "read at line %s on a path where it has not been assigned"
                      % (cxfe.line(bad[v]) if v in bad else "?"))
    # an obligation exists only for locals declared without an initialiser: giving them one removes the obligation, it does not
    # hide anything -- so the count has no floor; the scan itself is recorded
    ctx.ok(R, None, "engine", "%d scalar locals are declared without an initialiser" % n_inst, "each checked above", nontrivial=False)
    ctx.floor(R, 1)


def rule_intdiv(ctx, tu):
    """C11.INTDIV -- integer `/` and `%` are undefined for a zero divisor.  Every integer division of the engine divides by a
    product of the grid extents w, h, d (positive: non-positive grid sizes are rejected before the engine is reached, C20), by a
    non-zero literal, or under a dominating test that the divisor is not zero.  A count that can be empty (samples, neighbours,
    species of a reaction) is none of these."""
    R = "C11.INTDIV"
    INT = ("int", "long", "unsigned int", "size_t", "unsigned long", "long long", "const int", "short", "unsigned long long")
    POS = {"w", "h", "d"}
    n = 0
    for f in tu.all_fns():
        if f.body is None:
            continue
        sites = []

        def on_atom(node, facts, sites=sites):
            for x in walk(node):
                if x.get("kind") in ("BinaryOperator", "CompoundAssignOperator") and x.get("opcode") in ("/", "%", "/=", "%=") and \
                        x.get("type", {}).get("qualType", "") in INT:
                    r_ = strip(kids(x)[1], casts=True)
                    if strip(kids(x)[1]).get("type", {}).get("qualType", "") in INT or r_.get("type", {}).get("qualType", "") in INT:
                        sites.append((x, r_, set(facts)))
        cxa.canon_facts(f.body, on_atom=on_atom)
        # locals that hold a product of grid extents (const int wh = w*h;) are positive too
        ldef, nass = {}, {}
        for v_ in walk(f.body):
            if v_.get("kind") == "VarDecl" and kids(v_):
                ldef[uname(v_)] = kids(v_)[-1]
        for s_ in cxa.all_stores(f.body):
            if s_.base and s_.base[0] == "var":
                nass[s_.base[1]] = nass.get(s_.base[1], 0) + 1

        def positive(e, depth=0):
            e = strip(e, casts=True)
            k = e.get("kind")
            if k in ("DeclRefExpr", "MemberExpr"):
                nm = uname(e) or name_of(e)
                if nm in POS:
                    return True
                return nm in ldef and not nass.get(nm) and depth < 4 and positive(ldef[nm], depth + 1)
            if k == "BinaryOperator" and e.get("opcode") == "*":
                return all(positive(c_, depth) for c_ in kids(e))
            if k == "ParenExpr":
                return positive(kids(e)[0], depth)
            lit_ = cxa.const_int(e)
            return lit_ is not None and lit_ > 0
        seen = set()
        for x, r_, facts in sites:
            if id(x) in seen:
                continue
            seen.add(id(x))
            lit = cxa.const_int(r_)
            atoms = {uname(y) or name_of(y) for y in walk(r_) if y.get("kind") in ("DeclRefExpr", "MemberExpr")}
            only_mul = all(y.get("kind") in ("DeclRefExpr", "MemberExpr", "ParenExpr", "ImplicitCastExpr", "CXXThisExpr") or
                           (y.get("kind") == "BinaryOperator" and y.get("opcode") == "*") for y in walk(r_))
            t = cxa.canon(r_)
            guarded = any((a == "%s == 0" % t and pol is False) or (a == "0 < %s" % t and pol is True) or
                          (a == "%s <= 0" % t and pol is False) or (a == "0 == %s" % t and pol is False)
                          for a, pol in facts if isinstance(a, str))
            okk = (lit is not None and lit != 0) or (only_mul and atoms and atoms <= POS) or positive(r_) or guarded
            n += 1
            ctx.check(okk, R, x, f.qual, text(x)[:60], "divisor: grid extents, a non-zero literal, or tested non-zero",
                      "integer division by `%s`, which can be zero and is not tested: undefined behaviour (the process is killed "
                      "with SIGFPE)" % text(r_)[:40])
    ctx.need(n >= 6, R, "only %d integer divisions found in the engine" % n)
    ctx.floor(R, 6)


# float -> int conversions of the engine that were read and found bounded: (function, converted expression) -> reason
# keyed by (function, the local tables the converted expression is made of) -- not by its spelling
FPCAST_OK = {
    ("GenerateStochasticDistribution", frozenset({"tot_species", "tot2_species", "dtot_species"})):
        "difference between the drawn and the floored total of one species: of the order of the square root of the total, "
        "outside the int range only for totals no double can count exactly",
}


def rule_fpcast(ctx, tu):
    """C11.FPCAST -- converting a floating-point value to an integer type is undefined when the value does not fit.  Amounts,
    propensities and times of the engine are doubles without an upper bound (a state written in pmol holds 1e12 molecules per
    cell), so every such conversion must be of a quantity that is bounded by construction; the ones on the pinned tree were read
    and are listed with their reason."""
    R = "C11.FPCAST"
    n = 0
    seen = set()
    for f in tu.all_fns():
        if f.body is None:
            continue
        for x in walk(f.body):
            if x.get("castKind") != "FloatingToIntegral":
                continue
            inner = kids(x)[0] if kids(x) else x
            key = (f.qual, cxa.canon(inner))
            if key in seen:
                continue
            seen.add(key)
            n += 1
            lit = strip(inner, casts=True).get("kind") == "FloatingLiteral"
            bases = {name_of(strip(subscript(y)[0], casts=True)) for y in walk(inner) if subscript(y) is not None}
            if f.qual == "GenerateStochasticDistribution":
                from .. import gsd
                role_ = gsd.roles(f)          # the tables are identified by what they are computed from, not by name
                bases = {role_.get(b_, b_) for b_ in bases}
            others = [y for y in walk(inner) if y.get("kind") in ("DeclRefExpr", "MemberExpr") and
                      (uname(y) or name_of(y)) not in bases and y.get("type", {}).get("qualType", "") in ("double", "float", "const double")]
            why = next((r_ for (fq, names), r_ in FPCAST_OK.items() if fq == f.qual and bases and bases <= names and not others), None)
            ok = lit or why is not None
            ctx.check(ok, R, x, f.qual, "int(%s)" % text(inner)[:50], why or "bounded by construction",
                      "`%s` is converted to an integer type: the conversion is undefined once the value exceeds the integer "
                      "range (2^31 - 1 molecules in one cell is 3.6 fmol), and nothing bounds it" % text(inner)[:50])
    ctx.ok(R, None, "engine", "%d float -> int conversions examined" % n, "each bounded by construction")
    ctx.floor(R, 1)


def rule_env_range(ctx, py, tu):
    """C11.ENV-RANGE -- the engine indexes its per-environment tables (k, D) with the values of mesh_env.  Those values are
    validated against the network's environment list (C20.EXTIDX), so the table extent handed over as n_env must be the length of
    that very list, and the tables must have one row / column per entry of it: a filtered or re-ordered list makes a valid cell
    environment index point past the tables."""
    import ast
    from .. import pysym, ffi, pyfe
    R = "C11.ENV-RANGE"
    su = py.fn("librdengine.LibRDEngine.setup")
    whole = ("script.system.network.environments", "list(script.system.network.environments)",
             "script.system.network.environments.copy()", "script.system.network.environments[:]",
             "tuple(script.system.network.environments)")
    n = 0
    for c in pyfe.calls_in(su):
        if not (isinstance(c.func, ast.Attribute) and c.func.attr in ("_setup_grid", "_setup_graph")):
            continue
        callee = py.fn("librdengine.LibRDEngine." + c.func.attr)
        ps = [p_ for p_ in pyfe.params(callee) if p_ != "self"]
        bound = dict(zip(ps, c.args))
        bound.update({k.arg: k.value for k in c.keywords})
        ctx.need("environments" in bound, R, "%s: no `environments` argument" % c.func.attr)
        src = pysym.isrc(bound["environments"], su).replace(" ", "")
        n += 1
        ctx.check(src in whole, R, c, su._qual, "%s(environments = %s)" % (c.func.attr, src[:60]), "the network's whole "
                  "environment list, in its order", "the engine's environment tables are built from `%s`, not from the whole "
                  "network.environments list the cell environment indices refer to: an index that is valid for the network reads "
                  "past k / D" % src[:60])
    tab = {"engineexport_initialize_grid": "_setup_grid", "engineexport_initialize_graph": "_setup_graph"}
    for fn, call, name in ffi.call_sites(py):
        if name not in tab:
            continue
        f = tu.fn(name)
        stored = {x.id for x in ast.walk(fn) if isinstance(x, ast.Name) and isinstance(x.ctx, ast.Store)}
        for a, p_ in zip(call.args, f.params):
            pn = p_.get("name")
            t = pysym.isrc(a, fn).replace(" ", "")
            if pn == "n_env":
                n += 1
                ctx.check(t in ("ctypes.c_int(len(environments))", "c_int(len(environments))") and "environments" not in stored,
                          R, a, fn._qual, "n_env <- %s" % t[:50], "length of the environment list", "n_env is not the length of "
                          "the environment list the tables are built from")
            elif pn in ("k", "D"):
                n += 1
                builders = [x for x in ast.walk(pysym.inline(a, fn)) if isinstance(x, ast.Call) and pyfe.call_name(x).startswith("build_")]
                okb = len(builders) == 1 and any(pyfe.src(y) == "environments" for y in list(builders[0].args) +
                                                 [k_.value for k_ in builders[0].keywords]) and "environments" not in stored
                ctx.check(okb, R, a, fn._qual, "%s <- %s" % (pn, t[:60]), "tabulated over that same list", "the table %s is not "
                          "built over the environment list whose length is passed as n_env" % pn)
    ctx.need(n >= 8, R, "only %d instances" % n)
    ctx.floor(R, 8)


def run(ctx):
    tu = ctx.cx
    I = idxmod.Idx(tu)
    ptr_req = rule_bounds(ctx, tu, I)
    rule_ragged_pair(ctx, tu)
    rule_guard_order(ctx, tu)
    rule_poisson(ctx, tu)
    rule_sentinel(ctx, tu, I)
    rule_static(ctx, tu)
    rule_dtor(ctx, tu)
    rule_init(ctx, tu)
    # shared clause: what BuildMeshNeighbors stores is a valid cell index or -1 (GetNeighborIndex: directions, wrap, range test, encode)
    from ..core import borrow
    from . import c15
    borrow(ctx, "C11", c15.rule_cx, tu)
    from .. import ffi
    ffi.rule_sig(ctx, "C11.FFI")
    ffi.rule_extent(ctx, "C11.FFI-EXTENT", I, ptr_req)
    rule_env_range(ctx, ctx.py, tu)
    rule_intdiv(ctx, tu)
    rule_fpcast(ctx, tu)
    # shared clause: the index data the engine subscripts with (cell environments, edge end points) is range-checked on the
    # Python side, both ends of the range (C20.EXTIDX)
    from . import c20 as _c20
    borrow(ctx, "C11", _c20.rule_extidx, ctx.py)
    # lifecycle part of memory safety (shared rules, reported under this property's ids)
    flag = c10.find_flag(ctx, tu)
    n0 = len(ctx.insts)
    c10.rule_finalize(ctx, tu, flag)
    c10.rule_live(ctx, tu, flag)
    for i in ctx.insts[n0:]:
        i.rule = i.rule.replace("C10.", "C11.")
    ctx.floors = {k.replace("C10.", "C11."): v for k, v in ctx.floors.items()}
    ctx.analysed["engine"] = tu.meta
    from .. import argorder
    argorder.rule(ctx, "C11.ARGS", py_modules=(), cx=True)
    from .. import lints
    # shared clause: nothing deletes through the type-selected pointer while the type does not identify the live object
    # (C10.TYPE-PTR: a delete through the other kind's stale pointer is a double free)
    from . import c10 as _c10
    borrow(ctx, "C11", _c10.rule_type_ptr, tu)
    # shared clause: the receiving buffers of the fetch methods are sized from the engine object's own copy of the script
    # (C10.OWN): sized from the caller's live object they no longer match what the engine was initialised with
    borrow(ctx, "C11", _c10.rule_own, ctx.py)
    lints.unused(ctx, "C11.PARAMS", ctx.py, (), ctx.cx)
    ctx.assume("int overflow of extent products for huge systems and IEEE division by zero are not decided")
    ctx.assume("the engine is driven through LibRDEngine (lifecycle-respecting call sequences); buffers handed to the "
               "getter exports are sized from engineexport_get_nsamples fetched immediately before")
