"""C04 -- unit invariance: no float crosses a unit boundary unconverted, unit systems are inherited along the
documented chain, every dimensioned setter reads bare numbers in its owner's system, and the engine's arithmetic is
dimensionally homogeneous -- from which covariance under a change of units follows.  Does not decide equality of
the numbers after rounding."""
import ast

from .. import pysym as _pysym
from .. import pyfe, pya, dim, ffi
from ..core import AnalysisError
from . import c12, c20


def value_loads(fn):
    return [n for n in ast.walk(fn) if isinstance(n, ast.Attribute) and n.attr == "value" and isinstance(n.ctx, ast.Load)]


def is_convert_value(n):
    """n = E.convert(U).value  ->  (E, U) else None"""
    v = n.value
    if isinstance(v, ast.Call) and isinstance(v.func, ast.Attribute) and v.func.attr == "convert" and v.args:
        return v.func.value, v.args[0]
    # E.get_at(i).convert(U).value handled by the same form; UnitArray(xs, Units(sys=U, dim=..)).value :
    if isinstance(v, ast.Call) and pyfe.call_name(v) in ("UnitArray", "UnitValue") and len(v.args) >= 2:
        u = v.args[1]
        if isinstance(u, ast.Call) and pyfe.call_name(u) == "Units":
            s = pyfe.arg(u, 0, "sys")
            if s is not None:
                return v.args[0], s
    return None


def enclosing_stmt(n):
    p = n
    while p is not None and not isinstance(p, ast.stmt):
        p = pyfe.parent(p)
    return p


def rule_boundary(ctx, py, tu, R="C04.BOUNDARY"):
    su = py.fn("librdengine.LibRDEngine.setup")
    body = [s for s in su.body]
    srcs = [pyfe.src(s) for s in body]
    # units_system = script.units_system.copy(); molecule override; self._units_system = units_system; then dispatch
    def pos(frag):
        for i, s in enumerate(srcs):
            if frag in s:
                return i
        return None
    p_def, p_mol, p_keep = pos("units_system = script.units_system.copy()"), pos("units_system.quantity = 'molecule'"), \
        pos("self._units_system = units_system")
    p_use = min(i for i, s in enumerate(srcs) if "self._setup_grid(" in s or "self._setup_graph(" in s)
    ctx.check(None not in (p_def, p_mol, p_keep) and p_def < p_mol < p_use and p_mol < p_keep < p_use, R, su, su._qual,
              "engine units = copy of the script's, amount forced to molecule when required, kept for the output, "
              "all before marshalling", "", "the engine units system is not fixed (or the molecule override not applied) "
              "before the values are marshalled / remembered for the output")
    mol = body[p_mol] if p_mol is not None else None
    ctx.check(mol is not None and isinstance(mol, ast.If) and pyfe.src(mol.test) == "self._requires_molecules", R,
              mol or su, su._qual, "molecule override under self._requires_molecules", "", "")
    for q in ("librdengine.LibRDEngine._setup_grid", "librdengine.LibRDEngine._setup_graph"):
        f = py.fn(q)
        calls = [c for c in pyfe.calls_in(f) if isinstance(c.func, ast.Attribute) and c.func.attr.startswith("engineexport_")]
        ctx.need(len(calls) == 1, R, "%s: export call not found" % q)
        cf = tu.fn(calls[0].func.attr)
        for a, p in zip(calls[0].args, cf.params):
            ct = p.get("type", {}).get("qualType", "")
            if "double" not in ct:
                continue
            pt, payload, form = ffi.py_arg(a, f)
            pn = p.get("name")
            if isinstance(payload, ast.Name):       # a table built into a local first
                from .. import pysym
                payload = pysym.inline(payload, f)
            if isinstance(payload, ast.Attribute) and payload.attr == "value":
                cv = is_convert_value(payload)
                ok = cv is not None and pyfe.src(cv[1]) == "units_system"
                ctx.check(ok, R, a, q, "%s <- %s" % (pn, pyfe.src(payload)[:70]), "converted to the engine units system "
                          "before the number is taken", "the number handed to the engine as `%s` is not converted to the "
                          "engine's units system: results depend on the units the model was written in" % pn)
            elif isinstance(payload, ast.Call):
                # builder function: receives units_system and converts inside
                us = [pyfe.src(x) for x in payload.args] + [pyfe.src(k.value) for k in payload.keywords]
                t = [x for x in py.resolve_call(f, payload) if isinstance(x, ast.FunctionDef)]
                ok = "units_system" in us and len(t) == 1
                inner_ok = False
                if ok:
                    vs = value_loads(t[0])
                    inner_ok = bool(vs) and all(is_convert_value(v) is not None and
                                                pyfe.src(is_convert_value(v)[1]) == "units_system" for v in vs)
                ctx.check(ok and inner_ok, R, a, q, "%s <- %s" % (pn, pyfe.src(payload)[:70]),
                          "built by a function that converts every entry to the units system it is given",
                          "the table `%s` is built without converting its entries to the engine's units system" % pn)
            else:
                ctx.error(R, "%s: form of double argument %s not recognised" % (q, pn))
    # the output is re-wrapped with the engine units, then converted to the script's
    for q, dimf in (("librdengine.LibRDEngine._get_t_sample", "time_units_dimensions()"),
                    ("librdengine.LibRDEngine._get_data", "quantity_units_dimensions()")):
        f = py.fn(q)
        rets = [r for r in ast.walk(f) if isinstance(r, ast.Return)]
        # named temporaries (`engine_units = Units(..)`) written out; the array of numbers keeps its name
        s = _pysym.isrc(rets[0].value, f, stop={"values", "data", "t_sample"}).replace(" ", "") if rets else ""
        ok = "units=Units(sys=self._units_system,dim=%s)" % dimf in s and s.endswith(".convert(self._script.units_system)")
        ctx.check(ok, R, rets[0] if rets else f, q, s[:100], "engine numbers labelled with the engine units and dimension, "
                  "then converted to the script's units", "the output is labelled with units other than the ones the engine "
                  "computed in (or with the wrong dimension)")
    ctx.floor(R, 22)


def rule_inherit(ctx, py, R="C04.INHERIT"):
    f = py.fn("value_processing.retrive_units_system_from_dict")
    found = []

    from .. import pysym
    ldefs = pysym.local_defs(f)

    class C(pya.PyFacts):
        def ret(self, s, cfg):
            v = s.src.value
            tbl = v.value if isinstance(v, ast.Subscript) else (v.func.value if isinstance(v, ast.Call) and isinstance(
                v.func, ast.Attribute) and v.func.attr == "get" else None)
            if isinstance(tbl, ast.Name) and isinstance(ldefs.get(tbl.id), ast.Dict):
                # a lookup table {"default": UnitsSystem(), "inherit": parent}[v] is the if-chain on v == key
                key = pyfe.src(v.slice if isinstance(v, ast.Subscript) else v.args[0])
                d_ = ldefs[tbl.id]
                for k_, val in zip(d_.keys, d_.values):
                    found.append((pyfe.src(val), frozenset(cfg) | {("%s == %s" % (key, pyfe.src(k_)), True)}))
                return
            found.append((pyfe.src(v), cfg))
    from .. import ir
    ir.Engine(C(), "must").run(ir.py_to_ir(f.body))
    got = {}
    for r, cfg in found:
        got[r] = cfg
    want = {"UnitsSystem()": ("v == 'default'", True), "parent_units_system": ("v == 'inherit'", True),
            "unitssystem_from_dict(v)": ("isdict(v)", True)}
    for r, fact in want.items():
        ctx.check(r in got and fact in got[r], R, f, f._qual, "%s when %s" % (r, fact[0]), "",
                  "'inherit' / 'default' / explicit units are not resolved as documented")
    first_ = pyfe.first_touching(f, {"d", "v", "default"})
    ctx.check(first_ is not None and pyfe.src(first_).replace(" ", "") == "v=d.get('units',default)", R, f, f._qual, "reads the canonical key "
              "'units' with the caller's default", "", "")
    n = 0
    for rq, wq, cq in c12.PAIRS + [("rdspace.rdspace_from_dict", None, None)]:
        g = py.fn(rq)
        top = rq == "rdscript.rdscript_from_dict"      # the script level has no parent, but its children inherit from it
        if "parent_units_system" not in pyfe.params(g) and not top:
            continue
        isdisp = rq.startswith("rdspace.")
        if not isdisp and not top:
            d = [st for st in ast.walk(g) if isinstance(st, ast.Assign) and pyfe.src(st.targets[0]) == "da['units_system']"]
            ok = len(d) == 1 and isinstance(d[0].value, ast.Call) and \
                pyfe.call_name(d[0].value).endswith("retrive_units_system_from_dict")
            kw = {k.arg: pyfe.src(k.value) for k in d[0].value.keywords} if ok else {}
            ctx.check(ok and kw.get("parent_units_system") == "parent_units_system" and kw.get("default") == "'inherit'" and
                      kw.get("d") == "d", R, d[0] if d else g, rq, "units of this level = retrive(d, 'inherit', parent)",
                      "", "this level's units system is not resolved from its own dictionary with the parent as fallback")
            n += 1
        for c in pyfe.calls_in(g):
            nm = pyfe.call_name(c)
            base = nm.split(".")[-1]
            if (base.endswith("_from_dict") and base not in ("unitarray_from_dict", "unitssystem_from_dict",
                                                               "retrive_units_system_from_dict")) or \
                    base.startswith("load_rd"):
                t = [x for x in py.resolve_call(g, c) if isinstance(x, ast.FunctionDef)]
                if not t or "parent_units_system" not in pyfe.params(t[0]):
                    continue
                i = pyfe.params(t[0]).index("parent_units_system")
                a = pyfe.arg(c, i, "parent_units_system")
                want_a = "parent_units_system" if isdisp else "da['units_system']"
                n += 1
                ctx.check(a is not None and pyfe.src(a) == want_a, R, c, rq, "%s(..., %s)" % (base, pyfe.src(a) if a is not None else "-"),
                          "the child inherits this level's units system", "a nested object inherits %s instead of the units "
                          "system declared at this level" % (pyfe.src(a) if a is not None else "the default"))
    for q in ("rdnetwork.load_rdnetwork", "rdspace.load_rdspace", "rdsystem.load_rdsystem"):
        g = py.fn(q)
        for c in pyfe.calls_in(g):
            if pyfe.call_name(c).endswith("_from_dict"):
                t = [x for x in py.resolve_call(g, c) if isinstance(x, ast.FunctionDef)]
                i = pyfe.params(t[0]).index("parent_units_system")
                a = pyfe.arg(c, i, "parent_units_system")
                n += 1
                ctx.check(a is not None and pyfe.src(a) == "parent_units_system", R, c, q, pyfe.src(c)[:80],
                          "the loader passes its parent's units system through", "a file loaded from a parent loses the "
                          "parent's units system")
    # the script level: explicit or default, never inherited
    g = py.fn("rdscript.rdscript_from_dict")
    d = [st for st in ast.walk(g) if isinstance(st, ast.Assign) and pyfe.src(st.targets[0]) == "da['units_system']"]
    kw = {k.arg: pyfe.src(k.value) for k in d[0].value.keywords} if d else {}
    ctx.check(kw.get("default") == "'default'", R, d[0] if d else g, g._qual, "script level defaults to the default system", "", "")
    ctx.floor(R, 24)


def rule_owner(ctx, py):
    R = "C04.OWNER"
    for q in c20.DIMS:
        f = py.fn(q)
        used = set()
        for c in pyfe.calls_in(f):
            nm = pyfe.call_name(c).split(".")[-1]
            if nm == "process_unitvar_input":
                used.add(pyfe.src(pyfe.arg(c, 1, "units_system")))
            if nm == "Units":
                used.add(pyfe.src(pyfe.arg(c, 0, "sys")))
        ctx.check(used == {"self.units_system"}, R, f, q, "bare numbers read in %s" % sorted(used), "the owner's own units system",
                  "a dimensioned field interprets bare numbers in %s, not in its owner's units system" % sorted(used))
    # each constructor assigns units_system before the first dimensioned setter
    owners = sorted({q.rsplit(".", 2)[0] for q in c20.DIMS})
    for cq in owners:
        init = py.fn(cq + ".__init__")
        fields = {q.split(".")[-2] for q in c20.DIMS if q.startswith(cq + ".")}
        order = []
        for st in init.body:
            if isinstance(st, ast.Assign) and isinstance(st.targets[0], ast.Attribute) and pyfe.src(st.targets[0].value) == "self":
                order.append(st.targets[0].attr)
            elif isinstance(st, ast.Expr) and isinstance(st.value, ast.Call) and pyfe.call_name(st.value) == "self.set_k":
                order += ["kf", "kr"]
            elif isinstance(st, ast.If):
                for x in ast.walk(st):
                    if isinstance(x, ast.Assign) and isinstance(x.targets[0], ast.Attribute) and pyfe.src(x.targets[0].value) == "self":
                        order.append(x.targets[0].attr)
                    if isinstance(x, ast.Call) and pyfe.call_name(x) in ("self.set_default_state",):
                        order.append("state")
        ok = "units_system" in order and all(order.index("units_system") < order.index(fd) for fd in fields if fd in order)
        ctx.check(ok, R, init, cq + ".__init__", "units_system assigned before %s" % sorted(fields), "", "a dimensioned field "
                  "is set before the object's units system: bare numbers are read in a stale / missing system")
    ctx.floor(R, 19)


def classify_value(n, fn):
    """why this `.value` is unit-safe, else None"""
    cv = is_convert_value(n)
    st = enclosing_stmt(n)
    ssrc = pyfe.src(st) if st is not None else ""
    owner = pyfe.src(n.value)
    if cv is not None:
        return "taken after conversion to %s" % pyfe.src(cv[1])
    # compared with the literal 0: independent of units
    p = pyfe.parent(n)
    if isinstance(p, ast.Compare) and all(isinstance(c, ast.Constant) and c.value == 0 for c in p.comparators):
        return "compared with 0 (unit-independent)"
    # value and units of the same object used together
    if owner + ".units" in ssrc:
        return "re-wrapped with the units of the same object (%s.units)" % owner
    f_src = pyfe.src(fn)
    if isinstance(p, ast.Subscript) or (isinstance(p, ast.Attribute) and p.attr == "reshape") or \
            (isinstance(p, ast.Call)):
        # element access / reshape of X.value where the function re-wraps with X.units later
        if owner + ".units" in f_src:
            return "numbers of %s, re-wrapped with %s.units in the same function" % (owner, owner)
    # defined from a conversion:  dx = UnitArray(...).convert(state.units) ; state.value[i] += dx.value[i]
    if isinstance(n.value, ast.Name):
        for d in ast.walk(fn):
            if isinstance(d, ast.Assign) and pyfe.src(d.targets[0]) == n.value.id and isinstance(d.value, ast.Call) and \
                    isinstance(d.value.func, ast.Attribute) and d.value.func.attr == "convert":
                tgt = pyfe.src(d.value.args[0])
                if tgt.endswith(".units") and tgt[:-6] + ".value" in ssrc:
                    return "converted to %s, combined with %s.value" % (tgt, tgt[:-6])
    # produced by a callee that was handed the units system U, and re-wrapped with Units(U, ...) here
    if isinstance(n.value, ast.Name):
        for d in ast.walk(fn):
            if isinstance(d, ast.Assign) and pyfe.src(d.targets[0]) == n.value.id and isinstance(d.value, ast.Call):
                args = [pyfe.src(a) for a in d.value.args] + [pyfe.src(k.value) for k in d.value.keywords]
                for u in args:
                    if u.endswith("units_system") and ("Units(%s," % u) in f_src.replace(" ", "").replace("sys=", ""):
                        return "computed by %s in %s and re-wrapped with Units(%s, ...)" % (pyfe.call_name(d.value), u, u)
    return None


def rule_state(ctx, py):
    R = "C04.STATE"
    n = 0
    for m in py.mods.values():
        if m.name in ("units",):
            continue
        for f in m.funcs.values():
            if f._cls is None and any(pyfe.parent(f) is not m.tree for _ in [0]) and pyfe.enclosing_fn(f) is not None:
                continue
            for v in value_loads(f):
                # skip `.value` of non-quantities (dict entries named value etc.)
                if isinstance(v.value, ast.Name) and v.value.id in ("node", "self") and m.name != "rdsystem":
                    pass
                why = classify_value(v, f)
                n += 1
                st = enclosing_stmt(v)
                ctx.check(why is not None, R, v, f._qual, pyfe.src(st)[:100] if st is not None else pyfe.src(v), why or "",
                          "the bare number of `%s` is used without a conversion to a known units system and without the "
                          "units of the same object: the result depends on the units the quantity happens to be stored in"
                          % pyfe.src(v.value))
    ctx.floor(R, 30)


def rule_one_system(ctx, py, R="C04.ONE-SYSTEM"):
    """a function that is told the units system to work in (a parameter named units_system) converts every quantity whose number
    it extracts to *that* system: mixing it with another system (the object's own, the default) makes the result depend on the
    units the model happens to be written in"""
    n = 0
    for f in py.all_funcs():
        if "units_system" not in pyfe.params(f) or getattr(f, "_role", "") == "setter" or f.name == "__init__":
            continue
        for v in value_loads(f):
            cv = is_convert_value(v)
            if cv is None:
                continue
            u = pyfe.src(cv[1])
            if u.startswith("Units(") or u.startswith("self.units") and False:
                continue
            n += 1
            okk = u in ("units_system",) or u.startswith("Units(units_system") or u.startswith("Units(sys=units_system")
            ctx.check(okk, R, v, f._qual, pyfe.src(v)[:80], "converted to the requested units system",
                      "the number is taken after a conversion to `%s`, while the function was asked to work in `units_system`: the "
                      "numbers it combines are in different units" % u)
    ctx.floor(R, 10)


def run(ctx):
    # package-wide disciplines first: they need no anchor, and what they find stands whatever the rules below can analyse
    from .. import lints
    lints.run(ctx, "C04", ctx.py, ["units", "librdengine", "rdsystem", "coarsegrain", "value_processing", "rdnetwork", "rdgridspace", "rdgraphspace", "rdscript", "kinetics"])
    py, tu = ctx.py, ctx.cx
    rule_boundary(ctx, py, tu)
    dim.rule_all(ctx, tu, "C04.HOMOG")
    ctx.floor("C04.HOMOG", 6)
    rule_inherit(ctx, py)
    rule_owner(ctx, py)
    rule_state(ctx, py)
    rule_one_system(ctx, ctx.py)
    from . import c05, c12
    c05.rule_ctor_label(ctx, ctx.py, "C04.CTOR")
    c12.rule_unitstr(ctx, ctx.py, "C04.SERIAL")
    # shared clauses: the conversion itself (C06: SI table, product-of-ratios factor, dimension guard, argument order)
    from ..core import borrow
    from . import c06
    borrow(ctx, "C04", c06.rule_si, ctx.py)
    from . import c12 as _c12
    borrow(ctx, "C04", _c12.rule_schema, ctx.py)      # a units declaration is found under every alias of its key
    borrow(ctx, "C04", c06.rule_derived, ctx.py)      # litre / molar symbols keep their SI meaning: "2 pL" is 2e-15 m3
    borrow(ctx, "C04", c06.rule_keys, ctx.py)
    borrow(ctx, "C04", c06.rule_dimguard, ctx.py)
    borrow(ctx, "C04", c06.rule_convert_args, ctx.py, "C04.ARGS-CONV")
    from .. import ffi
    ffi.rule_sig(ctx, "C04.FFI")
    ctx.assume("equality of the numbers after rounding is not decided; the dimensions assumed for the marshalled inputs "
               "are those of the Python arguments in the same FFI positions (C20.DIMS)")
