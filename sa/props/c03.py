"""C03 -- chemostats: every engine write to an amount is guarded by the flag of that very entry; the flag is read
nowhere else; the map is transposed like the state; every Python subscript of the species-major arrays uses a
species*size+cell index built from the function's own species and position; tested flag = updated entry.
Does not decide equality with the recorded initial value beyond "never written"."""
import ast

from .. import cxfe, cxa, idx as idxmod, vlay, pyfe, pya, pykind, ir
from ..cxfe import kids, strip, walk, text, name_of, subscript
from ..core import AnalysisError

FLAG_READERS_OK = {"Compute_dxdt", "Apply_nevt", "ApplyReaction", "ApplyDiffusion"}
FLAG_READERS_FORBIDDEN = {"ReactionRate", "ReactionProp", "DiffusionRate", "DiffusionRateDifference", "DiffusionProp",
                          "ComputePropensities", "Compute_nevt", "DrawAndApplyEvent", "Build_mesh_kr", "Build_mesh_kd"}


def rule_guard_id(ctx, tu):
    R = "C03.GUARD-ID"
    n_x = n_d = 0
    for c in tu.classes.values():
        for m in c.methods.values():
            if m.body is None or m.name == "Init":
                continue
            recs = []

            def on_atom(node, facts, recs=recs):
                for x in walk(node):
                    for s in cxa.stores_of_node(x):
                        if s.base in (("field", "mesh_x"), ("field", "mesh_dxdt")) and subscript(s.target) is not None:
                            recs.append((s, frozenset(facts)))
            cxa.canon_facts(m.body, on_atom=on_atom)
            for s, facts in recs:
                I = repr(cxa.poly(subscript(s.target)[1]))
                flag = "mesh_chstt[%s]" % I
                guarded = (flag, False) in facts
                if s.base[1] == "mesh_x":
                    n_x += 1
                    # Euler form: mesh_x[I] += mesh_dxdt[I] * dt  (the derivative is forced to 0 for flagged entries)
                    euler = False
                    if s.op == "+=" and s.rhs is not None:
                        from ..poly import Rat
                        from . import c02
                        got = c02.expr_rat(s.rhs, {})
                        euler = got.equals(Rat.sym("mesh_dxdt[%s]" % I) * Rat.sym("dt"))
                    ctx.check(guarded or euler, R, s.node, m.qual, text(s.node)[:100],
                              "under !%s" % flag if guarded else "adds mesh_dxdt[%s]*dt, which is 0 for flagged entries" % I,
                              "an amount is written without a dominating test of the chemostat flag of the same "
                              "entry (%s): a chemostated entry changes" % flag)
                    # ... and of no other entry: a free entry evolves as the rate law says whatever its neighbours' flags
                    foreign = sorted(t for t, _ in facts if isinstance(t, str) and t.startswith("mesh_chstt[") and t != flag)
                    ctx.check(not foreign, R, s.node, m.qual, text(s.node)[:80] + " (no foreign flag)",
                              "depends on its own flag only", "the update of entry %s also depends on the chemostat flag of "
                              "another entry (%s): a flagged entry stops acting as a source or sink for its neighbours" %
                              (I, ", ".join(foreign)[:120]), nontrivial=False)
                else:
                    n_d += 1
                    zero = s.op == "=" and cxa.const_int(s.rhs) == 0
                    if zero:
                        # must be unconditional inside its loops: no flag fact of any kind
                        cond = any(isinstance(t, str) and "mesh_chstt" in t for t, _ in facts)
                        ctx.check(not cond, R, s.node, m.qual, text(s.node)[:100],
                                  "the derivative is zeroed for every entry before the flag test",
                                  "the zero store is itself conditional on a chemostat flag")
                    else:
                        ctx.check(guarded, R, s.node, m.qual, text(s.node)[:100], "under !%s" % flag,
                                  "a contribution is added to the derivative of an entry without testing its own "
                                  "chemostat flag (%s)" % flag)
    ctx.floor(R, 20)
    ctx.analysed["C03.GUARD-ID"] = {"stores_to_mesh_x": n_x, "stores_to_mesh_dxdt": n_d}


def rule_readers(ctx, tu):
    R = "C03.READERS"
    for c in tu.classes.values():
        for m in c.methods.values():
            if m.body is None or m.name == "Init":
                continue
            reads = [n for n in walk(m.body) if n.get("kind") == "MemberExpr" and n.get("name") == "mesh_chstt"
                     and cxfe.is_this_member(n)]
            if m.name in FLAG_READERS_FORBIDDEN or reads:
                okk = (not reads) or m.name in FLAG_READERS_OK
                ctx.check(okk, R, reads[0] if reads else m.node, m.qual,
                          "%s %s mesh_chstt" % (m.name, "reads" if reads else "does not read"),
                          "the flag only gates the write-back", "a rate / propensity function consults the chemostat "
                          "flag: a flagged entry stops acting as a reactant, source or sink")
    ctx.floor(R, 20)


# ------------------------------------------------------------------------------------------------ Python
ARRAYS = ("chemostats", "_chemostats", "state", "_state")


def array_accesses(fn):
    """(node, array text, index expr) for subscripts / get_at / set_at on the species-major arrays"""
    out = []
    for n in ast.walk(fn):
        if isinstance(n, ast.Subscript):
            b = n.value
            bs = pyfe.src(b)
            last = bs.split(".")[-1]
            if isinstance(b, ast.Name) and b.id == "chemostats":
                # a bare name is the map only if it is a parameter or a copy of the attribute
                defs = [st.value for st in ast.walk(fn) if isinstance(st, ast.Assign) and
                        pyfe.src(st.targets[0]) == "chemostats"]
                is_map = ("chemostats" in pyfe.params(fn) and
                          all(not isinstance(d, (ast.ListComp, ast.List)) for d in defs)) or \
                    any(".chemostats" in pyfe.src(d) and not isinstance(d, (ast.ListComp, ast.List)) for d in defs)
                if is_map:
                    out.append((n, bs, n.slice))
            elif last in ("chemostats", "_chemostats"):
                out.append((n, bs, n.slice))
            elif last == "value" and isinstance(b, ast.Attribute) and pyfe.src(b.value).split(".")[-1] in ("state", "_state"):
                out.append((n, bs, n.slice))
        elif isinstance(n, ast.Call) and isinstance(n.func, ast.Attribute) and n.func.attr in ("get_at", "set_at"):
            bs = pyfe.src(n.func.value)
            if bs.split(".")[-1] in ("state", "_state") and n.args:
                out.append((n, bs + "." + n.func.attr, n.args[0]))
    return out


def own_args(call, fn):
    """is get_state_index / get_chemostat called with the function's own species and position?"""
    a = call.args + [k.value for k in call.keywords]
    srcs = [pyfe.src(x) for x in a]
    return srcs


def rule_py_kind(ctx, py):
    R = "C03.PY-KIND"
    mods = ("kinetics", "rdsystem", "coarsegrain", "rdoutput", "librdengine", "simulate")
    n = 0
    for mn in mods:
        for f in py.mods[mn].funcs.values():
            for node, arr, index in array_accesses(f):
                if isinstance(index, ast.Slice):
                    continue
                k, prov = pykind.kind(index, f, node)
                n += 1
                what = "%s[%s]" % (arr, pyfe.src(index)[:50])
                if k == "flat":
                    ctx.ok(R, node, f._qual, what, "index is species*size + cell (%s)" %
                           ("get_state_index" if prov is not None else "polynomial form"))
                elif k == "species" and f._qual == "rdsystem.RDSystem.make_dxdtf":
                    # one named exception: with space.size() == 1 the flat index equals the species index
                    guard = False
                    for st in f.body:
                        if isinstance(st, ast.If) and "self.space.size() != 1" in pyfe.src(st.test) and \
                                any(isinstance(b, ast.Raise) for b in st.body):
                            guard = True
                    ctx.check(guard, R, node, f._qual, what, "species index under the dominating size()==1 guard",
                              "species index used as a state index without the single-cell guard")
                elif k is None:
                    ctx.error(R, "index kind of %s in %s not recognised" % (what, f._qual))
                else:
                    ctx.violation(R, node, f._qual, what, "the species-major array is addressed with a `%s` index; "
                                  "expected species*size + cell (get_state_index of this species and cell): the flag "
                                  "/ amount of another entry is consulted" % k)
    # calls of the per-entry accessors with the function's own (species, position)
    for q in ("kinetics._compute_dspeciesdt_grid", "kinetics._compute_dspeciesdt_graph"):
        f = py.fn(q)
        calls = [c for c in pyfe.calls_in(f) if pyfe.call_name(c).endswith("get_chemostat") or
                 pyfe.call_name(c).endswith("get_state_index")]
        for c in calls:
            a = [pyfe.src(x) for x in c.args] + ["%s=%s" % (k.arg, pyfe.src(k.value)) for k in c.keywords]
            okk = len(c.args) >= 2 and pyfe.src(c.args[0]) in ("species", "species_index") and \
                pyfe.src(c.args[1]) in ("position",)
            n += 1
            ctx.check(okk, R, c, q, pyfe.src(c)[:70], "the function's own species and position",
                      "the flag consulted is not the one of this species at this position")
    ctx.floor(R, 12)


def rule_flag_id(ctx, py):
    R = "C03.FLAG-ID"
    f = py.fn("rdsystem.RDSystem.apply_reaction")
    recs = []

    def on(node, facts):
        if isinstance(node, ast.AugAssign) and isinstance(node.target, ast.Subscript) and \
                pyfe.src(node.target.value) == "state.value":
            recs.append((node, facts))
    pya.must_facts(f, on_stmt=on)
    ctx.need(len(recs) == 1, R, "apply_reaction: the state update statement not found")
    node, facts = recs[0]
    i = pyfe.src(node.target.slice)
    ctx.check(("chemostats[%s] == 0" % i, True) in facts, R, node, f._qual, pyfe.src(node),
              "updated only where chemostats[%s] == 0 (same index)" % i,
              "the entry updated and the flag tested use different indices (or no flag is tested)")
    k, prov = pykind.kind(node.target.slice, f, node)
    okk = k == "flat" and prov is not None and len(prov.args) == 2 and pyfe.src(prov.args[1]) == "position"
    ctx.check(okk, R, node, f._qual, "index = " + (pyfe.src(prov) if prov is not None else "?"),
              "state index of (species i, the given position)", "index not built from the species loop and `position`")
    lk = pykind.kind(prov.args[0], f, node)[0] if prov is not None and prov.args else None
    ctx.check(lk == "species", R, node, f._qual, "species argument %s" % (pyfe.src(prov.args[0]) if prov is not None else "?"),
              "ranges over the species", "does not range over the species")
    ctx.check(pyfe.src(node.value) == "dx.value[%s]" % pyfe.src(prov.args[0]), R, node, f._qual,
              "increment " + pyfe.src(node.value), "net stoichiometry of the same species", "increment of another species")
    # make_dxdtf: the factor of dxdt[s] is built from the flag of species s
    g = py.fn("rdsystem.RDSystem.make_dxdtf")
    from .. import pynorm
    g = pynorm.renamed(g, pynorm.dxdtf_roles(g))     # locals identified by what they are defined as
    inner = [n for n in ast.walk(g) if isinstance(n, ast.FunctionDef) and n is not g]
    ctx.need(len(inner) == 1, R, "make_dxdtf: inner function not found")
    d = inner[0]
    mul = [n for n in ast.walk(d) if isinstance(n, ast.AugAssign) and isinstance(n.op, ast.Mult) and
           pyfe.src(n.target).startswith("dxdt[")]
    ctx.need(len(mul) == 1, R, "make_dxdtf: `dxdt[s] *= ...` not found")
    s = pyfe.src(mul[0].target.slice)
    ctx.check(pyfe.src(mul[0].value) == "chemostats[%s]" % s, R, mul[0], g._qual, pyfe.src(mul[0]),
              "multiplied by the factor of the same species", "factor of another species")
    cd = [n for n in ast.walk(g) if isinstance(n, ast.Assign) and pyfe.src(n.targets[0]) == "chemostats"]
    okk = len(cd) == 1 and isinstance(cd[0].value, ast.ListComp) and \
        pyfe.src(cd[0].value.elt).replace(" ", "") == "1-self.chemostats[%s]" % pyfe.src(cd[0].value.generators[0].target)
    ctx.check(okk, R, cd[0] if cd else g, g._qual, pyfe.src(cd[0])[:70] if cd else "?", "factor = 1 - flag of species i",
              "factor not 1 - flag of the same species")
    # last statement ordering: the multiplication follows the accumulation loop over reactions
    ctx.floor(R, 6)


def rule_py_zero(ctx, py):
    """C03.PY-ZERO -- the per-entry derivative of the kinetics functions: every path that returns a computed rate has passed
    the chemostat test of this entry with a negative answer, and the positive answer returns zero.  (Which entry is tested is
    C03.PY-KIND.)"""
    R = "C03.PY-ZERO"
    from .. import pysym
    for q in ("kinetics._compute_dspeciesdt_grid", "kinetics._compute_dspeciesdt_graph"):
        f = py.fn(q)
        rets = []

        class C(pya.PyFacts):
            def ret(self, s, cfg):
                rets.append((s.src, cfg))
        ir.Engine(C(), "must").run(ir.py_to_ir(f.body))
        ctx.need(rets, R, "%s: no return reached" % q)
        zero_seen = False
        for node, cfg in rets:
            t = pyfe.src(node.value).replace(" ", "") if node.value is not None else ""
            is_zero = t.startswith("UnitValue(0,") or t.startswith('UnitValue("0') or t.startswith("UnitValue('0")
            tested_no = any(pol is False and isinstance(a, str) and "get_chemostat(" in a for a, pol in cfg)
            tested_yes = any(pol is True and isinstance(a, str) and "get_chemostat(" in a and " and " not in a and " or " not in a
                             for a, pol in cfg)
            if is_zero:
                zero_seen = zero_seen or tested_yes
                ctx.check(tested_yes, R, node, q, "return 0 where the entry is chemostated", "",
                          "zero is returned on a path that has not found the entry chemostated")
            else:
                ctx.check(tested_no, R, node, q, "return %s" % pyfe.src(node.value)[:50], "reached only past the chemostat test "
                          "of this entry, answered no, on every path", "a path returns the computed rate without having tested "
                          "the chemostat flag of the entry (for instance when a loop that contains the test runs zero times): a "
                          "chemostated entry gets a non-zero derivative")
        ctx.check(zero_seen, R, f, q, "a chemostated entry yields zero", "", "no path returns zero for a chemostated entry")
    ctx.floor(R, 6)


def run(ctx):
    tu, py = ctx.cx, ctx.py
    rule_guard_id(ctx, tu)
    rule_readers(ctx, tu)
    I = idxmod.Idx(tu)
    vlay.check_init_layouts(ctx, "C03.TRANSPOSE", tu, I, what=("mesh_chstt",))
    ctx.floor("C03.TRANSPOSE", 2)
    rule_py_kind(ctx, py)
    rule_flag_id(ctx, py)
    rule_py_zero(ctx, py)
    # the map the engines consult is the map of the system: it crosses the ctypes boundary as an int array built by
    # make_ctypes_array(..., c_int) (a raw numpy buffer is int64 on this platform: every flag but the first lands elsewhere)
    from .. import ffi
    ffi.rule_sig(ctx, "C03.FFI", only={"mesh_chstt"})
    ctx.floor("C03.FFI", 2)
    # shared clauses: the flat index of a (species, cell) entry (C13.INDEX) and the cell index of a position (C15.RADIX / ENT)
    from ..core import borrow
    from . import c13, c15
    borrow(ctx, "C03", c13.rule_index, ctx.py)
    borrow(ctx, "C03", c15.rule_radix_py, ctx.py)
    # shared clause: the samples handed to the caller are the ones the engine recorded (C09.FETCH-PY)
    from . import c09 as _c09
    borrow(ctx, "C03", _c09.rule_fetch_py, ctx.py)
    # shared clause: the Euler passes -- a flagged entry is skipped as a whole, every other entry receives every exchange (C01.PHASE)
    from . import c01 as _c01
    borrow(ctx, "C03", _c01.rule_phase, tu, cxa.Effects(tu))
    from .. import lints
    # shared clauses: no bare number of a quantity is taken without a conversion (C04.STATE: the zero of a chemostated entry and
    # the derivative of a free one must be in one unit); free entries follow the tau-leap firing law (C07.TAU)
    from . import c04 as _c04, c07 as _c07
    borrow(ctx, "C03", _c04.rule_state, ctx.py)
    borrow(ctx, "C03", _c07.rule_tau, tu)
    lints.run(ctx, "C03", ctx.py, ["kinetics", "rdsystem", "librdengine", "rdscript", "simulate"], truth_floor=24)
    ctx.assume("equality with the recorded initial value is decided only as 'never written after Init' "
               "(t = 0 processing is C14)")
