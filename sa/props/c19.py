"""C19 -- reaction equations: rate-constant dimensions as affine forms in the order, which side each accessor
reads, split / equilibrium constant wiring, accumulation of repeated labels, validity checks at construction,
the stoichiometric matrices handed to the engine.  Does not decide parsing of arbitrary equations."""
import ast

from .. import pyfe, pya
from ..poly import Poly
from .c15 import py_poly
from . import c20

RX = "rdnetwork.Reaction."


def side_reads(f):
    s = pyfe.src(f)
    return {"sub": "_substrates" in s or ".substrates" in s, "prod": "_products" in s or ".products" in s}


def coefficient_sum(f0, sides):
    """is some local of f0 the sum of the coefficients of self.<one of sides>?  Loop and sum() forms are read alike.
    -> (accumulator name or None, explanation)"""
    from .. import pysym, pynorm
    from ..poly import Rat
    f = pynorm.desummed(f0)
    loops = [x for x in ast.walk(f) if isinstance(x, ast.For)]
    if len(loops) != 1:
        return None, "coefficient loop not found"
    lp = loops[0]
    accs = {pyfe.src(x.target) for x in ast.walk(lp) if isinstance(x, ast.AugAssign)} | \
           {pyfe.src(x.targets[0]) for x in ast.walk(lp) if isinstance(x, ast.Assign)}
    if len(accs) != 1:
        return None, "accumulator not identified (%s)" % sorted(accs)
    acc = list(accs)[0]
    try:
        step = pysym.one_iteration(lp.body, f, acc) - Rat.sym("ACC")
    except pysym.NotModelled as e:
        return None, str(e)
    it, tg = pyfe.src(lp.iter), pyfe.src(lp.target)
    ok = False
    for side in sides:
        ok = ok or (it in ("list(self.%s)" % side, "self.%s" % side, "self.%s.keys()" % side, "list(self.%s.keys())" % side) and
                    step.equals(Rat.sym("self.%s[%s]" % (side, tg)))) or \
            (it in ("self.%s.values()" % side, "list(self.%s.values())" % side) and step.equals(Rat.sym(tg))) or \
            (it in ("self.%s.items()" % side, "list(self.%s.items())" % side) and isinstance(lp.target, ast.Tuple) and
             step.equals(Rat.sym(pyfe.src(lp.target.elts[1]))))
    init = [x for x in f.body if isinstance(x, ast.Assign) and pyfe.src(x.targets[0]) == acc and pyfe.src(x.value) == "0"]
    if not (ok and len(init) == 1):
        return None, "loop over %s adds %r per pass" % (it, step)
    return acc, ""


def rule_dims(ctx, py):
    R = "C19.DIMS"
    from .. import pysym
    from ..poly import Rat
    for name, side in (("kf_units_dimensions", "_substrates"), ("kr_units_dimensions", "_products")):
        from .. import pynorm
        f = pynorm.desummed(py.fn(RX + name))      # n = sum(...) is read as the loop it abbreviates
        rets = [r for r in ast.walk(f) if isinstance(r, ast.Return)]
        ctx.need(len(rets) == 1 and isinstance(rets[0].value, ast.Call), R, "%s: return not recognised" % name)
        # the accumulator: the one local that is updated inside the loop
        loops = [x for x in ast.walk(f) if isinstance(x, ast.For)]
        ctx.need(len(loops) == 1, R, "%s: coefficient loop not found" % name)
        accs = {pyfe.src(x.target) for x in ast.walk(loops[0]) if isinstance(x, ast.AugAssign)} | \
               {pyfe.src(x.targets[0]) for x in ast.walk(loops[0]) if isinstance(x, ast.Assign)}
        ctx.need(len(accs) == 1, R, "%s: accumulator not identified (%s)" % (name, sorted(accs)))
        acc = list(accs)[0]
        kw = {k.arg: pysym.frat(k.value, f, stop={acc}) for k in rets[0].value.keywords}
        n = Rat.sym(acc)
        want = {"space": Rat.const(3) * n - Rat.const(3), "time": Rat.const(-1), "quantity": Rat.const(1) - n}
        for k, w in want.items():
            ctx.check(k in kw and kw[k].equals(w), R, rets[0], f._qual, "%s: %s = %s" % (name, k, pyfe.src(
                [x.value for x in rets[0].value.keywords if x.arg == k][0]) if k in kw else "?"),
                "amount^(1-n) length^(3n-3) / time", "exponent of %s is %r, expected %r (n = order)" % (k, kw.get(k), w))
        # n = sum of the coefficients of that side: one loop pass adds one coefficient of self.<side>
        try:
            step = pysym.one_iteration(loops[0].body, f, acc) - Rat.sym("ACC")
        except pysym.NotModelled as e:
            ctx.error(R, "%s: %s" % (name, e))
        it, tg = pyfe.src(loops[0].iter), pyfe.src(loops[0].target)
        ok = (it in ("list(self.%s)" % side, "self.%s" % side, "self.%s.keys()" % side) and
              step.equals(Rat.sym("self.%s[%s]" % (side, tg)))) or \
             (it == "self.%s.values()" % side and step.equals(Rat.sym(tg))) or \
             (it == "self.%s.items()" % side and isinstance(loops[0].target, ast.Tuple) and
              step.equals(Rat.sym(pyfe.src(loops[0].target.elts[1]))))
        init = [x for x in f.body if isinstance(x, ast.Assign) and pyfe.src(x.targets[0]) == acc and pyfe.src(x.value) == "0"]
        ctx.check(ok and len(init) == 1, R, f, f._qual, "%s: n = sum of the coefficients of self.%s" % (name, side), "",
                  "the order is not the coefficient sum of %s (loop over %s adds %r per pass)" % (side, it, step))
    ctx.floor(R, 8)


def rule_sides(ctx, py):
    R = "C19.SIDES"
    want = {"order": "sub", "ssto": "sub", "get_substrate_stoichiometry": "sub", "kf_units_dimensions": "sub",
            "rorder": "prod", "psto": "prod", "get_product_stoichiometry": "prod", "kr_units_dimensions": "prod"}
    for name, side in want.items():
        f = py.fn(RX + name)
        r = side_reads(f)
        ok = r[side] and not r["prod" if side == "sub" else "sub"]
        ctx.check(ok, R, f, f._qual, "%s reads the %s side only" % (name, "reactant" if side == "sub" else "product"),
                  "", "%s reads %s" % (name, [k for k, v in r.items() if v]))
    for name, helper in (("kf.setter", "self.kf_units_dimensions()"), ("kr.setter", "self.kr_units_dimensions()")):
        f = py.fn(RX + name)
        ctx.check(helper in pyfe.src(f), R, f, f._qual, "%s uses %s" % (name, helper), "", "constant checked against "
                  "the dimension of the other direction")
    f = py.fn(RX + "dsto")
    lc = [n for n in ast.walk(f) if isinstance(n, ast.ListComp)]
    ctx.need(len(lc) == 1, R, "dsto: comprehension not found")
    e = lc[0].elt
    ok = isinstance(e, ast.BinOp) and isinstance(e.op, ast.Sub) and "_products" in pyfe.src(e.left) and \
        "_substrates" in pyfe.src(e.right)
    ctx.check(ok, R, e, f._qual, pyfe.src(e)[:80], "net change = products - reactants", "net change is not products "
              "minus reactants")
    for name in ("ssto", "psto", "dsto"):
        f = py.fn(RX + name)
        lc = [n for n in ast.walk(f) if isinstance(n, ast.ListComp)]
        ok = len(lc) == 1 and pyfe.src(lc[0].generators[0].iter) == "species_labels" and \
            all(pyfe.src(c.args[0]) == pyfe.src(lc[0].generators[0].target) and pyfe.src(c.args[1]) == "0"
                for c in pyfe.calls_in(lc[0]) if isinstance(c.func, ast.Attribute) and c.func.attr == "get")
        ctx.check(ok, R, f, f._qual, "%s: one entry per label of species_labels, 0 when absent" % name, "", "")
    # order / rorder sum the coefficients
    for name, side in (("order", "substrates"), ("rorder", "products")):
        f = py.fn(RX + name)
        acc, why = coefficient_sum(f, (side, "_" + side))
        from .. import pynorm
        rets = [r_ for r_ in ast.walk(pynorm.desummed(f)) if isinstance(r_, ast.Return) and r_.value is not None]
        ok = acc is not None and len(rets) == 1 and pyfe.src(rets[0].value) == acc
        ctx.check(ok, R, f, f._qual, "%s = sum of %s coefficients" % (name, side), "", "%s is not the coefficient sum of the %s (%s)"
                  % (name, side, why or "the sum is not what is returned"))
    ctx.floor(R, 16)


def rule_split(ctx, py):
    R = "C19.SPLIT"
    f = py.fn(RX + "split")
    calls = {pyfe.src(st.targets[0]): st.value for st in f.body if isinstance(st, ast.Assign) and
             isinstance(st.value, ast.Call) and pyfe.call_name(st.value) == "Reaction"}
    ctx.need(set(calls) == {"fwd", "rev"}, R, "split: fwd / rev constructions not found")
    want = {"fwd": ("[self._substrates, self._products]", "self.kf"), "rev": ("[self._products, self._substrates]", "self.kr")}
    for k, (sto, kf) in want.items():
        kw = {x.arg: pyfe.src(x.value) for x in calls[k].keywords}
        ok = kw.get("stoichiometry") == sto and kw.get("kf") == kf and kw.get("kr") == "0" and \
            kw.get("units_system") == "self.units_system"
        ctx.check(ok, R, calls[k], f._qual, "%s = Reaction(%s, kf=%s, kr=%s, units=%s)" %
                  (k, kw.get("stoichiometry"), kw.get("kf"), kw.get("kr"), kw.get("units_system")),
                  "irreversible half with its own constant, the parent's units system", "wrong sides / constant / units")
    rets = [r for r in ast.walk(f) if isinstance(r, ast.Return)]
    ctx.check(len(rets) == 1 and pyfe.src(rets[0].value).replace(" ", "") in ("(fwd,rev)", "fwd,rev"), R, rets[0], f._qual,
              "returns (fwd, rev)", "", "order of the pair changed")
    g = py.fn(RX + "equilibrium_constant")
    from .. import pysym
    divs = [n for n in ast.walk(g) if isinstance(n, ast.BinOp) and isinstance(n.op, ast.Div)]

    def side_of(e):
        """('kf' | 'kr', environment key or None) when e is that constant (itself or its value in one environment)"""
        e = pysym.inline(e, g)
        t = pyfe.src(e)
        if t in ("self.kf", "self.kr"):
            return t[5:], None
        if isinstance(e, ast.Call) and pyfe.call_name(e).endswith("get_value_in_env") and len(e.args) >= 2 and \
                pyfe.src(e.args[0]) in ("self.kf", "self.kr"):
            return pyfe.src(e.args[0])[5:], pyfe.src(e.args[1])
        return None, None
    okk = len(divs) >= 2
    for d_ in divs:
        (a, ka), (b, kb) = side_of(d_.left), side_of(d_.right)
        okk = okk and a == "kf" and b == "kr" and ka == kb
    ctx.check(okk, "C19.K", g, g._qual, "K = kf / kr (scalar and per-environment)", "every quotient formed is the forward "
              "constant over the reverse constant of the same environment", "K is not forward over reverse")
    # kr = 0 yields None: every quotient is formed only where its denominator was tested non-zero
    at = {}

    def on(node, facts):
        for d_ in divs:
            if any(x is d_ for x in ast.walk(node)) and not isinstance(node, (ast.If, ast.For, ast.While)):
                at[id(d_)] = (node, set(facts))
    pya.must_facts(g, on_stmt=on)
    okz = len(at) == len(divs)
    for d_ in divs:
        if id(d_) not in at:
            continue
        node, facts = at[id(d_)]
        # conditional expressions between the statement and the quotient contribute their test
        p_, c_ = pyfe.parent(d_), d_
        while p_ is not None and p_ is not node:
            if isinstance(p_, ast.IfExp) and c_ is not p_.test:
                facts |= set(pya.atoms(p_.test, c_ is p_.body))
            p_, c_ = pyfe.parent(p_), p_
        den = pyfe.src(d_.right)
        okz = okz and ((den + ".value == 0", False) in facts or (den + " == 0", False) in facts)
    ctx.check(okz, "C19.K", g, g._qual, "kr = 0 yields None", "every quotient is reached only where its denominator tested "
              "non-zero", "a quotient is formed without the zero test on the reverse constant")
    # the engine splits every reaction and stacks forward, reverse
    h = py.fn("librdengine.LibRDEngine.setup")
    src = pyfe.src(h).replace(" ", "")
    # what the loop over the network's reactions hands to the engine, in order, with locals written out
    okl = False
    for lp in [n for n in ast.walk(h) if isinstance(n, ast.For)]:
        if pysym.isrc(lp.iter, h).replace(" ", "") not in ("script.system.network.reactions", "list(script.system.network.reactions)"):
            continue
        rv = pyfe.src(lp.target)
        emitted = []
        for st in lp.body:
            c_ = st.value if isinstance(st, ast.Expr) and isinstance(st.value, ast.Call) else None
            if c_ is not None and isinstance(c_.func, ast.Attribute) and pyfe.src(c_.func.value) == "reactions" and c_.args:
                t = pysym.isrc(c_.args[0], h).replace(" ", "")
                if c_.func.attr == "append":
                    emitted.append(t)
                elif c_.func.attr == "extend":
                    emitted.append("*" + t)
            elif isinstance(st, ast.AugAssign) and pyfe.src(st.target) == "reactions" and isinstance(st.op, ast.Add):
                emitted.append("*" + pysym.isrc(st.value, h).replace(" ", ""))
        sp = "%s.split()" % rv
        okl = emitted in ([sp + "[0]", sp + "[1]"], ["*" + sp], ["*list(%s)" % sp], ["*[%s[0],%s[1]]" % (sp, sp)])
    ctx.check(okl, R, h, h._qual, "engine reaction list = [fwd0, rev0, fwd1, rev1, ...]", "", "the engine's reaction list is "
              "not the forward / reverse halves of every reaction, in that order")
    ctx.floor(R, 4)


def rule_accum(ctx, py):
    R = "C19.ACCUM"
    f = py.fn(RX + "_fromstring")
    inner = [n for n in ast.walk(f) if isinstance(n, ast.FunctionDef) and n.name == "parse_side"]
    ctx.need(len(inner) == 1, R, "parse_side not found")
    g = inner[0]
    # the table returned, and the stores into it: one of them adds the coefficient to what the label already has
    rn = {r.value.id for r in ast.walk(g) if isinstance(r, ast.Return) and isinstance(r.value, ast.Name)}
    acc, plain = [], []
    for n in ast.walk(g):
        if isinstance(n, ast.AugAssign) and isinstance(n.target, ast.Subscript) and pyfe.src(n.target.value) in rn:
            (acc if isinstance(n.op, ast.Add) and isinstance(n.value, ast.Name) else plain).append(n)
        elif isinstance(n, ast.Assign) and isinstance(n.targets[0], ast.Subscript) and pyfe.src(n.targets[0].value) in rn:
            D_, K_ = pyfe.src(n.targets[0].value), pyfe.src(n.targets[0].slice)
            prior = ("%s.get(%s, 0)" % (D_, K_), "%s[%s]" % (D_, K_), "(%s.get(%s) or 0)" % (D_, K_), "%s.get(%s) or 0" % (D_, K_))
            v_ = n.value
            if isinstance(v_, ast.BinOp) and isinstance(v_.op, ast.Add) and (
                    (pyfe.src(v_.left) in prior and isinstance(v_.right, ast.Name)) or
                    (pyfe.src(v_.right) in prior and isinstance(v_.left, ast.Name))):
                acc.append(n)
            else:
                plain.append(n)
    # a plain store is the first occurrence of a label: it must stand under the test that the label is new
    ctx.check(len(acc) == 1 and len(plain) <= 1, R, acc[0] if acc else g, f._qual, "repeated label: %s" % (
              pyfe.src(acc[0]) if acc else "-"), "repeats are summed", "a repeated species overwrites instead of accumulating")
    # a side is empty only when it is blank: every text the side / its terms are compared with is the empty string.  A word that
    # stands for "nothing" ("0", a symbol) is a possible species label, and a bare number is a term that must be rejected or read
    words = []
    for c_ in ast.walk(g):
        if isinstance(c_, ast.Compare):
            for x in [c_.left] + list(c_.comparators):
                els = x.elts if isinstance(x, (ast.List, ast.Tuple, ast.Set)) else [x]
                for e_ in els:
                    if isinstance(e_, ast.Constant) and isinstance(e_.value, str):
                        words.append((c_, e_.value))
    bad_w = [(c_, w_) for c_, w_ in words if w_.strip() != ""]
    ctx.check(not bad_w, R, bad_w[0][0] if bad_w else g, f._qual, "a side is compared with the empty text only (%d comparisons)" %
              len(words), "blank means empty, every other text is a term", "a side equal to %r is read as empty: a species "
              "carrying that label disappears from the reaction, `%s -> A` no longer names a reactant" % (
                  bad_w[0][1] if bad_w else "", bad_w[0][1] if bad_w else ""))
    sides = [n for n in ast.walk(f) if isinstance(n, ast.Assign) and pyfe.src(n.targets[0]) in
             ("self._substrates", "self._products")]
    got = {pyfe.src(n.targets[0]): pyfe.src(n.value) for n in sides}
    ctx.check(got == {"self._substrates": "parse_side(sides[0])", "self._products": "parse_side(sides[1])"}, R, f,
              f._qual, "left of '->' are the reactants, right the products", "", "sides swapped: %s" % got)
    ctx.check("len(sides) != 2" in pyfe.src(f), R, f, f._qual, "exactly one '->' required", "", "")
    # tokenisation: the equation is cut at '->' and '+', a term at any run of whitespace (the bare str.split()); a split on an
    # explicit blank keeps empty tokens for repeated blanks and does not cut at a tab
    splits = [c for c in ast.walk(f) if isinstance(c, ast.Call) and isinstance(c.func, ast.Attribute) and
              c.func.attr in ("split", "rsplit", "partition", "rpartition")]
    rx = [c for c in ast.walk(f) if isinstance(c, ast.Call) and pyfe.call_name(c) in ("re.fullmatch", "re.match", "re.search",
                                                                                    "re.compile", "re.findall", "re.split")]
    if len(splits) < 3 and rx:
        # a term parsed by a regular expression: the coefficient (digits) and the label must be separated by at least one
        # whitespace character, otherwise the leading digits of a label ("2PG", "5HT") are taken for its coefficient
        import re._parser as sre
        for c in rx:
            pat = c.args[0] if c.args else None
            ctx.need(isinstance(pat, ast.Constant) and isinstance(pat.value, str), R, "_fromstring: regular expression is not a literal")
            try:
                tree = list(sre.parse(pat.value))
            except Exception as e:
                ctx.error(R, "_fromstring: regular expression does not parse: %s" % e)

            def flat(items):
                out = []
                for op, av in items:
                    out.append((op, av))
                return out
            items = flat(tree)
            # locate: <group of digits> <whitespace repeat> <group of non-blanks>; the digits+whitespace may sit in an optional group
            def is_digits(av):
                return "DIGIT" in str(av) or "RANGE, (48, 57)" in str(av)

            def ws_min(items_):
                for op, av in items_:
                    if str(op) in ("MAX_REPEAT", "MIN_REPEAT") and "CATEGORY_SPACE" in str(av[2]) and "NOT_SPACE" not in str(av[2]):
                        return av[0]
                return None
            seq = items
            okk, why = False, "pattern shape not recognised"
            digit_idx = next((i for i, (op, av) in enumerate(seq) if is_digits(av)), None)
            if digit_idx is not None:
                op, av = seq[digit_idx]
                inner = None
                if str(op) == "SUBPATTERN" and av[3] is not None and any("CATEGORY_SPACE" in str(x) and "NOT_SPACE" not in str(x)
                                                                          for x in av[3]):
                    inner = list(av[3])          # (?:(\d+)\s+)  -- whitespace inside the same optional group
                if str(op) in ("MAX_REPEAT",) and av[0] == 0 and av[1] == 1:
                    inner = list(av[2])          # optional group
                m_ = ws_min(inner) if inner is not None else ws_min(seq[digit_idx + 1:digit_idx + 2])
                okk = m_ is not None and m_ >= 1
                why = "between the coefficient digits and the label the pattern requires %s whitespace characters" % (
                    "at least %d" % m_ if m_ is not None else "no")
            ctx.check(okk, R, c, f._qual, "term pattern %r" % pat.value, "coefficient and label separated by whitespace", why +
                      ": the leading digits of a label are read as its coefficient (`2PG` becomes 2 x `PG`)")
        splits = splits + rx
    ctx.need(len(splits) >= 3, R, "_fromstring: the three tokenisation steps ('->', '+', blanks) are not all found")
    seps = []
    for c in splits:
        if c in rx:
            seps.append("<none>")
            continue
        sep = c.args[0] if c.args else next((k.value for k in c.keywords if k.arg == "sep"), None)
        sv = sep.value if isinstance(sep, ast.Constant) else ("<none>" if sep is None else "<expr>")
        if isinstance(sep, ast.Constant) and sep.value is None:
            sv = "<none>"
        seps.append(sv)
        ctx.check(c.func.attr == "split" and sv in ("->", "+", "<none>") and len(c.args) + len(c.keywords) <= 1, R, c, f._qual,
                  "%s" % pyfe.src(c)[:60], "cut at '->', at '+', or at any whitespace",
                  "a term is cut with `%s`: repeated blanks or a tab between a coefficient and its label are not treated as "
                  "one separator, the equation is rejected or the coefficient becomes part of the label" % pyfe.src(c)[:50])
    # a term is `label` or `coefficient label`: the label is one whole whitespace-delimited token, the coefficient the integer
    # value of another whole token (or 1).  A label cut out of a token (leading digits taken as a coefficient, a suffix dropped)
    # changes what `2PG`, `13BPG`, `5HT` mean, and the printed equation no longer reads back as the same reaction
    if acc and not rx:
        a0 = acc[0]
        if isinstance(a0, ast.AugAssign):
            Lv, Cv = pyfe.src(a0.target.slice), pyfe.src(a0.value)
        else:
            Lv = pyfe.src(a0.targets[0].slice)
            Cv = pyfe.src(a0.value.right if isinstance(a0.value.right, ast.Name) else a0.value.left)
        toks = {pyfe.src(st.targets[0]) for st in ast.walk(g) if isinstance(st, ast.Assign) and isinstance(st.value, ast.Call) and
                isinstance(st.value.func, ast.Attribute) and st.value.func.attr == "split" and not st.value.args and
                not st.value.keywords}
        ctx.need(len(toks) == 1, R, "parse_side: the whitespace-split token list is not identified")
        T = list(toks)[0]

        def whole(e):
            while isinstance(e, ast.Call) and isinstance(e.func, ast.Attribute) and e.func.attr == "strip" and not e.args:
                e = e.func.value
            return isinstance(e, ast.Subscript) and pyfe.src(e.value) == T and isinstance(e.slice, ast.Constant)

        pairs = []
        for st in ast.walk(g):
            if isinstance(st, ast.Assign) and len(st.targets) == 1:
                t, v = st.targets[0], st.value
                if isinstance(t, ast.Tuple) and isinstance(v, ast.Tuple) and len(t.elts) == len(v.elts):
                    pairs += [(a, b, st) for a, b in zip(t.elts, v.elts)]
                elif isinstance(t, ast.Tuple):
                    pairs += [(a, None, st) for a in t.elts]
                else:
                    pairs.append((t, v, st))
            elif isinstance(st, (ast.AugAssign, ast.AnnAssign)) and isinstance(st.target, ast.Name):
                pairs.append((st.target, None, st))
        for t, v, st in pairs:
            nm = pyfe.src(t)
            if nm == Lv:
                okk = v is not None and ((isinstance(v, ast.Constant) and v.value == "") or whole(v))
                ctx.check(okk, R, st, f._qual, "%s = %s" % (nm, pyfe.src(v)[:40] if v is not None else "?"), "a whole token",
                          "the species label is not a whole whitespace-delimited token of the term (`%s`): labels that begin "
                          "with digits are split into a coefficient and another species" % (pyfe.src(st)[:60]))
            elif nm == Cv:
                okk = v is not None and ((isinstance(v, ast.Constant) and v.value == 1) or (
                    isinstance(v, ast.Call) and pyfe.call_name(v) == "int" and len(v.args) == 1 and whole(v.args[0])))
                ctx.check(okk, R, st, f._qual, "%s = %s" % (nm, pyfe.src(v)[:40] if v is not None else "?"),
                          "1, or the integer value of a whole token", "the coefficient is not 1 or the integer value of a whole "
                          "token of the term (`%s`)" % pyfe.src(st)[:60])
    ctx.check(sorted(set(seps) & {"->", "+", "<none>"}) == sorted({"->", "+", "<none>"}), R, f, f._qual,
              "separators used: %s" % sorted(set(seps)), "'->' for the sides, '+' for the terms, whitespace inside a term", "")
    ctx.floor(R, 7)


def rule_matrix(ctx, py):
    R = "C19.MATRIX"
    from .. import pysym
    for q, meth in (("librdengine.build_substrate_stoechiometric_matrix", "ssto"),
                    ("librdengine.build_stoechiometric_difference_matrix", "dsto")):
        f = py.fn(q)
        st = [n for n in ast.walk(f) if isinstance(n, ast.Assign) and isinstance(n.targets[0], ast.Subscript)]
        ctx.need(len(st) == 1, R, "%s: element store not found" % q)
        loops = {pyfe.src(n.target): pysym.isrc(n.iter, f) for n in ast.walk(f) if isinstance(n, ast.For)}
        sv = [v for v, it in loops.items() if it == "range(len(species))"]
        rv = [v for v, it in loops.items() if it == "range(len(reactions))"]
        ctx.check(len(sv) == 1 and len(rv) == 1, R, f, q, "loops %s" % loops, "one loop over the species, one over the reactions",
                  "the loops do not range over species and reactions")
        if len(sv) != 1 or len(rv) != 1:
            continue
        s_, r_ = sv[0], rv[0]
        got = pysym.frat(st[0].targets[0].slice, f)
        want = pysym.rat(ast.parse("%s * len(reactions) + %s" % (s_, r_), mode="eval").body)
        v = pysym.isrc(st[0].value, f)
        wantv = "reactions[%s].%s([s.label for s in species])[%s]" % (r_, meth, s_)
        ok = got.equals(want) and v == wantv
        ctx.check(ok, R, st[0], q, pyfe.src(st[0])[:90], "[species][reaction] entry = %s of reaction %s for species %s" % (meth, r_, s_),
                  "entry %r <- %s is not the %s coefficient of (species, reaction) in [species][reaction] layout" % (got, v, meth))
    ctx.floor(R, 4)


def _print_join(ctx, R, f, g, lp):
    """the side built as  SEP.join(terms)  over a list that receives one text per printed term: a separator stands between two
    printed terms by construction; what remains to decide is that a term is appended only for a non-zero coefficient"""
    from .. import pysym
    rets = [r for r in ast.walk(g) if isinstance(r, ast.Return) and r.value is not None]
    if len(rets) != 1:
        return False
    v = rets[0].value
    if isinstance(v, ast.Name) and isinstance(pysym.local_defs(g).get(v.id), ast.AST):
        v = pysym.local_defs(g)[v.id]
    joins = [c for c in ast.walk(v) if isinstance(c, ast.Call) and isinstance(c.func, ast.Attribute) and c.func.attr == "join" and
             isinstance(c.func.value, ast.Constant) and isinstance(c.func.value.value, str) and len(c.args) == 1 and
             isinstance(c.args[0], ast.Name)]
    if len(joins) != 1:
        return False
    L = joins[0].args[0].id
    init = [st for st in g.body if isinstance(st, ast.Assign) and pyfe.src(st.targets[0]) == L]
    if len(init) != 1 or not (isinstance(init[0].value, ast.List) and not init[0].value.elts):
        return False
    ctx.check(joins[0].func.value.value.strip() == "+", R, joins[0], f._qual, "terms joined by %r" % joins[0].func.value.value,
              "one '+' between two printed terms", "the separator is not '+'")
    # the coefficient of the current term: second loop variable over .items(), or D[key]
    coefs = set()
    if isinstance(lp.target, ast.Tuple) and len(lp.target.elts) == 2 and pyfe.src(lp.iter).endswith(".items()"):
        coefs.add(pyfe.src(lp.target.elts[1]))
    elif isinstance(lp.target, ast.Name):
        coefs.add("%s[%s]" % (g.args.args[0].arg, lp.target.id))
    apps = []

    def on(node, facts):
        for c in pyfe.calls_in(node):
            if pyfe.call_name(c) in (L + ".append", L + ".insert", L + ".extend") and not isinstance(node, (ast.For, ast.If)):
                apps.append((c, facts))
    pya.must_facts(g, on_stmt=on)
    other = [x for x in ast.walk(g) if isinstance(x, ast.Name) and x.id == L and isinstance(x.ctx, ast.Store)]
    ok = len(apps) >= 1 and len(other) == 1
    for c, facts in apps:
        ok = ok and pyfe.call_name(c) == L + ".append" and any((k + " == 0", False) in facts for k in coefs)
    ctx.check(ok, R, apps[0][0] if apps else g, f._qual, "a term is appended only when its coefficient is not 0",
              "terms with coefficient 0 are skipped", "a term with coefficient 0 is printed (or the list of terms is filled "
              "elsewhere): '0 A + B -> C' prints a species that does not take part")
    return True


def rule_print(ctx, py):
    """to_string: the '+' separator is emitted iff an earlier term was emitted (terms with coefficient 0 are skipped)"""
    R = "C19.PRINT"
    f = py.fn(RX + "to_string")
    inner = [n for n in ast.walk(f) if isinstance(n, ast.FunctionDef) and n is not f]
    ctx.need(len(inner) == 1, R, "to_string: side encoder not found")
    g = inner[0]
    loops = [n for n in ast.walk(g) if isinstance(n, ast.For)]
    ctx.need(len(loops) == 1, R, "encode_side: term loop not found")
    lp = loops[0]
    if _print_join(ctx, R, f, g, lp):
        ctx.floor(R, 2)
        return
    guards = [n for n in lp.body if isinstance(n, ast.If)]
    ctx.need(len(guards) == 1 and not guards[0].orelse, R, "encode_side: non-zero coefficient guard not found")
    gd = guards[0]
    at = pya.atoms(gd.test, True)
    ctx.check(len(at) == 1 and at[0][1] is False and at[0][0].endswith("== 0"), R, gd, f._qual, "terms with coefficient 0 are "
              "skipped (%s)" % pyfe.src(gd.test), "", "zero-coefficient terms are printed")
    seps = [n for n in gd.body if isinstance(n, ast.If) and "'+" in pyfe.src(n)]
    ctx.need(len(seps) == 1, R, "encode_side: separator emission not found")
    names = {x.id for x in ast.walk(seps[0].test) if isinstance(x, ast.Name)}
    loopvars = {x.id for x in ast.walk(lp.target) if isinstance(x, ast.Name)}
    # the condition may only depend on state that changes when a term is emitted: assigned inside the guard, not a loop target
    assigned_in_guard = {pyfe.src(t) for st in ast.walk(gd) if isinstance(st, (ast.Assign, ast.AugAssign))
                         for t in (st.targets if isinstance(st, ast.Assign) else [st.target])}
    assigned_outside = {pyfe.src(t) for st in lp.body if st is not gd for x in ast.walk(st)
                        if isinstance(x, (ast.Assign, ast.AugAssign))
                        for t in (x.targets if isinstance(x, ast.Assign) else [x.target])}
    ok = bool(names) and not (names & loopvars) and names <= assigned_in_guard | {"string"} and not (names & assigned_outside)
    ctx.check(ok, R, seps[0], f._qual, "separator emitted when %s" % pyfe.src(seps[0].test),
              "depends only on whether an earlier term was emitted", "the separator depends on %s, which advances for skipped "
              "(zero-coefficient) terms too: '0 A + B -> C' prints as '+ B -> C', which the parser rejects"
              % sorted(names & (loopvars | assigned_outside) or names))
    ctx.floor(R, 2)


def run(ctx):
    py = ctx.py
    rule_print(ctx, py)
    n0 = len(ctx.insts)
    c20.rule_wrap(ctx, py)
    for i_ in ctx.insts[n0:]:
        i_.rule = "C19.KDIM"
    ctx.floors.pop("C20.WRAP", None)
    ctx.floor("C19.KDIM", 5)
    rule_dims(ctx, py)
    rule_sides(ctx, py)
    rule_split(ctx, py)
    rule_accum(ctx, py)
    rule_matrix(ctx, py)
    # validity and labels (shared with C20.ENUM)
    f = py.fn("rdnetwork.RDNetwork._assert_validity")
    # the four refusals, recognised by where they stand and what they test (not by the wording of their messages): a raise in a
    # loop over the species / the reactions under a test of `.label`; a raise in a loop over a reaction's reactants / products
    # under a `not in` test
    from .. import pysym as _ps
    kinds = set()
    for r_ in [x for x in ast.walk(f) if isinstance(x, ast.Raise)]:
        loops, tests = [], []
        p_, c_ = pyfe.parent(r_), r_
        while p_ is not None and p_ is not f:
            if isinstance(p_, ast.For):
                loops.append(_ps.isrc(p_.iter, f))
            elif isinstance(p_, ast.If) and any(c_ is b_ for b_ in p_.body):
                tests.append(p_.test)
            p_, c_ = pyfe.parent(p_), p_
        ltxt = " | ".join(loops)
        ttxt = " & ".join(pyfe.src(t_) for t_ in tests)
        notin = any(isinstance(x, ast.Compare) and any(isinstance(o_, ast.NotIn) for o_ in x.ops) for t_ in tests for x in ast.walk(t_))
        if notin and ("_substrates" in ltxt or "substrates" in ltxt):
            kinds.add("undeclared reactant")
        elif notin and ("_products" in ltxt or "products" in ltxt):
            kinds.add("undeclared product")
        elif ".label" in ttxt and "reactions" in ltxt:
            kinds.add("duplicate reaction label")
        elif ".label" in ttxt and "species" in ltxt:
            kinds.add("duplicate species label")
    for what in ("duplicate species label", "duplicate reaction label", "undeclared reactant", "undeclared product"):
        ctx.check(what in kinds, "C19.VALID", f, f._qual, what + " raises", "", "the check is gone")
    # a duplicate is a label met before -- whichever object carries it.  A test by object identity (`found is not s`) lets the
    # same Species / Reaction object listed twice through
    import re as _re
    for r_ in [x for x in ast.walk(f) if isinstance(x, ast.Raise)]:
        in_loop = [pyfe.parent(r_)]
        while in_loop[-1] is not None and in_loop[-1] is not f:
            in_loop.append(pyfe.parent(in_loop[-1]))
        tests_ = " & ".join(pyfe.src(x.test) for x in in_loop if isinstance(x, ast.If))
        if ".label" not in tests_ or " not in " in tests_:
            continue              # not one of the two duplicate refusals
        ats = []
        p_ = pyfe.parent(r_)
        c_ = r_
        while p_ is not None and p_ is not f:
            if isinstance(p_, ast.If):
                ats += pya.atoms(p_.test, any(c_ is b_ for b_ in p_.body))
            p_, c_ = pyfe.parent(p_), p_
        ident = [a for a, pol in ats if isinstance(a, str) and _re.search(r" is (?!None\b)", a)]
        ctx.check(not ident and any("label" in a for a, _ in ats if isinstance(a, str)), "C19.VALID", r_, f._qual,
                  "duplicate test: %s" % "; ".join(a for a, _ in ats if isinstance(a, str))[:70], "decided on the label's value",
                  "the duplicate test compares objects by identity (`%s`): a network that lists the same object twice has two "
                  "entries with one label and is accepted" % (ident[0] if ident else "?"))
    # the equation text reaches the parser as written: whoever calls _fromstring hands it its own argument, not a rewritten copy
    # (replacing other arrow spellings, or any character a label may contain, changes which species the equation names)
    nraw = 0
    for fq in list(py.mods["rdnetwork"].funcs.values()):
        for c in pyfe.calls_in(fq):
            if isinstance(c.func, ast.Attribute) and c.func.attr == "_fromstring" and c.args and isinstance(c.args[0], ast.Name):
                p_ = c.args[0].id
                re_ = [st for st in ast.walk(fq) if isinstance(st, (ast.Assign, ast.AugAssign)) and any(
                    isinstance(t, ast.Name) and t.id == p_ for t in (st.targets if isinstance(st, ast.Assign) else [st.target]))]
                nraw += 1
                ctx.check(not re_ and p_ in pyfe.params(fq), "C19.ACCUM", re_[0] if re_ else c, fq._qual, "_fromstring(%s)" % p_,
                          "the equation text as given", "the equation text is rewritten (`%s`) before it is parsed: a label containing "
                          "the replaced characters no longer names its species, the printed equation does not read back"
                          % (pyfe.src(re_[0])[:50] if re_ else p_))
    ctx.need(nraw >= 1, "C19.ACCUM", "no caller of _fromstring found")
    # the rate-constant dimension test relies on `!=` between dimension objects (shared clause, C06.EQ3)
    from ..core import borrow
    from . import c06 as _c06
    borrow(ctx, "C19", _c06.rule_eq3, py)
    init = py.fn("rdnetwork.RDNetwork.__init__")
    ctx.check(pyfe.src(init.body[-1]) == "self._assert_validity()", "C19.VALID", init, init._qual,
              "construction ends with _assert_validity()", "", "validity not asserted")
    for c in ("Species", "Reaction"):
        g = py.fn("rdnetwork.%s._set_label" % c)
        ctx.check("assert_string_is_a_valid_label(label)" in pyfe.src(g), "C19.LABEL", g, g._qual, "label validated", "", "")
    from .. import ffi
    ffi.rule_sig(ctx, "C19.FFI", only={"sub", "sto", "k", "n_reactions", "n_species"})
    from .. import lints
    lints.run(ctx, "C19", ctx.py, ["rdnetwork", "units", "value_processing"], truth_floor=20)
    ctx.assume("parsing of arbitrary equations and the print-parse round trip are not decided")
