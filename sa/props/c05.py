"""C05 -- quantity arithmetic: the unit bookkeeping of every operator method is a homomorphism (TAG), meaningless
operations end in `raise`, array-array code is dominated by the length test, Units.multiply / invert / raiseto /
__eq__ act component-wise with the law of exponents.  Does not decide value-level correctness of operand order
and sign in reflected operators, nor floating-point exactness."""
import ast

from .. import pyfe, pya, tag, ir
from ..tag import D, V, NUM, Cx, Raises

# method -> expected dimension of the result in terms of D_self / D_v
SPEC = {"__add__": "same", "__radd__": "same", "__sub__": "same", "__rsub__": "same",
        "__mod__": "same", "__rmod__": "same", "_sum": "same", "_modulo": "same", "_rmodulo": "same",
        "__mul__": "sum", "__rmul__": "sum", "_product": "sum", "__truediv__": "diff", "__rtruediv__": "rdiff",
        "__neg__": "self", "__abs__": "self", "__pos__": "self", "invert": "neg", "__pow__": "pow"}
CMP = ["__eq__", "__gt__", "__ge__", "__lt__", "__le__"]


from ..poly import Rat

A_, B_ = Rat.sym("a"), Rat.sym("b")


def operand(kind):
    if kind == "num":
        return V("NUM", extra="v", num=B_)
    return V("Q", "S_v", D({"D_v": 1}), kind, num=B_)


def expected_num(op):
    """magnitude of the result as a function of a = self and b = the other operand (one unit system)"""
    return {"__add__": A_ + B_, "__radd__": B_ + A_, "_sum": A_ + B_, "__sub__": A_ - B_, "__rsub__": B_ - A_,
            "__mul__": A_ * B_, "__rmul__": B_ * A_, "_product": A_ * B_, "__truediv__": A_ / B_,
            "__rtruediv__": B_ / A_, "__mod__": Rat.sym("mod(%r,%r)" % (A_, B_)), "_modulo": Rat.sym("mod(%r,%r)" % (A_, B_)),
            "__rmod__": Rat.sym("mod(%r,%r)" % (B_, A_)), "_rmodulo": Rat.sym("mod(%r,%r)" % (B_, A_)),
            "__neg__": -A_, "__pos__": A_, "__abs__": Rat.sym("abs(%r)" % (A_,)), "invert": Rat.const(1) / A_,
            "__pow__": Rat.sym("pow(%r,%r)" % (A_, B_))}.get(op)


def norm_cmp(t):
    """(relation, x, y) with relation in Lt / LtE / Eq, or None"""
    op, l, r = t
    if op == "Gt":
        return ("Lt", r, l)
    if op == "GtE":
        return ("LtE", r, l)
    if op in ("Lt", "LtE", "Eq"):
        return (op, l, r)
    return None


EXPECT_CMP = {"__lt__": ("Lt", A_, B_), "__le__": ("LtE", A_, B_), "__gt__": ("Lt", B_, A_), "__ge__": ("LtE", B_, A_),
              "__eq__": ("Eq", A_, B_)}


def rule_tag(ctx, py):
    R = "C05.TAG"
    it = tag.Interp(py)
    total = 0
    for cls in ("UnitValue", "UnitArray"):
        cnode = py.cls("units." + cls)
        for op in list(SPEC) + CMP:
            m = it.classes[cls].get(op)
            if m is None:
                continue
            binary = len(m.args.args) > 1
            kinds = ["UnitValue", "UnitArray", "num"] if binary else [None]
            for k in kinds:
                cx = Cx()
                selfv = V("Q", "S_self", D({"D_self": 1}), cls, num=A_)
                env = {"self": selfv}
                if k:
                    env[m.args.args[1].arg] = operand(k)
                try:
                    res = it.run_function(m, env, cx)
                    outcome = repr(res)
                except Raises:
                    res = None
                    outcome = "raises"
                total += 1
                probs = list(cx.problems)
                spec = SPEC.get(op)
                rets = getattr(cx, "all_rets", [res] if res is not None else [])
                # + - % and the comparisons are defined between equal dimensions only: with a quantity operand every result is
                # produced on a path where the operand's dimension was compared with self's (and found equal)
                if k in ("UnitValue", "UnitArray") and (op in CMP or SPEC.get(op) == "same"):
                    for rv, fs in zip(rets, getattr(cx, "all_ret_facts", [])):
                        if rv is not None and rv.kind in ("BOOL", "Q") and not ({("D_v", "D_self"), ("D_self", "D_v")} & set(fs)):
                            probs.append((m.lineno, "a result is returned for a %s operand on a path that has not found its "
                                          "dimension equal to self's: operands of different dimensions do not raise" % k))
                            break
                for rv in rets:
                    if rv is not None and rv.kind == "Q" and spec:
                        Dv = D({"D_v": 1}) if k in ("UnitValue", "UnitArray") else D()
                        Ds = D({"D_self": 1})
                        exp = {"same": Ds, "self": Ds, "sum": Ds + Dv, "diff": Ds + Dv.scale(-1),
                               "rdiff": Dv + Ds.scale(-1), "neg": Ds.scale(-1),
                               "pow": Ds.scale_sym(m.args.args[1].arg if binary else "e")}[spec]
                        okdim = rv.dim is None or cx.dimeq(rv.dim, exp) or \
                            (spec == "same" and k != "num" and rv.dim.key() in (Ds.key(), D({"D_v": 1}).key()))
                        oksys = rv.sys in ("S_self", None)
                        if not okdim:
                            probs.append((m.lineno, "result carries dimension %s, the law of exponents gives %s"
                                          % (rv.dim, exp)))
                        if not oksys:
                            probs.append((m.lineno, "result is labelled with system %s although its number was "
                                          "computed in S_self" % rv.sys))
                        en = expected_num(op)
                        if en is not None and rv.num is None:
                            probs.append((m.lineno, "the magnitude of the result is not an arithmetic expression of the two SI "
                                          "values that the analysis can follow (it goes through an opaque call): the operator is "
                                          "expected to apply the same Python operator to the two magnitudes, %r" % (en,)))
                        if en is not None and rv.num is not None and not rv.num.equals(en):
                            probs.append((m.lineno, "the magnitude is %r (a = self, b = the other operand), arithmetic on "
                                          "the SI values gives %r: wrong operand order or sign" % (rv.num, en)))
                    if rv is not None and rv.kind == "BOOL" and isinstance(rv.extra, tuple) and op in EXPECT_CMP:
                        got = norm_cmp(rv.extra)
                        want = EXPECT_CMP[op]
                        okc = got is not None and got[0] == want[0] and (
                            (got[1].equals(want[1]) and got[2].equals(want[2])) or
                            (want[0] == "Eq" and got[1].equals(want[2]) and got[2].equals(want[1])))
                        if not okc:
                            probs.append((m.lineno, "the comparison evaluates %s(%r, %r), the operator means %s(%r, %r)"
                                          % ((got or rv.extra)[0], (got or rv.extra)[1], (got or rv.extra)[2]) + want))
                what = "%s.%s(%s)" % (cls, op, k or "")
                if probs:
                    line, msg = probs[0]
                    ctx.violation(R, (m._file, line), "units.%s.%s" % (cls, op), what,
                                  msg + (" (+%d more)" % (len(probs) - 1) if len(probs) > 1 else ""))
                else:
                    ctx.ok(R, m, "units.%s.%s" % (cls, op), what, "-> " + outcome)
    ctx.floor(R, 90)
    ctx.analysed["C05.TAG"] = {"cases": total}


def rule_raise(ctx, py):
    """a constructed exception is raised, never returned or dropped (whole units module)"""
    R = "C05.RAISE"
    m = py.mods["units"]
    n = 0
    for f in m.funcs.values():
        for node in ast.walk(f):
            bad = None
            if isinstance(node, ast.Return) and isinstance(node.value, ast.Call) and \
                    isinstance(node.value.func, ast.Name) and node.value.func.id in tag.EXC_NAMES:
                bad = "returned"
            if isinstance(node, ast.Expr) and isinstance(node.value, ast.Call) and \
                    isinstance(node.value.func, ast.Name) and node.value.func.id in tag.EXC_NAMES:
                bad = "constructed and dropped"
            if isinstance(node, ast.Raise):
                n += 1
                ctx.ok(R, node, f._qual, "raise " + pyfe.src(node.exc)[:50] if node.exc else "raise", nontrivial=False)
            if bad:
                n += 1
                ctx.violation(R, node, f._qual, pyfe.src(node)[:70],
                              "the exception object is %s, not raised: the caller receives a truthy value" % bad)
    ctx.floor(R, 60)


def rule_len(ctx, py):
    R = "C05.LEN"
    cnode = py.cls("units.UnitArray")
    for f in [x for x in cnode.body if isinstance(x, ast.FunctionDef)]:
        if f.name not in ("_sum", "_product", "_modulo", "_rmodulo"):
            continue
        other = pyfe.params(f)[1]

        def on(node, facts, f=f, other=other):
            if not isinstance(node, ast.Return) or node.value is None:
                return
            # the array (op) array branch: every result computed where the other operand is known to be a UnitArray
            both = ("type(%s) == UnitArray" % other, True) in facts or ("isinstance(%s, UnitArray)" % other, True) in facts
            lcs = [x for x in ast.walk(node.value) if isinstance(x, ast.ListComp) and "self.value[" in pyfe.src(x) and
                   "%s.value[" % other in pyfe.src(x)]
            if both or lcs:
                ok = ("len(self) == len(%s)" % other, True) in facts or \
                     ("len(%s) == len(self)" % other, True) in facts
                ctx.check(ok, R, node, f._qual, pyfe.src(node.value)[:80], "element-wise code dominated by the length test",
                          "arrays of different length are combined without the length check (numpy broadcasting, "
                          "IndexError or silent truncation instead of the documented ValueError)")

        class C(pya.PyFacts):
            def atom(self, node, cfg):
                return cfg

            def ret(self, s, cfg):
                on(s.src, cfg)
        ir.Engine(C(), "must").run(ir.py_to_ir(f.body))
    ctx.floor(R, 4)


def rule_units_ops(ctx, py):
    R = "C05.UNITS-OPS"
    cnode = py.cls("units.Units")
    from .. import pynorm
    # locals that merely name self.dim / self.sys / u.dim are written out again before the component laws are read
    meth = {x.name: pynorm.delocalised(x) for x in cnode.body if isinstance(x, ast.FunctionDef)}
    want = {"multiply": "add", "invert": "neg", "raiseto": "scale"}
    for name, law in want.items():
        f = meth.get(name)
        ctx.need(f is not None, R, "Units.%s not found" % name)
        loops = [n for n in ast.walk(f) if isinstance(n, ast.For)]
        ctx.need(len(loops) == 1 and isinstance(loops[0].target, ast.Name), R, "Units.%s: component loop not found" % name)
        k = loops[0].target.id
        ctx.check(pyfe.src(loops[0].iter) in ("self.dim.keys()", "['space', 'time', 'quantity']"), R, loops[0], f._qual,
                  "for %s in %s" % (k, pyfe.src(loops[0].iter)), "all three components", "not all components")
        st = [s for s in loops[0].body if isinstance(s, ast.Assign) and isinstance(s.targets[0], ast.Subscript)]
        ctx.need(len(st) == 1, R, "Units.%s: component store not found" % name)
        from .. import pysym
        tabs = {x.value.id for x in ast.walk(f) if isinstance(x, ast.Subscript) and isinstance(x.ctx, ast.Store) and
                isinstance(x.value, ast.Name)}
        s = pysym.inline_stmt(st[0], f, stop={k} | tabs)       # in-loop temporaries (d = self.dim[k]) written out
        subs = [x for x in ast.walk(s) if isinstance(x, ast.Subscript)]
        samek = all(pyfe.src(x.slice) == k for x in subs)
        v = pya._strip_int(s.value)
        if law == "add":
            form = isinstance(v, ast.BinOp) and isinstance(v.op, ast.Add) and \
                {pyfe.src(v.left), pyfe.src(v.right)} == {"self.dim[%s]" % k, "%s.dim[%s]" % (pyfe.params(f)[1], k)}
        elif law == "neg":
            form = isinstance(v, ast.UnaryOp) and isinstance(v.op, ast.USub) and pyfe.src(v.operand) == "self.dim[%s]" % k
        else:
            form = isinstance(v, ast.BinOp) and isinstance(v.op, ast.Mult) and \
                {pyfe.src(v.left), pyfe.src(v.right)} == {"self.dim[%s]" % k, pyfe.params(f)[1]}
        ctx.check(samek and form, R, s, f._qual, pyfe.src(s), "component %s of the result from component %s of the "
                  "operands (%s)" % (k, k, law), "the law of exponents is not applied component-wise")
        rets = [r for r in ast.walk(f) if isinstance(r, ast.Return)]
        tgt = pyfe.src(s.targets[0].value)
        ctx.check(len(rets) == 1 and pyfe.src(rets[0].value) == "Units(self.sys, %s)" % tgt, R, rets[0], f._qual,
                  pyfe.src(rets[0]), "result keeps the unit system", "result not built from self.sys and the new exponents")
    # multiply: the system-equality guard dominates
    f = meth["multiply"]
    found = []

    class C(pya.PyFacts):
        def ret(self, s, cfg):
            found.append(cfg)
    ir.Engine(C(), "must").run(ir.py_to_ir(f.body))
    u = pyfe.params(f)[1]
    ok = found and all(("self.sys == %s.sys" % u, True) in c for c in found)
    ctx.check(ok, R, f, f._qual, "multiply: self.sys != %s.sys -> raise" % u, "dominates the result",
              "units of different systems are multiplied without the guard")
    # raiseto: non-integral exponents raise -- for every component, i.e. inside the component loop
    f = meth["raiseto"]
    lp = [n for n in ast.walk(f) if isinstance(n, ast.For)]
    ok = False
    where = None
    if len(lp) == 1:
        k = pyfe.src(lp[0].target)
        for n in lp[0].body:
            if isinstance(n, ast.If) and any(isinstance(b, ast.Raise) for b in n.body):
                from .. import pysym
                tabs = {x.value.id for x in ast.walk(f) if isinstance(x, ast.Subscript) and isinstance(x.ctx, ast.Store) and
                        isinstance(x.value, ast.Name)}
                t = pysym.isrc(n.test, f, stop={k} | tabs).replace(" ", "")
                if "self.dim[%s]*e" % k in t and ("rdim[%s]" % k in t or "int(self.dim[%s]*e)" % k in t) and "!=" in t:
                    ok = True
        outside = [n for n in ast.walk(f) if isinstance(n, ast.If) and any(isinstance(b, ast.Raise) for b in n.body)
                   and n not in lp[0].body]
        where = outside[0] if outside else None
    ctx.check(ok, "C05.INTEXP", where or f, f._qual, "raiseto: a non-integral resulting exponent raises, tested for every "
              "component inside the loop", "", "the integrality test is not made for each component (it is missing or "
              "outside the component loop): fractional exponents of some base units are silently truncated")
    # __eq__: component-wise, zero exponents ignore the base unit
    f = meth["__eq__"]
    # per component: unequal exactly when the exponents differ, or the exponent is non-zero and the base units differ --
    # decided by truth table over the three comparisons, whatever way the tests are split or combined
    import itertools
    lp = [n for n in ast.walk(f) if isinstance(n, ast.For)]
    okeq = False
    if len(lp) == 1:
        k = pyfe.src(lp[0].target)
        from .. import pysym
        tests = [pysym.inline(n.test, f, stop={k}) for n in ast.walk(lp[0]) if isinstance(n, ast.If) and any(
            isinstance(b, ast.Return) and isinstance(b.value, ast.Constant) and b.value.value is False for b in n.body)]
        v_ = [p_ for p_ in pyfe.params(f) if p_ != "self"][0]
        A, B, C_ = "self.dim[%s] == %s.dim[%s]" % (k, v_, k), "self.dim[%s] == 0" % k, "self.sys[%s] == %s.sys[%s]" % (k, v_, k)
        alt = {"%s.dim[%s] == self.dim[%s]" % (v_, k, k): A, "0 == self.dim[%s]" % k: B,
               "%s.sys[%s] == self.sys[%s]" % (v_, k, k): C_}
        if tests:
            comb = ast.BoolOp(op=ast.Or(), values=tests) if len(tests) > 1 else tests[0]
            ats = set(pya.expr_atoms(comb))
            if ats and {alt.get(a, a) for a in ats} <= {A, B, C_}:
                okeq = True
                for va, vb, vc in itertools.product([False, True], repeat=3):
                    asg = {a: {A: va, B: vb, C_: vc}[alt.get(a, a)] for a in ats}
                    if pya.bool_eval(comb, asg) != ((not va) or ((not vb) and (not vc))):
                        okeq = False
    ctx.check(okeq, R, f, f._qual,
              "__eq__ compares exponents and, for non-zero exponents, base units of the same component", "", "two units are not "
              "compared as: same exponents, and the same base unit wherever the exponent is not zero")
    ctx.floor(R, 9)


def rule_cmp_exact(ctx, py):
    """C05.CMP -- a comparison operator returns the comparison of the two magnitudes itself (or a constant for incomparable
    operands): not a tolerance test, a rounded comparison or any other function of the magnitudes"""
    R = "C05.CMP"
    from .. import pysym
    cnode = py.cls("units.UnitValue")
    n = 0

    def okform(e):
        if isinstance(e, ast.Compare):
            return all(not isinstance(x, ast.Call) or pyfe.call_name(x).split(".")[-1] in ("convert", "float", "int")
                       for x in ast.walk(e))
        if isinstance(e, ast.Constant) and (isinstance(e.value, bool) or e.value is None):
            return True
        if isinstance(e, ast.Name) and e.id in ("NotImplemented",):
            return True
        if isinstance(e, ast.UnaryOp) and isinstance(e.op, ast.Not):
            return okform(e.operand)
        if isinstance(e, ast.BoolOp):
            return all(okform(v) for v in e.values)
        if isinstance(e, ast.Call) and isinstance(e.func, ast.Attribute) and e.func.attr in (
                "__eq__", "__ne__", "__lt__", "__le__", "__gt__", "__ge__") and pyfe.src(e.func.value) in ("self", "v"):
            return True
        if isinstance(e, ast.Call) and isinstance(e.func, ast.Name) and e.func.id == "bool" and len(e.args) == 1:
            return okform(e.args[0])
        return False
    for f in [x for x in cnode.body if isinstance(x, ast.FunctionDef)]:
        if f.name not in ("__eq__", "__ne__", "__lt__", "__le__", "__gt__", "__ge__"):
            continue
        for r in [x for x in ast.walk(f) if isinstance(x, ast.Return) and x.value is not None]:
            e = pysym.inline(r.value, f)
            n += 1
            ctx.check(okform(e), R, r, f._qual, pyfe.src(r)[:90], "the comparison of the two magnitudes, or a constant",
                      "the operator returns `%s`, which is not the comparison of the two magnitudes: equal / ordered SI values "
                      "no longer decide the result (tolerance, rounding or another function)" % pyfe.src(e)[:80])
    ctx.floor(R, 12)


def rule_ctor_label(ctx, py, R="C05.CTOR"):
    """the constructors of UnitValue / UnitArray that receive a quantity store its number and its label from one and the same
    object (the given one, or its conversion): `self.value = X.value` goes with `self.units = X.units`.  A label taken from
    elsewhere re-labels the number without converting it."""
    n = 0
    for q in ("units.UnitValue.__init__", "units.UnitArray.__init__"):
        f = py.fn(q)

        def blocks(stmts):
            yield stmts
            for st in stmts:
                for fld in ("body", "orelse"):
                    b = getattr(st, fld, None)
                    if isinstance(b, list) and b and isinstance(st, (ast.If, ast.For, ast.While)):
                        yield from blocks(b)
        for blk in blocks(f.body):
            num = lab = None
            for st in blk:
                if isinstance(st, ast.Assign) and len(st.targets) == 1:
                    t = pyfe.src(st.targets[0])
                    if t in ("self.value", "self._value"):
                        num = (st, st.value)
                    elif t in ("self.units", "self._units"):
                        lab = (st, st.value)
                elif isinstance(st, ast.Expr) and isinstance(st.value, ast.Call) and pyfe.call_name(st.value) == "self.set_value" \
                        and st.value.args:
                    num = (st, st.value.args[0])
            if num is None or lab is None:
                continue
            v = num[1]
            if isinstance(v, ast.Attribute) and v.attr in ("value", "_value") and isinstance(v.value, ast.Name):
                x = v.value.id
                n += 1
                ctx.check(pyfe.src(lab[1]) in ("%s.units" % x, "%s._units" % x, "%s.units.copy()" % x), R, lab[0], q,
                          "%s  /  %s" % (pyfe.src(num[0])[:50], pyfe.src(lab[0])[:40]), "number and label of the same quantity `%s`" % x,
                          "the number is `%s` but the label is `%s`: when they differ (convert=False, other units given) the number "
                          "is re-labelled without being converted" % (pyfe.src(v), pyfe.src(lab[1])))
    ctx.floor(R, 3)


def rule_reflected(ctx, py):
    """C05.REFLECTED -- `number op quantity` is answered by the quantity's reflected operator only when the number's own operator
    gives up (returns NotImplemented).  A numpy scalar (what arr.mean(), arr[i], np.prod(..) return) does not give up on an
    operand it can read as a sequence: an operand class that defines __len__ together with __getitem__ (or __iter__) is converted
    with np.asarray and the result is an object ndarray, not a quantity -- unless the class opts out with `__array_ufunc__ =
    None` (or a higher __array_priority__).  The quantity classes define reflected operators and must stay out of that route."""
    R = "C05.REFLECTED"
    n = 0
    for cn in ("units.UnitValue", "units.UnitArray"):
        c = py.cls(cn)
        names = {x.name for x in c.body if isinstance(x, ast.FunctionDef)}
        attrs = {t.id for x in c.body if isinstance(x, ast.Assign) for t in x.targets if isinstance(t, ast.Name)}
        refl = sorted(x for x in names if x.startswith("__r") and x.endswith("__") and x not in ("__repr__", "__reversed__",
                                                                                                  "__round__"))
        ctx.need(refl, R, "%s: no reflected operator found" % cn)
        seq = sorted(names & {"__getitem__", "__iter__", "__array__"})
        if seq == ["__getitem__"] and "__len__" not in names:
            seq = []               # without a length numpy does not read the object as a sequence
        optout = "__array_ufunc__" in attrs or "__array_priority__" in attrs
        n += 1
        ctx.check(not seq or optout, R, c, cn, "%d reflected operators; sequence protocol: %s" % (len(refl), seq or "none"),
                  "not readable as a sequence by numpy (or opted out with __array_ufunc__ = None)",
                  "%s defines %s: a numpy scalar on the left of + - * / %% no longer hands over to the reflected operator but "
                  "converts the operand with np.asarray; `np.float64(2) * a` is an object ndarray without units while `a * "
                  "np.float64(2)` is a quantity (result depends on operand order, dimension checks are bypassed)"
                  % (cn.split(".")[-1], ", ".join(seq)))
    ctx.floor(R, 2)


def run(ctx):
    # package-wide disciplines first: they need no anchor, and what they find stands whatever the rules below can analyse
    from .. import lints
    lints.run(ctx, "C05", ctx.py, ["units"], truth_floor=20)
    py = ctx.py
    rule_tag(ctx, py)
    rule_raise(ctx, py)
    rule_len(ctx, py)
    rule_units_ops(ctx, py)
    rule_cmp_exact(ctx, py)
    rule_ctor_label(ctx, py)
    rule_reflected(ctx, py)
    # shared clauses: conversions used by the operators (C06: factor structure, dimension guard, argument order)
    from ..core import borrow
    from . import c06
    borrow(ctx, "C05", c06.rule_keys, ctx.py)
    borrow(ctx, "C05", c06.rule_dimguard, ctx.py)
    borrow(ctx, "C05", c06.rule_eq3, ctx.py)
    borrow(ctx, "C05", c06.rule_convert_args, ctx.py, "C05.ARGS-CONV")
    ctx.assume("value-level correctness of operand order and sign in reflected operators (v - self vs self - v) and "
               "floating-point exactness are not decided")
