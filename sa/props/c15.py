"""C15 -- grid geometry: bounds entailment, per-axis consistency of every coordinate / extent / boundary-flag use,
the +-1 displacement sets of the five neighbour enumerations, mixed-radix agreement of the index <-> coordinate
maps in both languages, and the grid -> graph conversion.  Does not decide symmetry as a theorem or equality of
trajectories."""
import ast, re

from .. import pyfe, pya, cxfe, cxa, idx as idxmod, ir
from ..cxfe import kids, strip, walk, text, name_of, uname
from ..core import AnalysisError
from ..poly import Poly

AX = {"x": 0, "y": 1, "z": 2, "w": 0, "h": 1, "d": 2, "dx": 0, "dy": 1, "dz": 2, "xn": 0, "yn": 1, "zn": 2,
      "xcoord": 0, "ycoord": 1, "zcoord": 2, "xi": 0, "yi": 1, "zi": 2, "xj": 0, "yj": 1, "zj": 2}
EXT_OF_AXIS = ["w", "h", "d"]


# ------------------------------------------------------------------------------------------------ Python helpers
def py_axis_tokens(node):
    """[(axis, role, text)] for axis-bearing tokens inside node; role in coord / extent / flag"""
    out = []
    for n in ast.walk(node):
        if isinstance(n, ast.Name) and n.id in AX:
            role = "extent" if n.id in "whd" else "coord"
            out.append((AX[n.id], role, n.id))
        elif isinstance(n, ast.Attribute) and n.attr in ("w", "h", "d", "_w", "_h", "_d"):
            out.append((AX[n.attr.lstrip("_")], "extent", pyfe.src(n)))
        elif isinstance(n, ast.Attribute) and n.attr in ("x", "y", "z"):
            out.append((AX[n.attr], "coord", pyfe.src(n)))
        elif isinstance(n, ast.Subscript) and isinstance(n.slice, ast.Constant):
            v = n.slice.value
            if isinstance(v, int) and v in (0, 1, 2) and \
                    re.search(r"(position|coord|^p$|^c$)", pyfe.src(n.value)):
                out.append((v, "coord", pyfe.src(n)))
            elif isinstance(v, str) and v in ("x", "y", "z"):
                out.append((AX[v], "flag", pyfe.src(n)))
    return out


def one_axis(ctx, R, node, fq, what):
    toks = py_axis_tokens(node)
    axes = {a for a, _, _ in toks}
    if not toks:
        return None
    ctx.check(len(axes) == 1, R, node, fq, what,
              "axis %s only: %s" % ("xyz"[list(axes)[0]] if len(axes) == 1 else "?", sorted({t for _, _, t in toks})),
              "mixes axes %s: %s" % (sorted("xyz"[a] for a in axes), sorted({t for _, _, t in toks})))
    return list(axes)[0] if len(axes) == 1 else None


def rule_ent(ctx, py):
    R = "C15.ENT"
    fn = py.fn("rdgridspace.RDGridSpace.is_within_bounds")
    rets = [n for n in ast.walk(fn) if isinstance(n, ast.Return) and n.value is not None]
    ctx.need(len(rets) >= 3, R, "is_within_bounds: expected three returning branches")
    seen = 0
    for r in rets:
        ats = set(pya.expr_atoms(r.value))
        subj = set()
        for a in ats:
            m = re.match(r"^0 <= (.+)$", a) or re.match(r"^(.+) < .+$", a)
            if m:
                subj.add(m.group(1))
        ctx.need(subj, R, "is_within_bounds: no comparison subject in `%s`" % pyfe.src(r.value)[:60])
        for s in sorted(subj):
            toks = py_axis_tokens(ast.parse(s, mode="eval"))
            if toks:
                ext = "self." + EXT_OF_AXIS[toks[0][0]]
            else:
                ext = "self.size()"
            want = [("0 <= %s" % s, True), ("%s < %s" % (s, ext), True)]
            seen += 1
            ctx.check(pya.entails(r.value, want), R, r, fn._qual, "accepts %s" % s,
                      "the returned test entails 0 <= %s < %s" % (s, ext),
                      "the returned test `%s` does not entail 0 <= %s < %s: a position outside the grid is "
                      "accepted and addresses another entry" % (pyfe.src(r.value)[:80], s, ext))
    # the validators are consulted before any index / coordinate is returned
    for q, arg in (("rdgridspace.RDGridSpace.get_cell_index", "position"),
                   ("rdgridspace.RDGridSpace.get_cell_coordinates", "cell_index")):
        f = py.fn(q)
        rets = []

        def on_stmt(node, facts, rets=rets):
            pass
        cl = pya.PyFacts()
        found = []

        class C(pya.PyFacts):
            def ret(self, s, cfg):
                found.append((s.src, cfg))
        eng = ir.Engine(C(), "must")
        eng.run(ir.py_to_ir(f.body))
        ctx.need(found, R, "%s: no return reached" % q)
        for node, cfg in found:
            seen += 1
            ctx.check(("self.is_within_bounds(%s)" % arg, True) in cfg, R, node, q, pyfe.src(node)[:80],
                      "returned only after is_within_bounds(%s) held" % arg,
                      "a path returns without the bounds test on %s" % arg)
    # graph twin: two-sided test
    f = py.fn("rdgraphspace.RDGraphSpace.get_cell_index")
    found = []

    class C2(pya.PyFacts):
        def ret(self, s, cfg):
            found.append((s.src, cfg))
    ir.Engine(C2(), "must").run(ir.py_to_ir(f.body))
    for node, cfg in found:
        v = pyfe.src(node.value)
        seen += 1
        ok = ("%s < 0" % v, False) in cfg and ("self.size() <= %s" % v, False) in cfg
        ctx.check(ok, R, node, f._qual, pyfe.src(node), "returned only where 0 <= %s < self.size()" % v,
                  "the node index is returned without a two-sided range test")
    ctx.floor(R, 10)


def rule_radix_py(ctx, py):
    R = "C15.RADIX"
    from .. import pysym
    P = lambda t: ast.parse(t, mode="eval").body
    f = py.fn("rdgridspace.RDGridSpace.get_cell_index")
    n = 0
    seen = set()
    outs = []
    for r in [x for x in ast.walk(f) if isinstance(x, ast.Return) and x.value is not None]:
        v = r.value
        while isinstance(v, ast.Call) and isinstance(v.func, ast.Name) and v.func.id == "int" and len(v.args) == 1:
            v = v.args[0]
        defs = [a for a in ast.walk(f) if isinstance(a, ast.Assign) and len(a.targets) == 1 and isinstance(v, ast.Name)
                and isinstance(a.targets[0], ast.Name) and a.targets[0].id == v.id]
        if len(defs) > 1:           # one result variable assigned per branch, single return
            outs += [(a, a.value) for a in defs]
        else:
            outs.append((r, r.value))
    for r, val in outs:
        got = pysym.frat(val, f)
        forms = {"number": "position", "array": "position[0] + position[1] * self.w + position[2] * self.w * self.h",
                 "object": "position.x + position.y * self.w + position.z * self.w * self.h"}
        hit = [k for k, t in forms.items() if got.equals(pysym.rat(P(t)))]
        n += 1
        ctx.check(bool(hit), R, r, f._qual, pyfe.src(val)[:90], "index = x + y*w + z*w*h (%s form)" % (hit[0] if hit else "?"),
                  "the returned index %r is not x + y*w + z*w*h of the given position" % (got,))
        seen |= set(hit)
        # each coordinate is truncated on its own (is_within_bounds and the coordinate-object form do the same): one int() around
        # the weighted sum rounds x + w*y + w*h*z as a whole, and a fractional x or y then moves the cell along another axis
        full = pysym.inline(val, f)
        for c_ in [x for x in ast.walk(full) if isinstance(x, ast.Call) and isinstance(x.func, ast.Name) and x.func.id == "int"
                   and len(x.args) == 1]:
            a_ = c_.args[0]
            leaf = isinstance(a_, (ast.Name, ast.Attribute)) or (isinstance(a_, ast.Subscript) and isinstance(a_.slice, ast.Constant))
            n += 1
            ctx.check(leaf, R, r, f._qual, "int(%s)" % pyfe.src(a_)[:50], "truncation of one coordinate (or of the linear index)",
                      "`int(%s)` truncates a weighted sum of coordinates, not each coordinate: for a fractional coordinate the "
                      "index is not that of the cell containing the position (and differs from the coordinate-object form)"
                      % pyfe.src(a_)[:50])
    ctx.check(seen == {"number", "array", "object"}, R, f, f._qual, "all three position forms are encoded", "", "a position form is "
              "missing: %s" % sorted({"number", "array", "object"} - seen))
    # decode
    g = py.fn("rdgridspace.RDGridSpace.get_cell_coordinates")
    defs = {}
    for st in ast.walk(g):
        if isinstance(st, ast.Assign) and len(st.targets) == 1 and isinstance(st.targets[0], ast.Name) and \
                st.targets[0].id in ("x", "y", "z"):
            defs[st.targets[0].id] = st
    ctx.need(set(defs) == {"x", "y", "z"}, R, "get_cell_coordinates: x, y, z definitions not found")
    want = {"x": ("cell_index % self.w",), "y": ("cell_index % (self.w * self.h) / self.w", "cell_index / self.w % self.h"),
            "z": ("cell_index / (self.w * self.h)", "cell_index / self.w / self.h")}
    for k, st in sorted(defs.items()):
        got = pya.ctext(st.value).replace("//", "/")
        n += 1
        ctx.check(any(norm_ws(got) == norm_ws(w) for w in want[k]), R, st, g._qual, pyfe.src(st)[:80],
                  "%s = %s (inverse of x + y*w + z*w*h)" % (k, want[k][0]),
                  "%s is decoded as `%s`, expected `%s`" % (k, got, want[k][0]))
    ctx.floor(R, 5)


def atom_poly(text_):
    """G with `G >= 0` for a normalised atom text  A < B / A <= B  (integers), else None"""
    for op in (" <= ", " < "):
        if op in text_:
            a, b = text_.split(op, 1)
            try:
                pa, pb = py_poly(ast.parse(a, mode="eval").body), py_poly(ast.parse(b, mode="eval").body)
            except SyntaxError:
                return None
            g = pb - pa
            return g - Poly.const(1) if op == " < " else g
    return None


def lin_entails(facts, req):
    """do the (text, polarity) facts entail req >= 0 ?  True / False (a test on the same quantity that is too
    weak) / None (no comparable test)"""
    verdict = None
    for t, pol in facts:
        if not pol:
            continue
        g = atom_poly(t)
        if g is None:
            continue
        d = req - g
        if d.isconst():
            if d.constval() >= 0:
                return True
            verdict = False
    return verdict


def norm_ws(s):
    return re.sub(r"[\s()]", "", s)


def py_poly(e):
    e = pya._strip_int(e)
    if isinstance(e, ast.BinOp) and isinstance(e.op, (ast.Add, ast.Sub, ast.Mult)):
        a, b = py_poly(e.left), py_poly(e.right)
        return a + b if isinstance(e.op, ast.Add) else a - b if isinstance(e.op, ast.Sub) else a * b
    if isinstance(e, ast.UnaryOp) and isinstance(e.op, ast.USub):
        return -py_poly(e.operand)
    if isinstance(e, ast.UnaryOp) and isinstance(e.op, ast.UAdd):
        return py_poly(e.operand)
    if isinstance(e, ast.Constant) and isinstance(e.value, int) and not isinstance(e.value, bool):
        return Poly.const(e.value)
    return Poly.sym(pyfe.src(e))


def rule_axis_py(ctx, py):
    R = "C15.AXIS"
    # RDGridSpace.get_neighbors: each conditional append
    from .. import pynorm as _pn
    f = _pn.unrolled(py.fn("rdgridspace.RDGridSpace.get_neighbors"))     # a (condition, coordinates) table is read row by row
    disp = set()
    from .. import pysym
    def appends(s_):
        return any(isinstance(c_, ast.Call) and isinstance(c_.func, ast.Attribute) and c_.func.attr == "append"
                   for c_ in ast.walk(s_))
    for st in [pysym.inline_stmt(s, f, stop={"x", "y", "z", "neighbors"}) for s in f.body if isinstance(s, ast.If) and appends(s)]:
        tups = [t for t in ast.walk(st) if isinstance(t, ast.Tuple) and len(t.elts) == 3]
        ctx.need(len(tups) == 1, R, "get_neighbors: conditional append without one coordinate triple")
        t = tups[0]
        changed = [k for k, e in enumerate(t.elts) if pyfe.src(e) != "xyz"[k]]
        ctx.need(len(changed) == 1, R, "get_neighbors: triple %s changes %d components" % (pyfe.src(t), len(changed)))
        k = changed[0]
        ax_test = one_axis(ctx, R, st.test, f._qual, "get_neighbors: if " + pyfe.src(st.test)[:70])
        ctx.check(ax_test == k, R, st, f._qual, "get_neighbors: %s -> %s" % (pyfe.src(st.test)[:50], pyfe.src(t)),
                  "the condition tests the axis it moves along",
                  "condition on axis %s moves along axis %s" % (ax_test, k))
        c = "xyz"[k]
        ext = "self." + EXT_OF_AXIS[k]
        tgt = py_poly(t.elts[k])
        cv, ev = Poly.sym(c), Poly.sym(ext)
        facts = pya.atoms(st.test, True)
        per = any("periodical" in ft for ft, _ in facts)
        form = None
        verdict = None
        if tgt == cv - Poly.const(1) and not per:
            verdict = lin_entails(facts, tgt)                                  # x-1 >= 0
            form = (k, -1, "inner")
        elif tgt == cv + Poly.const(1) and not per:
            verdict = lin_entails(facts, ev - Poly.const(1) - tgt)             # x+1 <= w-1
            form = (k, +1, "inner")
        elif per and tgt == ev - Poly.const(1):
            verdict = ("%s == 0" % c, True) in facts or ("0 == %s" % c, True) in facts
            form = (k, -1, "wrap")
        elif per and tgt == Poly.const(0):
            eqs = [ft for ft, pol in facts if pol and " == " in ft and "periodical" not in ft]
            verdict = any(py_poly(ast.parse(a, mode="eval").body) - py_poly(ast.parse(b, mode="eval").body)
                          in (cv - ev + Poly.const(1), ev - Poly.const(1) - cv)
                          for a, b in (q.split(" == ") for q in eqs))
            form = (k, +1, "wrap")
        ctx.need(form is not None and verdict is not None, "C15.DISP",
                 "get_neighbors: shape of `%s` not recognised" % pyfe.src(st)[:80])
        ctx.check(verdict, "C15.DISP", st, f._qual, "get_neighbors: %s" % pyfe.src(st)[:90],
                  "unit move %s whose guard keeps the target inside the axis" % (form,),
                  "the guard does not keep the moved coordinate `%s` inside [0, %s)" % (pyfe.src(t.elts[k]), ext))
        if form and verdict:
            disp.add(form)
    want = {(k, s, m) for k in range(3) for s in (-1, 1) for m in ("inner", "wrap")}
    ctx.check(disp == want, "C15.DISP", f, f._qual, "get_neighbors displacement set",
              "12 forms: +-1 on each axis, inner and periodic wrap", "missing forms: %s" % sorted(want - disp))
    # are_neighbors: the value returned, with every local written out (loops over the axes unrolled), is
    #   sum over the three axes k of  [ min(Dk, |extent_k - Dk|) if flag_k periodic else Dk ]  == 1,   Dk = |c1[k] - c2[k]|
    from .. import pysym, pynorm
    g = pynorm.unrolled(py.fn("rdgridspace.RDGridSpace.are_neighbors"))
    try:
        rets = pysym.exec_returns(g)
    except pysym.NotModelled as e:
        ctx.error(R, "are_neighbors: %s" % e)
    # a result computed from the positions without taking them apart into coordinates (no get_cell_coordinates, no % or //)
    # can only depend on the linear indices themselves: whatever it answers for the pair (0, 1) it answers for (w-1, w), the
    # end of one row and the start of the next, which are not adjacent
    extra = []
    for rnode, val, cnd in rets:
        if val is None:
            continue
        if isinstance(val, ast.Compare) and len(val.ops) == 1 and isinstance(val.ops[0], ast.Eq):
            continue
        t = pyfe.src(val)
        names = {x.id for x in ast.walk(val) if isinstance(x, ast.Name)}
        decomposed = "get_cell_coordinates" in t or any(isinstance(x, ast.BinOp) and isinstance(x.op, (ast.Mod, ast.FloorDiv))
                                                        for x in ast.walk(val))
        if {"position1", "position2"} & names and not decomposed and not (isinstance(val, ast.Constant)):
            extra.append(val)
            ctx.violation("C15.DISP", rnode, g._qual, "are_neighbors: return %s" % t[:70],
                          "this answer is computed from the linear indices without their coordinates: cells at the end of one row "
                          "and the start of the next (indices w-1 and w) get the answer of a true neighbour pair; the pairwise test "
                          "disagrees with get_neighbors and with the engine")
    rets = [r_ for r_ in rets if not any(r_[1] is e_ for e_ in extra)]
    ctx.need(len(rets) == 1 and isinstance(rets[0][1], ast.Compare) and len(rets[0][1].ops) == 1, R,
             "are_neighbors: a single `return <sum> == 1` not found")
    cmpn = rets[0][1]
    sides = [cmpn.left, cmpn.comparators[0]]
    one = [x for x in sides if isinstance(x, ast.Constant) and x.value == 1]
    tot = [x for x in sides if not (isinstance(x, ast.Constant) and x.value == 1)]
    ctx.check(isinstance(cmpn.ops[0], ast.Eq) and len(one) == 1 and len(tot) == 1, "C15.DISP", g, g._qual,
              "are_neighbors: L1 distance == 1", "", "the neighbour test is not <distance> == 1")
    terms = []

    def flat(e):
        if isinstance(e, ast.BinOp) and isinstance(e.op, ast.Add):
            flat(e.left)
            flat(e.right)
        elif not (isinstance(e, ast.Constant) and e.value == 0):
            terms.append(e)
    if tot:
        flat(tot[0])
    seen_axes = []
    for tm in terms:
        k = one_axis(ctx, R, tm, g._qual, "are_neighbors: " + pyfe.src(tm)[:80])
        if k is None:
            continue
        seen_axes.append(k)
        cs = sorted({t for a_, r_, t in py_axis_tokens(tm) if r_ == "coord"})
        fl = sorted({t for a_, r_, t in py_axis_tokens(tm) if r_ == "flag"})
        ex = sorted({t for a_, r_, t in py_axis_tokens(tm) if r_ == "extent"})
        okk = len(cs) == 2 and len(fl) == 1 and len(ex) == 1
        got = norm_ws(pyfe.src(tm))
        forms = set()
        if okk:
            for c1, c2 in (cs, cs[::-1]):
                D = "abs(%s-%s)" % (c1, c2)
                for wrap in ("abs(%s-%s)" % (ex[0], D), "abs(%s-%s)" % (D, ex[0]), "%s-%s" % (ex[0], D)):
                    for mn in ("min(%s,%s)" % (D, wrap), "min(%s,%s)" % (wrap, D)):
                        for q in ("'", '"'):
                            forms.add(norm_ws("%s if %s==%speriodical%s else %s" % (mn, fl[0], q, q, D)))
        ctx.check(okk and got in forms, "C15.DISP", tm, g._qual, "are_neighbors axis %s term" % "xyz"[k],
                  "|dc| wrapped by the axis extent when the axis is periodic", "the per-axis distance is `%s`, not "
                  "min(D, |extent - D|) under the periodic flag and D otherwise" % pyfe.src(tm)[:160])
    ctx.check(sorted(seen_axes) == [0, 1, 2], "C15.DISP", g, g._qual, "are_neighbors: one term per axis", "x, y, z",
              "the distance sums the axes %s" % sorted(seen_axes))
    # kinetics enumeration
    h = py.fn("kinetics._compute_dspeciesdt_grid")
    lists = [n for n in ast.walk(h) if isinstance(n, ast.For) and isinstance(n.iter, ast.List)]
    ctx.need(len(lists) == 1, R, "_compute_dspeciesdt_grid: neighbour list literal not found")
    disp = set()
    for el in lists[0].iter.elts:
        ctx.need(isinstance(el, ast.List) and len(el.elts) == 3, R, "neighbour list element is not a triple")
        ch = [(k, pyfe.src(e).replace(" ", "")) for k, e in enumerate(el.elts) if pyfe.src(e) != "p[%d]" % k]
        okk = len(ch) == 1 and ch[0][1] in ("p[%d]+1" % ch[0][0], "p[%d]-1" % ch[0][0])
        ctx.check(okk, "C15.DISP", el, h._qual, "kinetics: " + pyfe.src(el), "unit move on one axis",
                  "not a +-1 move on exactly one axis")
        if okk:
            disp.add((ch[0][0], +1 if ch[0][1].endswith("+1") else -1))
    ctx.check(disp == {(k, s) for k in range(3) for s in (-1, 1)}, "C15.DISP", lists[0], h._qual,
              "kinetics displacement set", "the six unit moves", "set is %s" % sorted(disp))
    for st in lists[0].body:
        if isinstance(st, ast.If) and "periodical" in pyfe.src(st.test):
            one_axis(ctx, R, st, h._qual, "kinetics: " + pyfe.src(st)[:100].replace("\n", " "))
    # grid_to_graph
    gg = py.fn("coarsegrain.grid_to_graph")
    for st in ast.walk(gg):
        if isinstance(st, ast.If):
            src = pyfe.src(st.test)
            calls = [c for c in pyfe.calls_in(st) if pyfe.call_name(c) == "RDGraphSpaceEdge"]
            if not calls:
                continue
            if "periodical" in src:
                k = one_axis(ctx, R, st.test, gg._qual, "grid_to_graph: if " + src[:60])
                extra = [(a_, p_) for a_, p_ in pya.atoms(st.test, True) if "periodical" not in a_]
                okx = all(p_ and k is not None and a_ in ("1 < grid.%s" % EXT_OF_AXIS[k],) for a_, p_ in extra) and \
                    len(pya.atoms(st.test, True)) >= 1
                ctx.check(okx, "C15.DISP", st, gg._qual, "wrap edges of axis %s under %s" % ("xyz"[k] if k is not None else "?", src[:70]),
                          "every periodic axis gets its wrap edges", "the wrap edges are additionally conditioned on %s: a "
                          "periodic axis of that length loses contacts that the grid engine and kinetics count"
                          % [a_ for a_, _ in extra])
                for c in calls:
                    ti, tj = edge_triples(c)
                    chg = [q for q in range(3) if pyfe.src(ti.elts[q]) != pyfe.src(tj.elts[q])]
                    okk = chg == [k] and norm_ws(pyfe.src(ti.elts[k])) == "grid.%s-1" % EXT_OF_AXIS[k] and \
                        pyfe.src(tj.elts[k]) == "0"
                    ctx.check(okk, "C15.DISP", c, gg._qual, "grid_to_graph wrap edge %s - %s" % (pyfe.src(ti), pyfe.src(tj)),
                              "joins the last and first cell of axis %s" % "xyz"[k], "not the wrap edge of its axis")
                    loops = []
                    p = pyfe.parent(c)
                    while p is not None and p is not st:
                        if isinstance(p, ast.For):
                            loops.append(pyfe.src(p.target))
                        p = pyfe.parent(p)
                    ctx.check(sorted(loops) == sorted("xyz"[q] for q in range(3) if q != k), R, c, gg._qual,
                              "grid_to_graph wrap loops over %s" % sorted(loops), "the two other axes", "wrong loop axes")
            else:
                k = one_axis(ctx, R, st.test, gg._qual, "grid_to_graph: if " + src[:60])
                for c in calls:
                    ti, tj = edge_triples(c)
                    chg = [q for q in range(3) if pyfe.src(ti.elts[q]) != pyfe.src(tj.elts[q])]
                    cvp = Poly.sym("xyz"[k])
                    ok1 = chg == [k] and py_poly(tj.elts[k]) == cvp + Poly.const(1) and py_poly(ti.elts[k]) == cvp
                    v2 = lin_entails(pya.atoms(st.test, True),
                                     Poly.sym("grid." + EXT_OF_AXIS[k]) - Poly.const(2) - cvp)
                    ctx.need(v2 is not None, "C15.DISP", "grid_to_graph: guard `%s` not recognised" % src)
                    okk = ok1 and v2
                    ctx.check(okk, "C15.DISP", c, gg._qual, "grid_to_graph edge %s - %s" % (pyfe.src(ti), pyfe.src(tj)),
                              "cell and its +1 neighbour on axis %s, guarded by %s" % ("xyz"[k], src),
                              "not the +1 edge of the axis its guard tests")
    ctx.floor(R, 20)
    ctx.floor("C15.DISP", 25)


def edge_triples(call):
    ti = tj = None
    for kw in call.keywords:
        if kw.arg in ("i", "j"):
            t = [x for x in ast.walk(kw.value) if isinstance(x, ast.Tuple) and len(x.elts) == 3]
            if kw.arg == "i":
                ti = t[0] if t else None
            else:
                tj = t[0] if t else None
    if ti is None or tj is None:
        raise AnalysisError("RDGraphSpaceEdge call without coordinate triples")
    return ti, tj


# ------------------------------------------------------------------------------------------------ C++
def _lin_cond(c):
    """G (Poly) with `c  <=>  G >= 0` over the integers, for a single relational test; else None"""
    c = strip(c)
    if c.get("kind") != "BinaryOperator" or c.get("opcode") not in ("<", "<=", ">", ">=", "=="):
        return None
    l, r = cxa.poly(kids(c)[0]), cxa.poly(kids(c)[1])
    op = c["opcode"]
    if op == "<":
        return [r - l - Poly.const(1)]
    if op == "<=":
        return [r - l]
    if op == ">":
        return [l - r - Poly.const(1)]
    if op == ">=":
        return [l - r]
    return [l - r, r - l]          # equality: both non-negative


def _holds(gs, var, value):
    """truth of the condition at var := value (a Poly), or None when it does not reduce to a constant"""
    out = True
    for g in gs:
        v = g.subs({var: value})
        if not v.isconst():
            return None
        out = out and v.constval() >= 0
    return out


def rule_cx(ctx, tu):
    R = "C15.AXIS"
    f = tu.fn("SimulationAlgorithm3DBase::GetNeighborIndex")
    # direction -> (axis, sign): from a switch, or from per-axis constant lookup tables indexed by the direction
    moves = {}
    for n in walk(f.body):
        if n.get("kind") == "CaseStmt":
            lab = cxa.const_int(kids(n)[0])
            for s in cxa.all_stores(n):
                if s.base and ((s.op in ("+=", "-=") and cxa.const_int(s.rhs) == 1) or s.op in ("++", "--")):
                    nm = cxfe.uname(strip(s.target, casts=True)).split("'")[0]
                    ctx.need(nm in AX, R, "GetNeighborIndex: case %s moves unknown variable %s" % (lab, nm))
                    moves[lab] = (AX[nm], 1 if s.op in ("+=", "++") else -1)
    if not moves:
        tables = {}      # one table per axis: name -> 6 offsets;  or one [6][3] table: name -> 6 rows of 3
        for n in walk(f.body):
            if n.get("kind") == "VarDecl" and "[6]" in n.get("type", {}).get("qualType", "") and kids(n):
                rows = kids(strip(kids(n)[-1]))
                lits = [cxa.const_int(x) for x in rows]
                if len(lits) == 6 and None not in lits:
                    tables[cxfe.uname(n)] = lits
                elif len(rows) == 6 and all(strip(r).get("kind") == "InitListExpr" and len(kids(strip(r))) == 3
                                            for r in rows):
                    m2 = [[cxa.const_int(x) for x in kids(strip(r))] for r in rows]
                    if all(None not in r for r in m2):
                        tables[cxfe.uname(n)] = m2
        vec = {}
        dirp = f.param_names()[3]
        for s in cxa.all_stores(f.body):
            sub = cxfe.subscript(s.rhs) if s.rhs is not None else None
            if not (s.base and s.op == "+=" and sub is not None):
                continue
            nm = s.base[1].split("'")[0]
            if cxfe.uname(strip(sub[0], casts=True)) in tables and cxfe.uname(strip(sub[1], casts=True)) == dirp:
                ctx.need(nm in AX, R, "GetNeighborIndex: unknown moved variable %s" % nm)
                vec[AX[nm]] = tables[cxfe.uname(strip(sub[0], casts=True))]
                continue
            sub2 = cxfe.subscript(sub[0])       # T[direction][k]
            col = cxa.const_int(sub[1])
            if sub2 is not None and col is not None and cxfe.uname(strip(sub2[0], casts=True)) in tables and \
                    cxfe.uname(strip(sub2[1], casts=True)) == dirp and 0 <= col < 3:
                ctx.need(nm in AX, R, "GetNeighborIndex: unknown moved variable %s" % nm)
                t2 = tables[cxfe.uname(strip(sub2[0], casts=True))]
                if isinstance(t2[0], list):
                    vec[AX[nm]] = [row[col] for row in t2]
        if len(vec) == 3:
            for d_ in range(6):
                step = [(ax, vec[ax][d_]) for ax in range(3) if vec[ax][d_] != 0]
                if len(step) == 1 and abs(step[0][1]) == 1:
                    moves[d_] = step[0]
    ctx.need(moves, R, "GetNeighborIndex: neither a direction switch nor direction lookup tables recognised")
    ctx.check(sorted(moves.values()) == sorted((k, s) for k in range(3) for s in (-1, 1)) and
              sorted(moves) == list(range(6)), "C15.DISP", f.node, f.qual, "GetNeighborIndex directions: %s" % moves,
              "six directions = +-1 on each axis", "the direction table is not the six unit moves")
    ctx.analysed["directions"] = {str(k): v for k, v in moves.items()}
    # periodic wrap of each axis: under the flag of axis k, coordinate k is mapped -1 -> extent-1 and extent -> 0
    coord = {0: None, 1: None, 2: None}
    for s in cxa.all_stores(f.body):
        if s.base and s.base[0] == "var" and s.base[1].split("'")[0] in ("xn", "yn", "zn"):
            coord[AX[s.base[1].split("'")[0]]] = s.base[1]
    seen_axes = set()
    for n in kids(f.body):
        if n.get("kind") != "IfStmt":
            continue
        c = cxfe.raw_kids(n)[0]
        flags = [k for k, t in cx_axis_tokens(c) if t.startswith("boundary_conditions[")]
        if len(flags) != 1 or len(conj_list(c)) != 1:
            continue
        k = flags[0]
        seen_axes.add(k)
        body = cxfe.raw_kids(n)[1]
        toks = cx_axis_tokens(n)
        axes = {a for a, _ in toks}
        ctx.check(axes == {k}, R, n, f.qual, text(n) + " " + text(body)[:30], "axis %s only" % "xyz"[k],
                  "the wrap of axis %s mixes axes: %s" % ("xyz"[k], sorted(t for _, t in toks)))
        v = coord[k]
        ext = EXT_OF_AXIS[k]
        stores = [s for s in cxa.all_stores(body) if s.base and s.base[1] == v and s.op == "="]
        comp = [s for s in cxa.all_stores(body) if s.base and s.base[1] == v and s.op in ("%=", "+=", "-=")]
        if not stores and comp:
            # `xn %= w` : the C++ remainder keeps the sign of xn, -1 stays -1
            ctx.violation("C15.DISP", n, f.qual, "periodic wrap of %s: %s" % (v, text(body)[:70]), "the periodic wrap of axis %s is "
                          "`%s %s %s`: for the coordinate -1 the C++ remainder is -1, not %s-1; the low side of the axis loses its "
                          "neighbour while the high side keeps it" % ("xyz"[k], v, comp[0].op, text(comp[0].rhs), ext))
            continue
        ctx.need(stores, R, "GetNeighborIndex: wrap of axis %s assigns nothing" % "xyz"[k])
        ok, why = False, "wrap form not recognised"
        if len(stores) == 1 and strip(stores[0].rhs, casts=True).get("kind") == "BinaryOperator" and \
                strip(stores[0].rhs, casts=True).get("opcode") == "%":
            l, r = kids(strip(stores[0].rhs, casts=True))
            ok = cxa.poly(r) == Poly.sym(ext) and cxa.poly(l) == Poly.sym(ext) + Poly.sym(v)
            why = "wrap is %s, expected (%s + %s) %% %s" % (text(stores[0].rhs), ext, v, ext)
        else:
            # branch form: each assignment sits under one relational test of the coordinate
            got = []
            recs = []

            def on_atom(node, facts, recs=recs):
                for x in walk(node):
                    for s_ in cxa.stores_of_node(x):
                        if s_.base and s_.base[1] == v and s_.op == "=":
                            recs.append((s_, x))
            conds = []
            for x in walk(body):
                if x.get("kind") == "IfStmt":
                    p_ = cxfe.raw_kids(x)
                    st = [s_ for s_ in cxa.all_stores(p_[1]) if s_.base and s_.base[1] == v and s_.op == "="]
                    # only the direct (non-nested-if) assignment of this branch
                    direct = [s_ for s_ in st if not any(y.get("kind") == "IfStmt" and s_.node in list(walk(y))
                                                         for y in walk(p_[1]))]
                    if direct:
                        conds.append((p_[0], direct[0]))
            ctx.need(len(conds) == 2, R, "GetNeighborIndex: wrap of axis %s has %d guarded assignments" % ("xyz"[k], len(conds)))
            E = Poly.sym(ext)
            okl = okh = False
            for cnd, st in conds:
                g = _lin_cond(cnd)
                ctx.need(g is not None, R, "GetNeighborIndex: wrap condition `%s` not a relational test" % text(cnd))
                val = cxa.poly(st.rhs)
                at_m1, at_0 = _holds(g, v, Poly.const(-1)), _holds(g, v, Poly.const(0))
                at_e, at_e1 = _holds(g, v, E), _holds(g, v, E - Poly.const(1))
                if val == E - Poly.const(1):        # the low wrap: fires exactly at -1
                    okl = at_m1 is True and at_0 is False
                    if not okl:
                        why = "`%s` does not select exactly the coordinate -1" % text(cnd)
                elif val == Poly.const(0):          # the high wrap: fires exactly at extent
                    okh = at_e is True and at_e1 is False
                    if not okh:
                        why = "`%s` does not select exactly the coordinate %s" % (text(cnd), ext)
                else:
                    why = "wrap assigns %s" % text(st.rhs)
            ok = okl and okh
        ctx.check(ok, "C15.DISP", n, f.qual, "periodic wrap of %s: %s" % (v, text(body)[:70]),
                  "-1 -> %s-1 and %s -> 0, identity inside" % (ext, ext),
                  "the periodic wrap of axis %s is wrong (%s): one side of the axis loses its neighbour while the other keeps it"
                  % ("xyz"[k], why))
    ctx.check(seen_axes == {0, 1, 2}, R, f.node, f.qual, "periodic wrap present for axes %s" % sorted(seen_axes), "", "an axis has "
              "no periodic wrap")
    # the range test dominates the encoded index
    rets = []

    class C(cxa.CanonFacts):
        def ret(self, s_, cfg):
            rets.append((s_, cfg))
    from .. import ir as ir_
    ir_.Engine(C(None, None, None), "must").run(ir_.cx_to_ir(f.body))
    enc = [(s_, cfg) for s_, cfg in rets if s_.a is not None and cxa.const_int(s_.a) != -1]
    ctx.need(len(enc) == 1, "C15.RADIX", "GetNeighborIndex: encode return not found")
    s_, cfg = enc[0]
    for k in range(3):
        v = coord[k]
        ok = ("0 <= %s" % v, True) in cfg and ("%s < %s" % (v, EXT_OF_AXIS[k]), True) in cfg
        ctx.check(ok, "C15.ENT", s_.src, f.qual, "index returned only where 0 <= %s < %s" % (v, EXT_OF_AXIS[k]),
                  "", "the neighbour index is encoded without the two-sided range test on %s" % v)
    p = cxa.poly(s_.a)
    want = Poly.sym(coord[0]) + Poly.sym(coord[1]) * Poly.sym("w") + Poly.sym(coord[2]) * Poly.sym("w") * Poly.sym("h")
    ctx.check(p == want, "C15.RADIX", s_.src, f.qual, text(s_.src), "index = xn + yn*w + zn*w*h", "encoded as %r" % p)
    others = [x for x, c_ in rets if x.a is not None and cxa.const_int(x.a) == -1]
    ctx.check(len(others) >= 1, "C15.ENT", f.node, f.qual, "outside the grid: -1", "", "no sentinel return")
    # opposed_direction: fixed-point-free involution pairing opposite moves
    init = tu.fn("SimulationAlgorithm3DBase::Init")
    opp = None
    for n in walk(init.body):
        if n.get("kind") == "CXXOperatorCallExpr" and cxfe.op_call(n) == "operator=" and \
                name_of(kids(n)[1]) == "opposed_direction":
            lits = [cxa.const_int(x) for x in walk(kids(n)[2]) if x.get("kind") == "IntegerLiteral"]
            opp = lits
    ctx.need(opp and len(opp) == 6, "C15.DISP", "Init: opposed_direction initialiser not found")
    ok = all(opp[opp[i]] == i and opp[i] != i for i in range(6)) and \
        all(moves.get(i) and moves.get(opp[i]) and moves[i][0] == moves[opp[i]][0] and
            moves[i][1] == -moves[opp[i]][1] for i in range(6))
    ctx.check(ok, "C15.DISP", init.node, init.qual, "opposed_direction = %s" % opp,
              "an involution pairing each direction with the opposite move of the same axis",
              "opposed_direction does not pair opposite moves: the flux subtracted for an interface is not the "
              "one added on the other side")
    # index <-> coordinate maps through IDX
    I = idxmod.Idx(tu)
    pk = I.param_kinds[f.qual]
    ctx.check([k and k[0] for k in pk] == ["x", "y", "z", "dir6"], "C15.RADIX", f.node, f.qual,
              "GetNeighborIndex(x, y, z, direction) argument kinds %s" % [k and k[0] for k in pk],
              "decoded as i%w, i%(w*h)/w, i/(w*h) at the call site", "coordinates are not decoded with strides (1, w, w*h)")


def conj_list(c):
    c = strip(c)
    if c.get("kind") == "BinaryOperator" and c.get("opcode") == "&&":
        return conj_list(kids(c)[0]) + conj_list(kids(c)[1])
    return [c]


def cx_axis_tokens(node):
    out = []
    for n in walk(node):
        if n.get("kind") in ("DeclRefExpr", "MemberExpr"):
            nm = name_of(n)
            if nm in AX:
                out.append((AX[nm], nm))
        sub = cxfe.subscript(n) if n.get("kind") in ("CXXOperatorCallExpr",) else None
        if sub is not None and name_of(sub[0]) == "boundary_conditions":
            k = cxa.const_int(sub[1])
            if k in (0, 1, 2):
                out.append((k, "boundary_conditions[%d]" % k))
    return out


def rule_axis_table(ctx, py, tu):
    """axis strings x,y,z <-> positions 0,1,2 across librdengine and initialize_grid"""
    R = "C15.AXIS"
    from .. import ffi
    f = tu.fn("engineexport_initialize_grid")
    for fn, call, name in ffi.call_sites(py):
        if name != "engineexport_initialize_grid":
            continue
        for a, p in zip(call.args, f.params):
            pn = p.get("name")
            m = re.match(r"^boundary_conditions_([xyz])$", pn or "")
            if m:
                key = [x.slice.value for x in ast.walk(a) if isinstance(x, ast.Subscript) and
                       isinstance(x.slice, ast.Constant)]
                ctx.check(key == [m.group(1)], R, a, fn._qual, "%s <- %s" % (pn, pyfe.src(a)[:60]),
                          "axis %s" % m.group(1), "parameter of axis %s receives the boundary mode of %s"
                          % (m.group(1), key))
    # C++: boundary_conditions_k stored at boundary_conditions[k]
    # table form: const char* modes[3] = {bc_x, bc_y, bc_z}; for(axis..) boundary_conditions[axis] = f(modes[axis])
    slots = 0
    for n in walk(f.body):
        if n.get("kind") == "VarDecl" and kids(n) and "char" in n.get("type", {}).get("qualType", "") and \
                "[3]" in n.get("type", {}).get("qualType", ""):
            il = strip(kids(n)[-1])
            els = [name_of(strip(x, casts=True)) for x in kids(il)] if il.get("kind") == "InitListExpr" else []
            if els and all(str(e_).startswith("boundary_conditions_") for e_ in els):
                tname = cxfe.uname(n)
                for k, e_ in enumerate(els):
                    ctx.check(e_ == "boundary_conditions_" + "xyz"[k], R, n, f.qual, "%s[%d] = %s" % (tname, k, e_), "axis %s" % "xyz"[k],
                              "slot %d of the per-axis table holds the mode of %s: axis %s takes another axis's boundary condition"
                              % (k, e_, "xyz"[k]))
                # the loop stores slot `axis` from table entry `axis`
                for m_ in walk(f.body):
                    if m_.get("kind") == "IfStmt":
                        c_ = cxfe.raw_kids(m_)[0]
                        subs = [cxfe.subscript(x) for x in walk(c_) if cxfe.subscript(x) is not None]
                        subs = [sb for sb in subs if cxfe.uname(strip(sb[0], casts=True)) == tname]
                        for sb in subs:
                            for s_ in cxa.all_stores(cxfe.raw_kids(m_)[1]):
                                sub2 = cxfe.subscript(s_.target)
                                if sub2 and name_of(sub2[0]) == "boundary_conditions":
                                    slots += 1
                                    ctx.check(cxa.canon(sub2[1]) == cxa.canon(sb[1]), R, s_.node, f.qual, text(m_)[:60] + " " +
                                              text(s_.node), "slot and table entry of the same axis", "the mode read at index %s is "
                                              "stored in slot %s" % (cxa.canon(sb[1]), cxa.canon(sub2[1])))
    for n in walk(f.body):
        if n.get("kind") == "IfStmt":
            c = cxfe.raw_kids(n)[0]
            ps = {name_of(x) for x in walk(c) if x.get("kind") == "DeclRefExpr" and
                  str(name_of(x)).startswith("boundary_conditions_") and name_of(x) in f.param_names()}
            if not ps:
                continue
            for s in cxa.all_stores(cxfe.raw_kids(n)[1]):
                sub = cxfe.subscript(s.target)
                if sub and name_of(sub[0]) == "boundary_conditions":
                    k = cxa.const_int(sub[1])
                    okk = ps == {"boundary_conditions_" + "xyz"[k]} if k in (0, 1, 2) else False
                    ctx.check(okk, R, s.node, f.qual, text(n) + " " + text(s.node), "axis %s" % "xyz"[k] if okk else "",
                              "mode of %s stored in slot %s" % (sorted(ps), k))


def rule_g2g(ctx, py):
    R = "C15.G2G"
    gg = py.fn("coarsegrain.grid_to_graph")
    src = pyfe.src(gg)
    defs = {st.targets[0].id: st.value for st in ast.walk(gg) if isinstance(st, ast.Assign) and
            isinstance(st.targets[0], ast.Name)}
    ctx.check("edge_dst" in defs and norm_ws(pyfe.src(defs["edge_dst"])) == "grid.cell_vol**1/3", R, gg, gg._qual,
              "edge_dst = cell_vol ** (1/3)", "distance = cell edge", "distance is not the cube root of the cell volume")
    ctx.check("edge_sfc" in defs and norm_ws(pyfe.src(defs["edge_sfc"])) == "edge_dst**2", R, gg, gg._qual,
              "edge_sfc = edge_dst ** 2", "surface = cell face", "surface is not the square of the cell edge")
    for c in pyfe.calls_in(gg):
        nm = pyfe.call_name(c)
        if nm == "RDGraphSpaceEdge":
            kw = {k.arg: pyfe.src(k.value) for k in c.keywords}
            ctx.check(kw.get("surface") == "edge_sfc" and kw.get("distance") == "edge_dst" and
                      kw.get("units_system") == "grid.units_system", R, c, gg._qual,
                      "RDGraphSpaceEdge(surface=%s, distance=%s, units_system=%s)" %
                      (kw.get("surface"), kw.get("distance"), kw.get("units_system")),
                      "face / edge wired to surface / distance", "surface / distance / units wired to the wrong values")
        if nm == "RDGraphSpaceNode":
            kw = {k.arg: pyfe.src(k.value) for k in c.keywords}
            loop = pyfe.parent(pyfe.parent(pyfe.parent(c)))
            ctx.check(kw.get("volume", "").startswith("grid.cell_vol") and kw.get("environment") == "grid.cell_env[i]"
                      and kw.get("units_system") == "grid.units_system", R, c, gg._qual,
                      "RDGraphSpaceNode(volume=%s, environment=%s)" % (kw.get("volume"), kw.get("environment")),
                      "node i carries the volume and environment of cell i", "node wired to the wrong cell data")
    ctx.floor(R, 9)


def rule_nbr_use(ctx, tu):
    """C15.NBR-USE -- engine code reaches the neighbour of (cell, direction) through the neighbour table (built from
    GetNeighborIndex, which applies the boundary conditions); a cell index obtained by adding an offset to another cell
    index ignores the periodic wrap and the reflecting faces"""
    R = "C15.NBR-USE"
    from .. import idx as idxmod
    I = idxmod.Idx(tu)
    bad = [r for r in I.subs if r["status"] == "bad" and " adds " in r.get("detail", "") and "kind cell" in r.get("detail", "")]
    for r in bad:
        ctx.violation(R, r["node"], r["fn"], r["text"][:80], r["detail"] + " -- the neighbour is not read from the neighbour table")
    # every direction of a cell is visited: a loop whose variable addresses the direction slot of the neighbour table (or of a
    # table laid out like it) runs over all six directions, 0..5 in steps of one.  Half of the directions (a pair-wise scheme
    # over the backward neighbours) misses the wrap-around partner, whose index is larger, on periodic axes
    nd = 0
    for f in tu.all_fns():
        if f.body is None:
            continue
        for lp in walk(f.body):
            if lp.get("kind") != "ForStmt":
                continue
            init, cond, inc, body = cxa.for_parts(lp)
            if init is None or cond is None or inc is None:
                continue
            vds = [x for x in walk(init) if x.get("kind") == "VarDecl"]
            if len(vds) != 1:
                continue
            v = uname(vds[0])
            used_as_dir = False
            for x in walk(body):
                sub = cxfe.subscript(x)
                if sub is not None and name_of(strip(sub[0], casts=True)) == "mesh_neighbors":
                    p_ = cxa.poly(sub[1])
                    if any(c == 1 and len(m) == 1 and m[0][0] == v for m, c in p_.t.items()) and \
                            any(c == 6 for m, c in p_.t.items()):
                        used_as_dir = True
            if not used_as_dir:
                continue
            nd += 1
            c_ = strip(cond, casts=True)
            full = kids(vds[0]) and cxa.const_int(kids(vds[0])[-1]) == 0 and c_.get("kind") == "BinaryOperator" and \
                c_.get("opcode") == "<" and cxa.const_int(kids(c_)[1]) == 6 and uname(strip(kids(c_)[0], casts=True)) == v and \
                all(not (c_.get("opcode") == "&&") for _ in (0,))
            i_ = strip(inc, casts=True)
            step1 = (i_.get("kind") == "UnaryOperator" and i_.get("opcode") == "++") or \
                (i_.get("kind") == "CompoundAssignOperator" and i_.get("opcode") == "+=" and cxa.const_int(kids(i_)[1]) == 1)
            ctx.check(bool(full and step1), R, lp, f.qual, "for(%s; %s; %s) over the directions" % (
                text(init)[:20], text(cond)[:20], text(inc)[:12]), "all six directions of the cell",
                "the direction loop does not visit all six directions (0..5 by one): exchanges with the skipped neighbours rely on "
                "the other cell's pass, which a periodic wrap (partner with a larger index) breaks")
    ctx.need(nd >= 4, R, "only %d direction loops over the neighbour table found" % nd)
    # ... and inside such a loop the only test that excludes a (cell, direction) pair is the table's own `-1`: a second opinion
    # (a pairwise neighbour predicate, a comparison of two entries) disagrees with the table where two cells touch through two
    # faces or an axis is one cell long
    from . import c01 as _c01
    for q_, fld in (("SimulationAlgorithm3DBase::Build_mesh_kd", "mesh_kd"),):
        g_ = tu.fn(q_)
        sites = [st_.node for st_ in cxa.all_stores(g_.body) if st_.base and st_.base[1] == fld and cxfe.subscript(st_.target) is not None]
        ctx.need(sites, R, "%s: stores to %s not found" % (q_, fld))
        _c01.dir_skips(ctx, R, g_, sites, _c01.nbr_locals(g_), also=(r"^D\w*(\[[^\]]*\])? (==|!=) 0$", r"^0 (==|!=) D\w*"))
    n = sum(1 for r in I.subs if r["status"] == "ok" and r.get("layout") and any(k[0] in ("cell", "cell?") for k in r["layout"]))
    ctx.ok(R, None, "engine", "%d subscripts address a cell through a loop index, a parameter or a neighbour-table entry" % n,
           "no cell index is computed by offset arithmetic")
    ctx.floor(R, 5)


def run(ctx):
    py, tu = ctx.py, ctx.cx
    rule_ent(ctx, py)
    rule_radix_py(ctx, py)
    rule_axis_py(ctx, py)
    rule_cx(ctx, tu)
    rule_nbr_use(ctx, tu)
    rule_axis_table(ctx, py, tu)
    rule_g2g(ctx, py)
    # shared clause: the converted graph keeps the grid's adjacency only if the graph's edge lookup is orientation-free and the
    # graph kinetics enumerate every edge (C01.NEIGH)
    from ..core import borrow
    from . import c01
    borrow(ctx, "C15", c01.rule_graph_neighbours, py)
    # shared clause: the contact surface / distance of a converted grid reach the engine converted from their own units (C04.STATE)
    from . import c04 as _c04
    borrow(ctx, "C15", _c04.rule_state, py)
    from .. import lints
    lints.run(ctx, "C15", ctx.py, ["rdgridspace", "coarsegrain", "rdgraphspace"])
    ctx.assume("symmetry of the neighbour relation as a theorem and equality of grid / graph trajectories are not "
               "decided; the rate law coincidence of grid and graph is C01.SIB")
