"""C16 -- coarse-graining: -1 discipline of the index map, kinds of the aggregation subscripts, clamped flags,
edge construction guards, un-coarse-graining divisor and layout, validity check first.
Does not decide conservation totals, centroid distances or identity-map equivalence."""
import ast

from .. import pyfe, pya, ir
from ..core import AnalysisError
from ..poly import Poly
from .c15 import py_poly

MAPS = {"coarsegrain.check_index_map_validity": "im", "coarsegrain.coarsegrain_grid": "index_map",
        "coarsegrain.coarsegrain_system": "index_map", "coarsegrain.uncoarsegrain_trajectory_data": "index_map"}


def map_loads(node, m):
    """Subscript nodes  m[...]  inside node"""
    return [n for n in ast.walk(node) if isinstance(n, ast.Subscript) and isinstance(n.value, ast.Name)
            and n.value.id == m and isinstance(n.ctx, ast.Load)]


def rule_m1(ctx, py):
    R = "C16.M1"
    total = 0
    for q, m in MAPS.items():
        f = py.fn(q)
        ctx.need(m in pyfe.params(f), R, "%s: index map parameter %s not found" % (q, m))
        seen = set()
        # locals that only ever hold an element of the map (`k = index_map[i]`) are map values under another name
        asg = {}
        for st in ast.walk(f):
            for t_ in (st.targets if isinstance(st, ast.Assign) else [st.target] if isinstance(st, (ast.AugAssign, ast.For)) else []):
                for x in ast.walk(t_):
                    if isinstance(x, ast.Name) and isinstance(x.ctx, ast.Store):
                        asg.setdefault(x.id, []).append(st)
        elems = {k_ for k_, sts_ in asg.items() if all(isinstance(s_, ast.Assign) and isinstance(s_.targets[0], ast.Name) and
                                                       isinstance(s_.value, ast.Subscript) and
                                                       isinstance(s_.value.value, ast.Name) and s_.value.value.id == m
                                                       for s_ in sts_)}

        def on(node, facts, f=f, m=m, q=q, seen=seen, elems=elems):
            nonlocal total
            for sub in ast.walk(node):
                if not isinstance(sub, ast.Subscript) or id(sub) in seen:
                    continue
                if isinstance(sub.value, ast.Name) and sub.value.id == m:
                    continue
                inner = map_loads(sub.slice, m) + [x for x in ast.walk(sub.slice) if isinstance(x, ast.Name) and x.id in elems]
                if not inner:
                    continue
                seen.add(id(sub))
                for ml in inner:
                    t = pyfe.src(ml)
                    ok = ("%s == -1" % t, False) in facts
                    total += 1
                    ctx.check(ok, R, sub, q, pyfe.src(sub)[:80], "used as a subscript only where %s != -1" % t,
                              "the map value %s may be -1 (dropped cell) and indexes %s with it: the last group is "
                              "addressed instead" % (t, pyfe.src(sub.value)))
        pya.must_facts(f, on_stmt=on, on_cond=on)
    ctx.floor(R, 9)


def rule_accept(ctx, py):
    """C16.ACCEPT -- the documented rules accept a map that drops cells of any environments: the 'no group mixes environments'
    rejection is reached only for a real group.  Every raise of the validator whose condition involves the cells' environments
    sits on a path where the group index under test is known not to be -1 (tested, or produced by a range())."""
    R = "C16.ACCEPT"
    f = py.fn("coarsegrain.check_index_map_validity")
    m = MAPS["coarsegrain.check_index_map_validity"]
    # names that carry environment data
    envn = set()
    for _ in range(4):
        for st in ast.walk(f):
            if isinstance(st, ast.Assign) and len(st.targets) == 1 and isinstance(st.targets[0], ast.Name):
                t = pyfe.src(st.value)
                if "get_cell_env_array" in t or "cell_env" in t or any(pya.mentions(t, e_) for e_ in envn):
                    envn.add(st.targets[0].id)
    ctx.need(envn, R, "check_index_map_validity: the environment array is not read")
    # names that carry the map (the parameter and array copies of it)
    mapn = {m}
    for _ in range(3):
        for st in ast.walk(f):
            if isinstance(st, ast.Assign) and len(st.targets) == 1 and isinstance(st.targets[0], ast.Name) and \
                    any(pya.mentions(pyfe.src(st.value), k) for k in mapn) and st.targets[0].id not in envn:
                mapn.add(st.targets[0].id)
    found = []

    # raises are IR leaves: visit them through their enclosing conditions
    def walk(stmts, facts, loops):
        for st in stmts:
            if isinstance(st, ast.If):
                walk(st.body, facts | set(pya.atoms(st.test, True)), loops)
                walk(st.orelse, facts | set(pya.atoms(st.test, False)), loops)
            elif isinstance(st, (ast.For, ast.While)):
                walk(st.body, facts, loops + [st])
            elif isinstance(st, ast.Raise):
                found.append((st, facts, loops))
    walk(f.body, set(), [])
    # flow facts (early `continue` on -1) come from the path engine
    flow = {}

    def on_cond(node, cfg):
        flow[id(node)] = cfg
    pya.must_facts(f, on_cond=on_cond)
    n = 0
    for st, facts, loops in found:
        cond_txt = " ; ".join(a for a, _ in facts if isinstance(a, str))
        if not any(pya.mentions(cond_txt, e_) for e_ in envn):
            continue
        n += 1
        # the innermost enclosing If of the raise carries the flow facts valid at its test
        p_ = pyfe.parent(st)
        cfg = set()
        while p_ is not None and p_ is not f:
            if isinstance(p_, ast.If) and id(p_.test) in flow:
                cfg |= set(flow[id(p_.test)])
            p_ = pyfe.parent(p_)
        allf = set(facts) | cfg
        okk = False
        import re

        def is_group(t):
            # a loop variable, or an element of the map
            t = t.strip()
            valvars = _loopvars([lp for lp in loops if isinstance(lp, ast.For) and
                                 any(pya.mentions(pyfe.src(lp.iter), k) for k in mapn) and
                                 not (isinstance(lp.iter, ast.Call) and pyfe.call_name(lp.iter) == "range")])
            # ... or a local that holds one (node = im[i])
            elem = {st_.targets[0].id for st_ in ast.walk(f) if isinstance(st_, ast.Assign) and len(st_.targets) == 1 and
                    isinstance(st_.targets[0], ast.Name) and isinstance(st_.value, ast.Subscript) and
                    pyfe.src(st_.value.value) in mapn}
            return t in valvars or t in elem or any(re.match(r"^%s\[.+\]$" % re.escape(k), t) for k in mapn)
        for a, pol in allf:
            if not isinstance(a, str):
                continue
            if pol is False and a.endswith(" == -1") and is_group(a[:-len(" == -1")]):
                okk = True
            if pol is False and a.endswith(" < 0") and is_group(a[:-len(" < 0")]):
                okk = True
            if pol is True and a.startswith("0 <= ") and is_group(a[len("0 <= "):]):
                okk = True
        # or: the group variable is produced by a range(...) (never negative)
        for lp in loops:
            if isinstance(lp, ast.For) and isinstance(lp.iter, ast.Call) and pyfe.call_name(lp.iter) == "range" and \
                    isinstance(lp.target, ast.Name) and not any(pya.mentions(pyfe.src(lp.iter), "size") for _ in (0,)) and \
                    pya.mentions(cond_txt, lp.target.id) and "max(" in pyfe.src(lp.iter):
                okk = True
        ctx.check(okk, R, st, f._qual, "raise under %s" % cond_txt[:70], "reached only for a group index other than -1",
                  "the environment-mixing rejection is reached without excluding -1: a map that drops cells of two different "
                  "environments is valid by the documented rules and is refused")
    ctx.need(n >= 1, R, "check_index_map_validity: no environment-related rejection found")
    ctx.floor(R, 1)


def rule_accept_geom(ctx, py):
    """C16.ACCEPT (second clause) -- the documented rules speak of the map's length, type, range, completeness, of the groups'
    environments and of the boundary conditions.  None of them is about volumes, surfaces or distances: a rejection guarded by a
    comparison of computed geometric quantities (exact equality of floating-point sums, in particular) refuses maps the rules
    accept."""
    R = "C16.ACCEPT"
    n = 0
    for q in ("coarsegrain.check_index_map_validity", "coarsegrain.coarsegrain_grid", "coarsegrain.coarsegrain_system"):
        f = py.fn(q)
        geo = set()
        for _ in range(4):
            for st in ast.walk(f):
                if isinstance(st, ast.Assign) and len(st.targets) == 1 and isinstance(st.targets[0], ast.Name):
                    t = pyfe.src(st.value)
                    if any(k in t for k in ("cell_vol", ".volume", ".surface", ".distance", "get_cell_vol")) or \
                            any(pya.mentions(t, g_) for g_ in geo):
                        geo.add(st.targets[0].id)
        for r_ in [x for x in ast.walk(f) if isinstance(x, ast.Raise)]:
            conds = []
            p_ = pyfe.parent(r_)
            while p_ is not None and p_ is not f:
                if isinstance(p_, (ast.If, ast.While)):
                    conds.append(pyfe.src(p_.test))
                p_ = pyfe.parent(p_)
            txt = " ; ".join(conds)
            bad = any(k in txt for k in ("cell_vol", ".volume", ".surface", ".distance", "get_cell_vol")) or \
                any(pya.mentions(txt, g_) for g_ in geo)
            n += 1
            ctx.check(not bad, R, r_, q, "raise under %s" % (txt[:70] or "(unconditional)"), "a documented rule (length, type, range, "
                      "completeness, environments, boundary conditions)", "a map is rejected on a condition about volumes / "
                      "surfaces / distances (`%s`): the documented rules contain no such condition, and a comparison of computed "
                      "floating-point quantities fires on valid maps" % txt[:70], nontrivial=False)
    ctx.need(n >= 6, R, "only %d raise statements found in the coarse-graining entry points" % n)


def _loopvars(loops):
    out = set()
    for lp in loops:
        if isinstance(lp, ast.For):
            out |= {x.id for x in ast.walk(lp.target) if isinstance(x, ast.Name)}
    return out


def rule_valid_first(ctx, py):
    R = "C16.VALID-FIRST"
    f = py.fn("coarsegrain.coarsegrain_grid")
    uses = []

    def gen(node):
        for c in pyfe.calls_in(node):
            if pyfe.call_name(c) == "check_index_map_validity" and c.args and pyfe.src(c.args[0]) == "index_map":
                return [("validated", True)]
        return []

    def on(node, facts):
        for n in ast.walk(node):
            if isinstance(n, ast.Name) and n.id == "index_map" and isinstance(n.ctx, ast.Load):
                par = pyfe.parent(n)
                if isinstance(par, ast.Call) and pyfe.call_name(par) == "check_index_map_validity":
                    continue
                uses.append((n, ("validated", True) in facts))
    pya.must_facts(f, on_stmt=on, on_cond=on, gen=gen)
    ctx.need(uses, R, "coarsegrain_grid: no use of index_map found")
    bad = [n for n, ok in uses if not ok]
    ctx.check(not bad, R, bad[0] if bad else f, f._qual, "%d uses of index_map" % len(uses),
              "all dominated by check_index_map_validity(index_map, ...)",
              "index_map is used at line %s before / without the validity check" % (bad[0].lineno if bad else "?"))
    # coarsegrain_system goes through coarsegrain_grid before touching the map
    g = py.fn("coarsegrain.coarsegrain_system")
    uses2 = []

    def gen2(node):
        for c in pyfe.calls_in(node):
            if pyfe.call_name(c) == "coarsegrain_grid" and len(c.args) > 1 and pyfe.src(c.args[1]) == "index_map":
                return [("validated", True)]
        return []

    def on2(node, facts):
        for sub in map_loads(node, "index_map"):
            uses2.append((sub, ("validated", True) in facts))
    pya.must_facts(g, on_stmt=on2, on_cond=on2, gen=gen2)
    bad = [n for n, ok in uses2 if not ok]
    ctx.check(uses2 and not bad, R, g, g._qual, "%d subscripts of index_map in coarsegrain_system" % len(uses2),
              "all after coarsegrain_grid validated the map", "map subscripted before validation")
    # the map that is validated is the map the caller gave: no entry point rewrites it on the way (converting the entries to
    # int first turns 0.5, '1' or True into indices the caller never named, and the type rule can no longer reject them)
    for q_, p_ in (("simulate.simulate_script", "cgmap"), ("simulate.simulate", "cgmap"), ("coarsegrain.coarsegrain_system", "index_map"),
                   ("coarsegrain.coarsegrain_grid", "index_map")):
        h_ = py.fn(q_)
        if p_ not in pyfe.params(h_):
            continue
        re_ = [st for st in ast.walk(h_) if isinstance(st, (ast.Assign, ast.AugAssign)) and any(
            isinstance(t, ast.Name) and t.id == p_ for t in (st.targets if isinstance(st, ast.Assign) else [st.target]))]
        ctx.check(not re_, R, re_[0] if re_ else h_, q_, "%s reaches the validity check as given" % p_, "",
                  "`%s` rewrites the map before it is validated: entries the documented rules reject (non-integers) are "
                  "turned into valid-looking indices" % (pyfe.src(re_[0])[:60] if re_ else ""), nontrivial=False)
    ctx.floor(R, 2)


def rule_kind(ctx, py):
    R = "C16.KIND"
    from .. import pysym
    P = lambda t: ast.parse(t, mode="eval").body
    f = py.fn("coarsegrain.coarsegrain_system")
    aug = [n for n in ast.walk(f) if isinstance(n, ast.AugAssign) and isinstance(n.op, ast.Add) and
           isinstance(n.target, ast.Subscript)]
    ctx.need(len(aug) >= 2, R, "coarsegrain_system: aggregation statements not found")
    # every retained cell contributes its amount and its flag: the only condition on an aggregation statement is the test that
    # the cell is kept (index_map[i] != -1)
    seen = {}

    def on_stmt(node, cfg):
        if any(node is a_ for a_ in aug):
            seen[id(node)] = cfg
    from .. import ir

    class _C(pya.PyFacts):
        inline_fn = f
    ir.Engine(_C(on_stmt), "must").run(ir.py_to_ir(f.body))
    for a in aug:
        extra = sorted(("" if pol else "not ") + t for t, pol in seen.get(id(a), ()) if isinstance(t, str) and
                       not t.startswith("iter:") and "index_map" not in t and
                       not (not pol and t.replace(" ", "") in (pyfe.src(a.value).replace(" ", "") + "==0",
                                                                "0==" + pyfe.src(a.value).replace(" ", ""))) and not any(
                           t.startswith(pre) for pre in ("0 <= ",)) and " < " not in t)
        ctx.check(not extra, R, a, f._qual, pyfe.src(a)[:70] + " (unconditional for kept cells)", "every kept cell contributes",
                  "the contribution of a cell is skipped under `%s`: amounts or chemostat flags of such cells are left out of "
                  "their group" % "; ".join(extra)[:120], nontrivial=False)
    for a in aug:
        srcs = [s_ for s_ in ast.walk(a.value) if isinstance(s_, ast.Subscript)]
        ctx.need(len(srcs) == 1, R, "aggregation right-hand side is not one element")
        loops = {}
        p_ = pyfe.parent(a)
        while p_ is not None and p_ is not f:
            if isinstance(p_, ast.For) and isinstance(p_.target, ast.Name):
                loops[p_.target.id] = pysym.isrc(p_.iter, f)
            p_ = pyfe.parent(p_)
        cell = [v for v, r in loops.items() if r == "range(system.space.size())"]
        spec = [v for v, r in loops.items() if r == "range(system.network.nspecies())"]
        ctx.need(len(cell) == 1 and len(spec) == 1, R, "aggregation loops over (cells, species) not recognised: %s" % loops)
        i, s_ = cell[0], spec[0]
        lhs = pysym.frat(a.target.slice, f)
        rhs = pysym.frat(srcs[0].slice, f)
        want_rhs = pysym.frat(P("%s * system.space.size() + %s" % (s_, i)), f)
        want_lhs = pysym.frat(P("%s * cgspace.size() + index_map[%s]" % (s_, i)), f)
        ctx.check(rhs.equals(want_rhs), R, srcs[0], f._qual, pyfe.src(srcs[0])[:80],
                  "fine entry (species %s, cell %s): species*size + cell" % (s_, i),
                  "reads index %r, expected species*size + cell of the fine grid" % (rhs,))
        ctx.check(lhs.equals(want_lhs), R, a.target, f._qual, pyfe.src(a.target)[:80],
                  "group entry (species %s, group index_map[%s]) with the coarse-grained size as stride" % (s_, i),
                  "writes index %r, expected species*cgsize + map[cell]" % (lhs,))
        base = pysym.isrc(srcs[0].value, f)
        tgt = pyfe.src(a.target.value)
        okb = (tgt == "cgstate" and base == "system.state.value") or (tgt == "cgchstt" and base == "system.chemostats")
        ctx.check(okb, R, a, f._qual, "%s accumulates %s" % (tgt, base), "amounts into amounts, flags into flags",
                  "%s accumulates entries of %s" % (tgt, base))
    ctx.check(pysym.isrc(P("cgspace"), f).startswith("coarsegrain_grid(system.space, index_map)"), R, f, f._qual,
              "cgspace = coarsegrain_grid(system.space, index_map)", "stride is the size of the space built from this map",
              "the coarse space is not built from this system's grid and this map")
    # allocation extents
    def alloc(v):
        """(extent expression, element type or None) of an accumulator allocation"""
        if isinstance(v, ast.ListComp) and len(v.generators) == 1 and isinstance(v.elt, ast.Constant) and \
                isinstance(v.generators[0].iter, ast.Call) and pyfe.call_name(v.generators[0].iter) == "range" and \
                len(v.generators[0].iter.args) == 1:
            return v.generators[0].iter.args[0], None
        if isinstance(v, ast.BinOp) and isinstance(v.op, ast.Mult):
            for a_, b_ in ((v.left, v.right), (v.right, v.left)):
                if isinstance(a_, ast.List) and len(a_.elts) == 1 and isinstance(a_.elts[0], ast.Constant):
                    return b_, None
        if isinstance(v, ast.Call) and pyfe.call_name(v).split(".")[-1] in ("zeros", "full") and v.args:
            dt = None
            for k_ in v.keywords:
                if k_.arg == "dtype":
                    dt = pyfe.src(k_.value)
            if pyfe.call_name(v).endswith("zeros") and len(v.args) > 1:
                dt = pyfe.src(v.args[1])
            return v.args[0], dt
        return None
    for name in ("cgstate", "cgchstt"):
        d = None
        for st in ast.walk(f):
            if isinstance(st, ast.Assign) and isinstance(st.targets[0], ast.Name) and st.targets[0].id == name and \
                    alloc(st.value) is not None:
                d = st
        ctx.need(d is not None, R, "allocation of %s not found" % name)
        ext, dt = alloc(d.value)
        e = pysym.frat(ext, f)
        w = pysym.frat(P("cgspace.size() * system.network.nspecies()"), f)
        ctx.check(e.equals(w), R, d, f._qual, "%s has %s entries" % (name, pyfe.src(ext)),
                  "groups x species", "wrong extent %r" % (e,))
        if name == "cgstate":
            ctx.check(dt in (None, "float", "np.float64", "np.double", "'float64'", "'float'", "numpy.float64"), R, d, f._qual,
                      "%s accumulates real amounts (element type %s)" % (name, dt or "Python numbers"), "no truncation on +=",
                      "the state accumulator is an array of %s: every `+=` of a fractional amount is truncated, the coarse-"
                      "grained totals are not the totals of the retained cells" % dt, nontrivial=False)
    ctx.floor(R, 8)


def rule_clamp(ctx, py):
    R = "C16.CLAMP"
    f = py.fn("coarsegrain.coarsegrain_system")
    found = False
    for n in ast.walk(f):
        if isinstance(n, ast.For) and "cgchstt" in pyfe.src(n.iter):
            for st in n.body:
                if isinstance(st, ast.Assign) and pyfe.src(st.targets[0]) == "cgchstt[%s]" % pyfe.src(n.target):
                    v = pyfe.src(pya._strip_int(st.value)).replace(" ", "")
                    found = True
                    ok = v in ("min(cgchstt[%s],1)" % pyfe.src(n.target), "min(1,cgchstt[%s])" % pyfe.src(n.target)) \
                        and pyfe.src(n.iter).replace(" ", "") == "range(len(cgchstt))"
                    ctx.check(ok, R, st, f._qual, pyfe.src(st), "every group flag is min(sum of member flags, 1)",
                              "the group flag is not the clamped sum of its members' flags")
    # the same element-wise map written as a comprehension over the list itself
    for st in ast.walk(f):
        if isinstance(st, ast.Assign) and pyfe.src(st.targets[0]) == "cgchstt" and isinstance(st.value, ast.ListComp) and \
                len(st.value.generators) == 1 and pyfe.src(st.value.generators[0].iter) == "cgchstt":
            g_ = st.value.generators[0]
            v = pyfe.src(pya._strip_int(st.value.elt)).replace(" ", "")
            e_ = pyfe.src(g_.target)
            found = True
            ctx.check(v in ("min(%s,1)" % e_, "min(1,%s)" % e_) and not g_.ifs, R, st, f._qual, pyfe.src(st)[:80],
                      "every group flag is min(sum of member flags, 1)", "the group flag is not the clamped sum of its members' flags")
    ctx.need(found, R, "clamping loop over cgchstt not found")
    # the flags handed to the coarse system are the clamped ones
    asg = [st for st in ast.walk(f) if isinstance(st, ast.Assign) and pyfe.src(st.targets[0]) == "cgsystem.chemostats"]
    ctx.check(len(asg) == 1 and pyfe.src(asg[0].value) == "cgchstt", R, asg[0] if asg else f, f._qual,
              "cgsystem.chemostats = cgchstt", "", "the coarse system does not receive the aggregated flags")
    asg = [st for st in ast.walk(f) if isinstance(st, ast.Assign) and pyfe.src(st.targets[0]) == "cgsystem.state"]
    ctx.check(len(asg) == 1 and pyfe.src(asg[0].value) == "cgstate", R, asg[0] if asg else f, f._qual,
              "cgsystem.state = cgstate", "", "the coarse system does not receive the aggregated state")
    ctx.floor(R, 3)


def rule_edge(ctx, py):
    R = "C16.EDGE"
    f = py.fn("coarsegrain.coarsegrain_grid")
    recs = []

    def on(node, facts):
        for c in pyfe.calls_in(node):
            nm = pyfe.call_name(c)
            if nm in ("edges.append", "out_edge_coords.append"):
                recs.append((nm, c, facts, node))
        if isinstance(node, ast.AugAssign) and pyfe.src(node.target).endswith(".surface"):
            recs.append(("surface+=", node, facts, node))
    pya.must_facts(f, on_stmt=on)
    app = [r for r in recs if r[0] == "edges.append"]
    keys = [r for r in recs if r[0] == "out_edge_coords.append"]
    acc = [r for r in recs if r[0] == "surface+="]
    if len(app) == 1 and len(acc) == 1 and not keys and _edge_by_dict(ctx, R, f, app[0], acc[0]):
        _edge_key(ctx, R, f)
        ctx.floor(R, 8)
        return
    ctx.need(len(app) == 1 and len(keys) == 1 and len(acc) == 1, R, "edge construction idiom not recognised")
    nm, c, facts, node = app[0]
    need = [("i == j", False), ("i == -1", False), ("j == -1", False), ("c in out_edge_coords", False)]
    for w in need:
        ctx.check(w in facts, R, c, f._qual, "edges.append under %s%s" % ("not " if not w[1] else "", w[0]),
                  "dominates the append", "an output edge is appended without the test `%s%s`: self-loops, edges "
                  "to dropped cells or duplicate edges appear" % ("not " if not w[1] else "", w[0]))
    # key list and edge list appended together (same block)
    ctx.check(pyfe.parent(pyfe.parent(app[0][1])) is pyfe.parent(pyfe.parent(keys[0][1])), R, keys[0][1], f._qual,
              "out_edge_coords.append(c) next to edges.append(...)", "paired in one block",
              "the key list and the edge list are not appended together")
    kw = {k.arg: pyfe.src(k.value) for k in [x for x in ast.walk(c) if isinstance(x, ast.Call) and
                                              pyfe.call_name(x) == "RDGraphSpaceEdge"][0].keywords}
    ctx.check(kw.get("i") == "c[0]" and kw.get("j") == "c[1]" and kw.get("surface") == "edge.surface", R, c, f._qual,
              "RDGraphSpaceEdge(i=%s, j=%s, surface=%s)" % (kw.get("i"), kw.get("j"), kw.get("surface")),
              "endpoints are the two groups, surface starts at the shared face", "wrong endpoints / surface")
    # existing edge accumulates
    nm, n, facts, node = acc[0]
    ctx.check(("c in out_edge_coords", True) in facts and ("out_edge.i == c[0]", True) in facts and
              ("out_edge.j == c[1]", True) in facts and pyfe.src(n.value) == "edge.surface", R, n, f._qual,
              pyfe.src(n), "the matching existing edge accumulates the face", "surface accumulated on the wrong edge")
    _edge_key(ctx, R, f)
    ctx.floor(R, 8)


def _edge_by_dict(ctx, R, f, app, acc):
    """the same bookkeeping kept in a dictionary: D = {} ; X = D.get(c) ; if X is None: E = RDGraphSpaceEdge(...); edges.append(E);
    D[c] = E ; else: X.surface += edge.surface.  One output edge per key because the only writer of D is next to the only append."""
    _, c, facts, node = app
    _, n, afacts, _ = acc
    dicts = {st.targets[0].id for st in ast.walk(f) if isinstance(st, ast.Assign) and isinstance(st.targets[0], ast.Name) and
             isinstance(st.value, ast.Dict) and not st.value.keys}
    stores = [st for st in ast.walk(f) if isinstance(st, ast.Assign) and isinstance(st.targets[0], ast.Subscript) and
              pyfe.src(st.targets[0].value) in dicts]
    if len(stores) != 1 or pyfe.src(stores[0].targets[0].slice) != "c":
        return False
    D = pyfe.src(stores[0].targets[0].value)
    # D is touched by nothing else than {} / .get(c) / `c in D` / D[c] (no pop, clear, del, update)
    uses = [x for x in ast.walk(f) if isinstance(x, ast.Name) and x.id == D]
    for u in uses:
        p = pyfe.parent(u)
        ok = (isinstance(p, ast.Assign) and u in p.targets) or \
             (isinstance(p, ast.Attribute) and p.attr == "get" and isinstance(pyfe.parent(p), ast.Call) and
              pyfe.src(pyfe.parent(p).args[0]) == "c" and len(pyfe.parent(p).args) == 1) or \
             (isinstance(p, ast.Subscript) and pyfe.src(p.slice) == "c") or \
             (isinstance(p, ast.Compare) and len(p.ops) == 1 and isinstance(p.ops[0], (ast.In, ast.NotIn)) and
              pyfe.src(p.left) == "c")
        if not ok:
            return False
    # the branch: enclosing If of the append whose test decides "c already has an edge"
    iff = pyfe.parent(pyfe.parent(c))
    while iff is not None and not isinstance(iff, ast.If):
        iff = pyfe.parent(iff)
    if iff is None:
        return False
    from .. import pysym

    def reach(e, at, ctor=False):
        """`e` with each local name replaced by the value of the last plain assignment that precedes statement `at` in an
        enclosing block (none of the statements in between assigns it)"""
        def value_of(name):
            st = at
            while st is not None and st is not f:
                par = pyfe.parent(st)
                for fld in ("body", "orelse"):
                    blk = getattr(par, fld, None)
                    if isinstance(blk, list) and any(st is x for x in blk):
                        k = [x is st for x in blk].index(True)
                        for prev in reversed(blk[:k]):
                            asg = [x for x in ast.walk(prev) if isinstance(x, ast.Name) and x.id == name and
                                   isinstance(x.ctx, ast.Store)]
                            if asg:
                                if isinstance(prev, ast.Assign) and len(prev.targets) == 1 and \
                                        isinstance(prev.targets[0], ast.Name):
                                    return prev.value
                                return None
                if isinstance(par, (ast.For, ast.While)):
                    return None
                st = par
            return None

        class _R(ast.NodeTransformer):
            def visit_Name(self_, nd):
                if isinstance(nd.ctx, ast.Load) and nd.id not in ("c", D):
                    v_ = value_of(nd.id)
                    if v_ is not None and isinstance(v_, ast.Call) and pyfe.src(v_.func) == (
                            "RDGraphSpaceEdge" if ctor else "%s.get" % D):
                        return v_
                return nd
        import copy
        return pyfe.src(_R().visit(copy.deepcopy(e))).replace(" ", "")
    t = reach(iff.test, iff)
    absent = ("%s.get(c)isNone" % D, "cnotin%s" % D, "not%s.get(c)" % D)
    present = ("%s.get(c)isnotNone" % D, "cin%s" % D, "%s.get(c)" % D)
    if t not in absent + present:
        return False
    new_b, old_b = (iff.body, iff.orelse) if t in absent else (iff.orelse, iff.body)
    in_ = lambda x, blk: any(x is y for s_ in blk for y in ast.walk(s_))
    ctx.check(in_(c, new_b) and in_(stores[0], new_b) and in_(n, old_b), R, iff, f._qual,
              "if %s: new edge + %s[c] = edge  else: accumulate" % (pyfe.src(iff.test), D),
              "append and key store on the `absent` side, accumulation on the `present` side",
              "the new edge, its key and the accumulation are not on the right sides of `%s`" % pyfe.src(iff.test))
    for w in [("i == j", False), ("i == -1", False), ("j == -1", False)]:
        ctx.check(w in facts, R, c, f._qual, "edges.append under not %s" % w[0], "dominates the append",
                  "an output edge is appended without the test `not %s`: self-loops or edges to dropped cells appear" % w[0])
    # the object appended is the object stored under the key; the one accumulated is the one found under the key
    e_app = reach(c.args[0], node, ctor=True) if c.args else ""
    e_sto = reach(stores[0].value, stores[0], ctor=True)
    ctx.check(e_app == e_sto and "RDGraphSpaceEdge(" in e_app, R, stores[0], f._qual, "%s next to edges.append(...)" %
              pyfe.src(stores[0]), "the edge appended is the edge remembered under c",
              "the key table does not remember the edge that was appended")
    tgt = reach(n.target.value, n)
    ctx.check(tgt in ("%s.get(c)" % D, "%s[c]" % D) and pyfe.src(n.value) == "edge.surface", R, n, f._qual, pyfe.src(n),
              "the existing edge of this key accumulates the face", "surface accumulated on the wrong edge")
    calls = [x for x in ast.walk(ast.parse(e_app, mode="eval")) if isinstance(x, ast.Call) and
             pyfe.call_name(x) == "RDGraphSpaceEdge"]
    kw = {k.arg: pyfe.src(k.value) for k in calls[0].keywords}
    ctx.check(kw.get("i") == "c[0]" and kw.get("j") == "c[1]" and kw.get("surface") == "edge.surface", R, c, f._qual,
              "RDGraphSpaceEdge(i=%s, j=%s, surface=%s)" % (kw.get("i"), kw.get("j"), kw.get("surface")),
              "endpoints are the two groups, surface starts at the shared face", "wrong endpoints / surface")
    return True


def _edge_key(ctx, R, f):
    # c is the ordered pair of the two group indices
    defs = {st.targets[0].id: pyfe.src(st.value) for st in ast.walk(f) if isinstance(st, ast.Assign) and
            isinstance(st.targets[0], ast.Name)}
    ctx.check(defs.get("i") == "index_map[edge.i]" and defs.get("j") == "index_map[edge.j]" and
              defs.get("c", "").replace(" ", "") == "(min(i,j),max(i,j))", R, f, f._qual,
              "i, j, c = %s, %s, %s" % (defs.get("i"), defs.get("j"), defs.get("c")),
              "groups of the two endpoints, as an ordered pair", "edge key not built from the endpoints' groups")


def rule_uncg(ctx, py, R="C16.UNCG"):
    from .. import pysym
    f = py.fn("coarsegrain.uncoarsegrain_trajectory_data")
    sts = [n for n in ast.walk(f) if isinstance(n, (ast.Assign, ast.AugAssign)) and
           isinstance(n.targets[0] if isinstance(n, ast.Assign) else n.target, ast.Subscript) and
           pyfe.src((n.targets[0] if isinstance(n, ast.Assign) else n.target).value) == "data"]
    ctx.need(sts, R, "store to data[...] not found")
    KEEP = {"state_size", "in_state", "cg_nodes", "cg_space", "data"}
    for st in sts:
        tgt = st.targets[0] if isinstance(st, ast.Assign) else st.target
        loops = {}
        p = pyfe.parent(st)
        while p is not None and p is not f:
            if isinstance(p, ast.For):
                loops[pyfe.src(p.target)] = pysym.isrc(p.iter, f, stop=KEEP)
            p = pyfe.parent(p)
        # a vectorised store `data[base + np.array(members)] = v` writes, for every j of `members`, data[base + j]
        sl = pysym.inline(tgt.slice, f, stop=set(loops) | KEEP)

        class _Vec(ast.NodeTransformer):
            def visit_Call(self_, c):
                if pyfe.call_name(c) in ("np.array", "np.asarray", "numpy.array") and len(c.args) == 1 and "j" not in loops:
                    loops["j"] = pyfe.src(c.args[0])
                    return ast.Name(id="j", ctx=ast.Load())
                return self_.generic_visit(c)
        sl = _Vec().visit(sl)
        idx = pysym.poly_of(pysym.rat(sl))
        want = Poly.sym("n") * Poly.sym("state_size") + Poly.sym("s") * Poly.sym("ncg_space.size()") + Poly.sym("j")
        ctx.check(idx == want and loops.get("j") == "cg_nodes[node_index]", R, tgt, f._qual,
                  pyfe.src(tgt)[:80], "[sample][species][member cell j of the group]",
                  "output index %r is not sample*state_size + species*size + cell" % idx)
        v = st.value
        got = pysym.frat(v, f, stop=set(loops) | KEEP)
        wantv = pysym.rat(ast.parse("in_state[n, s, node_index] / len(cg_nodes[node_index])", mode="eval").body)
        ctx.check(isinstance(st, ast.Assign) and got.equals(wantv), R, v, f._qual, pyfe.src(v)[:90],
                  "the group's value divided by the size of that same group",
                  "a cell receives `%s`, not the node's content / number of cells of the node: the cells of a node no longer add "
                  "up to the node, species totals of the returned trajectory differ from the simulated ones" % pyfe.src(v)[:80])
    P_ = lambda t: ast.parse(t, mode="eval").body
    ss = pysym.frat(P_("state_size"), f)
    ctx.check(ss.equals(pysym.rat(P_("trajectory.system.network.nspecies() * ncg_space.size()"))), R, f, f._qual,
              "state_size = %r" % (ss,), "species x fine cells", "wrong stride")
    rs = [c for c in pyfe.calls_in(f) if isinstance(c.func, ast.Attribute) and c.func.attr == "reshape"]
    shape = None
    if len(rs) == 1 and rs[0].args:
        a0 = pysym.inline(rs[0].args[0], f) if len(rs[0].args) == 1 else ast.Tuple(elts=[pysym.inline(a, f) for a in rs[0].args],
                                                                                ctx=ast.Load())
        if isinstance(a0, ast.Tuple) and len(a0.elts) == 3:
            shape = [pyfe.src(e).replace(" ", "") for e in a0.elts]
    ctx.check(shape == ["trajectory.nsamples()", "trajectory.system.network.nspecies()", "cg_space.size()"] or
              shape == ["trajectory.nsamples()", "trajectory.system.network.nspecies()", "trajectory.system.space.size()"], R,
              rs[0] if rs else f, f._qual, "reshape(%s)" % (shape,),
              "(sample, species, group)", "coarse data not viewed as (sample, species, group)")
    # membership lists: cell i joins group index_map[i] (guard checked by C16.M1)
    ap = [c for c in pyfe.calls_in(f) if pyfe.call_name(c).endswith(".append")]
    ctx.check(len(ap) == 1 and pyfe.src(ap[0]) == "cg_nodes[index_map[i]].append(i)", R, ap[0] if ap else f, f._qual,
              pyfe.src(ap[0]) if ap else "?", "cell i is a member of group index_map[i]", "membership lists wrong")
    ctx.floor(R, 5)


def rule_pos_order(ctx, py):
    """the list of cell positions is built in linear-index order (z outermost, x fastest), entry [x, y, z] * edge"""
    R = "C16.POS-ORDER"
    from .. import pysym
    f = py.fn("coarsegrain.coarsegrain_grid")
    order, elt = None, None
    for n in ast.walk(f):
        if isinstance(n, ast.Assign) and pyfe.src(n.targets[0]) == "in_node_pos" and isinstance(n.value, ast.ListComp):
            order = [(pyfe.src(g.target), pyfe.src(g.iter)) for g in n.value.generators]
            elt = n.value.elt
            where = n
    if order is None:
        for n in ast.walk(f):
            if isinstance(n, ast.Call) and pyfe.call_name(n) == "in_node_pos.append":
                elt = n.args[0]
                order = []
                p_ = pyfe.parent(n)
                while p_ is not None and p_ is not f:
                    if isinstance(p_, ast.For):
                        order.insert(0, (pyfe.src(p_.target), pyfe.src(p_.iter)))
                    p_ = pyfe.parent(p_)
                where = n
    ctx.need(order is not None and elt is not None, R, "coarsegrain_grid: construction of in_node_pos not found")
    its = [it.replace(" ", "") for _, it in order]
    ctx.check(its == ["range(grid.d)", "range(grid.h)", "range(grid.w)"], R, where, f._qual,
              "positions listed by loops over %s" % [it for _, it in order], "z outermost, then y, then x: entry number = linear "
              "cell index", "the positions are listed in the order %s, which is not the linear cell index order (z, y, x): "
              "centroids and distances are computed from the wrong cells on grids with unequal dimensions" % its)
    if its == ["range(grid.d)", "range(grid.h)", "range(grid.w)"] and isinstance(elt, (ast.List, ast.Tuple)) and len(elt.elts) == 3:
        z, y, x = (v for v, _ in order)
        got = [pysym.frat(e, f) for e in elt.elts]
        want = [pysym.frat(ast.parse("%s * grid_cell_edge" % v, mode="eval").body, f) for v in (x, y, z)]
        ctx.check(all(g.equals(w) for g, w in zip(got, want)), R, elt, f._qual, pyfe.src(elt), "[x, y, z] * cell edge", "position "
                  "components are not (x, y, z) times the cell edge")
    ctx.floor(R, 1)


def rule_units(ctx, py):
    """the aggregated amounts are re-wrapped with the units of the state they were read from"""
    R = "C16.UNITS"
    f = py.fn("coarsegrain.coarsegrain_system")
    asg = [st for st in ast.walk(f) if isinstance(st, ast.Assign) and pyfe.src(st.targets[0]) == "cgsystem.state"]
    ctx.need(len(asg) == 1, R, "coarsegrain_system: assignment of the coarse state not found")
    v = asg[0].value
    name = pyfe.src(v)
    # follow the definitions of that name backwards: the last one before the assignment must be the re-wrap
    defs = [st for st in f.body if isinstance(st, ast.Assign) and pyfe.src(st.targets[0]) == name and st.lineno < asg[0].lineno]
    last = defs[-1].value if defs else v
    ok = isinstance(last, ast.Call) and pyfe.call_name(last) == "UnitArray" and len(last.args) >= 2 and \
        pyfe.src(last.args[1]) == "system.state.units"
    ctx.check(ok, R, defs[-1] if defs else asg[0], f._qual, "coarse state = " + pyfe.src(last)[:70], "numbers read from "
              "system.state.value are labelled with system.state.units", "the aggregated numbers (taken from system.state.value) "
              "reach the coarse system without the units of the state they came from: they are re-read in the system's default "
              "amount unit")
    ctx.floor(R, 1)


def rule_cgscript(ctx, py):
    """C16.SCRIPT -- the coarse-grained run is the given script with only its system replaced: a copy of the script whose
    `system` is then assigned, or a constructor call that passes every other constructor parameter from the script"""
    R = "C16.SCRIPT"
    f = py.fn("simulate.simulate_script")
    rec = [c for c in pyfe.calls_in(f) if pyfe.call_name(c) == "simulate_script"]
    ctx.need(len(rec) == 1 and rec[0].args, R, "simulate_script: the run on the coarse-grained script is not found")
    a0 = rec[0].args[0]
    ctx.need(isinstance(a0, ast.Name), R, "simulate_script: coarse-grained script is not a local")
    name = a0.id
    defs = [st for st in ast.walk(f) if isinstance(st, ast.Assign) and len(st.targets) == 1 and
            pyfe.src(st.targets[0]) == name]
    ctx.need(len(defs) == 1, R, "simulate_script: %s assigned %d times" % (name, len(defs)))
    v = defs[0].value
    sysasg = [st for st in ast.walk(f) if isinstance(st, ast.Assign) and pyfe.src(st.targets[0]) == name + ".system"]
    other = [st for st in ast.walk(f) if isinstance(st, (ast.Assign, ast.AugAssign)) and
             pyfe.src(st.targets[0] if isinstance(st, ast.Assign) else st.target).startswith(name + ".") and st not in sysasg]
    cg = lambda e: isinstance(e, ast.Call) and pyfe.call_name(e) == "coarsegrain_system" and len(e.args) == 2 and \
        pyfe.src(e.args[0]) in ("script.system", name + ".system") and pyfe.src(e.args[1]) == "cgmap"
    if isinstance(v, ast.Call) and pyfe.src(v) in ("script.copy()", "copy.deepcopy(script)", "cpy.deepcopy(script)"):
        ctx.check(len(sysasg) == 1 and cg(sysasg[0].value) and not other, R, defs[0], f._qual,
                  "%s = script.copy(); %s.system = coarsegrain_system(<its system>, cgmap)" % (name, name),
                  "every other field is the script's", "the copy of the script is modified beyond its system: %s" %
                  [pyfe.src(o)[:50] for o in other][:2])
    elif isinstance(v, ast.Call) and pyfe.call_name(v) == "RDScript":
        init = py.fn("rdscript.RDScript.__init__")
        ps = [p for p in pyfe.params(init) if p != "self"]
        kw = {k.arg: k.value for k in v.keywords}
        for i, a in enumerate(v.args):
            kw[ps[i]] = a
        for p_ in ps:
            if p_ == "system":
                ctx.check(p_ in kw and cg(kw[p_]), R, v, f._qual, "system = coarsegrain_system(script.system, cgmap)", "", "the "
                          "coarse-grained script does not receive the coarse-grained system")
                continue
            ctx.check(p_ in kw and pyfe.src(kw[p_]) in ("script.%s" % p_, "script._%s" % p_), R, v, f._qual,
                      "RDScript(%s = %s)" % (p_, pyfe.src(kw[p_]) if p_ in kw else "<missing>"), "taken from the script",
                      "the coarse-grained script is built without the script's `%s` (constructor default instead): with the "
                      "identity map the run no longer reproduces the plain run" % p_)
    else:
        ctx.error(R, "simulate_script: construction of the coarse-grained script `%s` not recognised" % pyfe.src(v)[:60])
    unc = [c for c in pyfe.calls_in(f) if pyfe.call_name(c) == "uncoarsegrain_trajectory"]
    ctx.check(len(unc) == 1 and [pyfe.src(a) for a in unc[0].args] == [pyfe.src(t) for st in ast.walk(f) if isinstance(st, ast.Assign)
              and st.value is rec[0] for t in st.targets] + ["script.system", "cgmap"], R, unc[0] if unc else f, f._qual,
              "uncoarsegrain_trajectory(<coarse output>, script.system, cgmap)", "mapped back onto the original system with the "
              "same map", "the coarse output is not mapped back with the script's system and the same map")
    ctx.floor(R, 2)


def rule_uncg_traj(ctx, py):
    """C16.UNCG-TRAJ -- the trajectory handed back is the coarse one with its data mapped onto the original system: every
    constructor parameter of RDTrajectory is passed, each from the matching field of the coarse trajectory"""
    R = "C16.UNCG-TRAJ"
    from .. import pysym
    f = py.fn("coarsegrain.uncoarsegrain_trajectory")
    tr, ncg, imap = pyfe.params(f)[:3]
    calls = [c for c in pyfe.calls_in(f) if pyfe.call_name(c) == "RDTrajectory"]
    ctx.need(len(calls) == 1, R, "uncoarsegrain_trajectory: RDTrajectory(...) not found")
    c = calls[0]
    init = py.fn("rdoutput.RDTrajectory.__init__")
    ps = [p for p in pyfe.params(init) if p != "self"]
    kw = {k.arg: k.value for k in c.keywords}
    for i, a in enumerate(c.args):
        kw[ps[i]] = a
    want = {"data": "uncoarsegrain_trajectory_data(%s, %s.space, %s)" % (tr, ncg, imap), "t_sample": ("%s.t" % tr, "%s.t_sample" % tr),
            "system": ncg, "script": "%s.script" % tr, "engine_description": "%s.engine_description" % tr,
            "engine_option": "%s.engine_option" % tr, "cgmap": imap}
    for p_ in ps:
        w = want.get(p_)
        got = pysym.isrc(kw[p_], f) if p_ in kw else None
        okk = got is not None and (w is None or got in (w if isinstance(w, tuple) else (w,)))
        ctx.check(okk, R, c, f._qual, "RDTrajectory(%s = %s)" % (p_, got or "<missing>"), "from the coarse trajectory / the "
                  "original system", "the returned trajectory's `%s` is %s, expected %s: the trajectory of a coarse-grained run "
                  "loses or mixes up this field" % (p_, got or "left to its default", w))
    ctx.floor(R, 7)


def rule_dist(ctx, py):
    """C16.DIST -- the distance of a coarse edge is the distance between the centroids of its two groups, whatever it is: the
    value stored into `edge.distance` is sqrt(sum over the three coordinates of (p_i[c] - p_j[c])**2), unconditionally"""
    R = "C16.DIST"
    from .. import pysym
    f = py.fn("coarsegrain.coarsegrain_grid")
    loops = [n for n in ast.walk(f) if isinstance(n, ast.For) and any(
        isinstance(x, ast.Assign) and pyfe.src(x.targets[0]).endswith(".distance") for x in ast.walk(n))]
    ctx.need(len(loops) == 1 and isinstance(loops[0].target, ast.Name), R, "coarsegrain_grid: the loop that sets the edge distances "
             "is not found")
    e = pyfe.src(loops[0].target)          # (inlining suffix dropped)
    try:
        st = pysym.exec_stores(loops[0].body)
    except pysym.NotModelled as ex:
        ctx.error(R, "coarsegrain_grid: %s" % ex)
    st = [x for x in st if x[1] == "%s.distance" % e]
    ctx.need(len(st) == 1, R, "coarsegrain_grid: %d stores to %s.distance" % (len(st), e))
    node, tgt, val, conds = st[0]
    ctx.check(not conds, R, node, f._qual, "%s.distance set for every edge" % e, "unconditional", "the distance is set only under %s" %
              [pyfe.src(c) for c, _ in conds])
    got = pysym.rat(val)
    P_ = lambda t: ast.parse(t, mode="eval").body
    terms = " + ".join("(node_pos[%s.i][%d] - node_pos[%s.j][%d]) ** 2" % (e, c, e, c) for c in range(3))
    want = [pysym.rat(P_("(%s) ** (1 / 2)" % terms)), pysym.rat(P_("(%s) ** 0.5" % terms))]
    ctx.check(any(got.equals(w) for w in want), R, node, f._qual, "%s.distance = %s" % (e, pyfe.src(val)[:80]), "Euclidean distance "
              "between the two centroids", "the stored distance is `%s`, not the distance between the centroids of the two groups "
              "(clamped, rescaled or conditional): interface rates of irregular groups are wrong" % pyfe.src(val)[:140])
    ctx.floor(R, 2)


def run(ctx):
    py = ctx.py
    rule_pos_order(ctx, py)
    rule_units(ctx, py)
    rule_m1(ctx, py)
    rule_valid_first(ctx, py)
    rule_accept(ctx, py)
    rule_accept_geom(ctx, py)
    rule_kind(ctx, py)
    rule_clamp(ctx, py)
    rule_edge(ctx, py)
    rule_dist(ctx, py)
    rule_uncg(ctx, py)
    rule_cgscript(ctx, py)
    rule_uncg_traj(ctx, py)
    # the graph built from the grid reaches the engine in the same units as the grid would: every number of _setup_graph
    # and _setup_grid is converted to the one engine units system (shared with C04.BOUNDARY)
    from . import c04
    c04.rule_boundary(ctx, py, ctx.cx, "C16.BOUNDARY")
    # ... and the graph engine addresses every table (environments, volumes, D, k) with the index kind it is laid out in, as the
    # grid engine does: a neighbour *slot* used where the neighbour *cell* is meant picks another cell's environment
    from ..core import borrow
    from . import c01
    from .. import idx as idxmod
    borrow(ctx, "C16", c01.rule_layout, ctx.cx, idxmod.Idx(ctx.cx), py)
    # shared clause: the identity-map run goes through the graph Euler engine, whose passes must be those of the grid one (C01.PHASE)
    from .. import cxa as _cxa
    borrow(ctx, "C16", c01.rule_phase, ctx.cx, _cxa.Effects(ctx.cx))
    from .. import lints
    # shared clause: the graph engine's edge constants are the kinetics formula, source and destination not exchanged
    # (C02.ANTISYM): the identity map turns a grid run into a graph run that must reproduce it
    from . import c02 as _c02
    borrow(ctx, "C16", _c02.rule_antisym, ctx.cx)
    # shared clause: state and chemostat flags reach the grid and the graph initialiser in one and the same layout (C02.TRANSPOSE)
    from .. import vlay
    vlay.check_init_layouts(ctx, "C16.TRANSPOSE", ctx.cx, idxmod.Idx(ctx.cx))
    ctx.floor("C16.TRANSPOSE", 4)
    lints.run(ctx, "C16", ctx.py, ["simulate", "coarsegrain"], truth_floor=3)
    ctx.assume("conservation totals, centroid distances and identity-map equivalence are value-level and not decided")
