"""C02 -- conservation, the structure from which it follows for every stoichiometric left null vector:
diffusion updates come in equal and opposite pairs between a cell and the neighbour-table entry of the same
(cell, direction); the Euler flux is antisymmetric; firing counts do not depend on the species they are applied
to; only the apply functions write the state.  Does not decide floating-point exactness."""
from .. import cxfe, cxa, upd, idx as idxmod
from ..cxfe import kids, strip, walk, text, subscript, uname, call_parts, name_of
from ..core import AnalysisError
from ..poly import Poly

PAIR_FUNCS = ["TauLeap3D::Apply_nevt", "TauLeapGraph::Apply_nevt", "Gillespie3D::ApplyDiffusion",
              "GillespieGraph::ApplyDiffusion"]
WRITERS = {"Apply_dxdt", "Apply_nevt", "ApplyReaction", "ApplyDiffusion"}
NBR_TABLES = {"mesh_neighbors", "mesh_neighbor_index"}


def nbr_source(expr_poly_atom, defs):
    """if a cell atom is a local defined as a neighbour-table load, (table, [index polys])"""
    d = defs.get(expr_poly_atom)
    if d is None:
        return None
    n = strip(d, casts=True)
    sub = subscript(n)
    if sub is None:
        return None
    base = sub[0]
    idxs = [cxa.poly(sub[1])]
    inner = subscript(base)
    if inner is not None:
        idxs.insert(0, cxa.poly(inner[1]))
        base = inner[0]
    b = cxa.lvalue_base(base)
    if b and b[1] in NBR_TABLES:
        return b[1], idxs
    return None


def rule_pair(ctx, tu, R="C02.PAIR"):
    for q in PAIR_FUNCS:
        f = tu.fn(q)
        defs = upd.local_defs(f)
        ups = [u for u in upd.summaries(f, {"mesh_x"}) if not any(name_of(x) == "sto" for x in walk(u.rhs or {}))]
        minus = [u for u in ups if u.op == "-="]
        plus = [u for u in ups if u.op == "+="]
        if len(minus) != len(plus):
            ctx.violation(R, (minus + plus)[0].node if (minus + plus) else f.node, q,
                          "%d removal(s) and %d addition(s) of diffusing molecules" % (len(minus), len(plus)),
                          "a diffusion move has only one side: molecules are created or destroyed")
            continue
        ctx.need(len(minus) == 1 and len(plus) == 1, R, "%s: expected one -= and one += diffusion store, found %d / %d"
                 % (q, len(minus), len(plus)))
        m, p = minus[0], plus[0]
        ctx.check(cxa.canon_inl(m.rhs, f.body) == cxa.canon_inl(p.rhs, f.body), R, p.node, q, "%s  /  %s" % (text(m.node)[:60], text(p.node)[:60]),
                  "the same amount leaves the source and enters the destination",
                  "the amount removed (%s) differs from the amount added (%s): diffusion creates or destroys molecules"
                  % (text(m.rhs), text(p.rhs)))
        sm, sp = upd.split_index(m.index), upd.split_index(p.index)
        ctx.need(sm and sp, R, "%s: state index not of the form cell*n_species + species" % q)
        ctx.check(sm[1] == sp[1], R, p.node, q, "species index %r on both sides" % (sm[1],), "same species",
                  "the two halves of a move address different species (%r vs %r)" % (sm[1], sp[1]))
        # destination = neighbour-table entry of (source cell, direction)
        dst = sp[0]
        src = sm[0]
        ok = False
        why = "the destination cell is not read from the neighbour table"
        if len(dst.t) == 1 and list(dst.t.values())[0] == 1:
            atom = list(dst.t)[0][0][0]
            ns = nbr_source(atom, defs)
            if ns is None:
                # the table load written in place (or a hoisted index local inlined by the front end)
                cand = list(f.param_names()) + [uname(x) for x in walk(f.body) if x.get("kind") == "VarDecl"]
                for d_ in cand:
                    if atom == "mesh_neighbors[%r]" % (src * Poly.const(6) + Poly.sym(d_)):
                        ns = ("mesh_neighbors", [src * Poly.const(6) + Poly.sym(d_)])
                    elif atom == "mesh_neighbor_index[%r][%r]" % (src, Poly.sym(d_)):
                        ns = ("mesh_neighbor_index", [src, Poly.sym(d_)])
            if ns:
                tab, idxs = ns
                if tab == "mesh_neighbors":
                    # index = src*6 + dir
                    qr = idxs[0].coeff_of(repr(src)) if len(src.t) == 1 and src.isconst() is False else None
                    d = idxs[0] - src * Poly.const(6)
                    ok = len(d.t) == 1 and list(d.t.values())[0] == 1 and len(list(d.t)[0]) == 1
                    dirv = list(d.t)[0][0][0] if ok else None
                    if ok and not dirv.replace("'", "").replace("_", "").isalnum():
                        ok = False      # the direction must be the move's own direction variable, not a table load
                    why = "neighbour looked up at %r, expected (source cell %r)*6 + direction" % (idxs[0], src)
                else:
                    ok = idxs[0] == src and len(idxs[1].t) == 1
                    dirv = list(idxs[1].t)[0][0][0] if ok else None
                    if ok and not dirv.replace("'", "").replace("_", "").isalnum():
                        ok = False
                    why = "neighbour looked up at [%r][%r], expected [source cell %r][direction]" % (idxs[0], idxs[1], src)
                if ok:
                    # the amount (if it is a table entry) is the count of the same (cell, species, direction)
                    amt = strip(m.rhs, casts=True)
                    if amt.get("kind") == "DeclRefExpr" and uname(amt) in defs:
                        amt = strip(defs[uname(amt)], casts=True)      # `const int nevt = mesh_nd[...]`
                    sub = subscript(amt)
                    if sub is not None:
                        ip = cxa.poly(sub[1])
                        if subscript(sub[0]) is not None:     # ragged  T[cell][species*B + dir]
                            okc = cxa.poly(subscript(sub[0])[1]) == src
                            rest = ip
                        else:
                            okc = True
                            rest = ip
                        has_dir = any(dirv == a for mm in rest.t for a, _ in mm)
                        has_sp = all(any(a == b for mm in rest.t for b, _ in mm) for mm2 in sm[1].t for a, _ in mm2)
                        ok = okc and has_dir and has_sp
                        why = "the amount %s is not the entry of (cell %r, species %r, direction %s)" % (text(amt), src, sm[1], dirv)
        ctx.check(ok, R, p.node, q, "destination %s = neighbour of (%r, direction)" % (text(p.store.target)[:50], src),
                  "what leaves cell %r in a direction enters that direction's neighbour" % (src,), why)
        # the halves are separated only by the chemostat tests of their own entries
        for u, nm in ((m, "source"), (p, "destination")):
            flags = {t for t, pol in u.facts if isinstance(t, str) and t.startswith("mesh_chstt[")}
            ctx.check(flags == {"mesh_chstt[%r]" % u.index}, R, u.node, q, "%s half guarded by %s" % (nm, sorted(flags)),
                      "only by the chemostat flag of its own entry", "the %s half is guarded by %s" % (nm, sorted(flags)))
        # ... and by nothing else: every other condition (loop bounds, neighbour present, count non-zero) holds for both halves or
        # for neither.  A test that stands between them skips the addition after the removal was made
        own = lambda u_: {(t, pol) for t, pol in u_.facts if isinstance(t, str) and not t.startswith("mesh_chstt[")}
        em, ep = own(m), own(p)
        diff_ = sorted(str(t) for t, _ in (em ^ ep))
        ctx.check(not diff_, R, p.node, q, "both halves of a move under the same conditions (own chemostat flag aside)",
                  "removal and addition happen together", "the two halves of a move stand under different conditions (`%s` holds "
                  "for one of them only): molecules are removed without being added, or the reverse" % (diff_[0] if diff_ else ""))
    ctx.floor(R, 4 * 5)


def rule_sto(ctx, tu):
    R = "C02.STO"
    n = 0
    for f in tu.all_fns():
        if f.body is None or f.cls is None or f.name == "Init":
            continue
        for u in upd.summaries(f, {"mesh_x", "mesh_dxdt"}):
            if u.rhs is None:
                continue
            stos = [x for x in walk(u.rhs) if subscript(x) is not None and x.get("kind") == "CXXOperatorCallExpr" and
                    cxa.lvalue_base(subscript(x)[0]) == ("field", "sto")]
            if not stos:
                continue
            n += 1
            sp = upd.split_index(u.index)
            ctx.need(sp is not None, R, "%s: state index form not recognised" % f.qual)
            species_atoms = {a for mm in sp[1].t for a, _ in mm}
            sidx = cxa.poly(subscript(stos[0])[1])
            q = sidx.coeff_of("n_reactions")
            ctx.check(q is not None and q[0] == sp[1], R, u.node, f.qual, text(u.node)[:90],
                      "stoichiometry row of the species being updated (%r)" % (sp[1],),
                      "the stoichiometric coefficient of species %r is applied to species %r" % (q[0] if q else "?", sp[1]))
            # the factor multiplying sto[...] must not depend on the species variable
            factor_atoms = set()
            r = strip(u.rhs, casts=True)
            if r.get("kind") == "BinaryOperator" and r.get("opcode") == "*":
                for side in kids(r):
                    if not any(y is stos[0] for y in walk(side)):
                        for y in walk(side):
                            if y.get("kind") == "DeclRefExpr":
                                factor_atoms.add(uname(y))
                            if y.get("kind") == "MemberExpr" and cxfe.is_this_member(y):
                                factor_atoms.add(y.get("name"))
            dep = factor_atoms & species_atoms
            ctx.check(not dep, R, u.node, f.qual, "firing count in " + text(u.node)[:70],
                      "does not depend on the species it is applied to", "the number of firings depends on the species "
                      "variable %s: the species of one reaction change by inconsistent amounts" % sorted(dep))
    ctx.floor(R, 12)


def rule_forms(ctx, tu):
    """after Init every store to the state is an increment / decrement (stoichiometric, paired or Euler): an
    assignment overwrites an amount and breaks every conservation law that entry takes part in"""
    R = "C02.FORMS"
    n = 0
    for c in tu.classes.values():
        for m in c.methods.values():
            if m.body is None or m.name == "Init":
                continue
            for u in upd.summaries(m, {"mesh_x"}):
                n += 1
                ctx.check(u.op in ("+=", "-=", "++", "--"), R, u.node, m.qual, text(u.node)[:90],
                          "an increment / decrement", "the state entry is overwritten (`%s`) instead of being incremented: "
                          "what the entry loses or gains is not accounted for anywhere else" % u.op)
    ctx.floor(R, 14)


def rule_writers(ctx, tu, eff):
    R = "C02.WRITERS"
    for c in tu.classes.values():
        for m in c.methods.values():
            if m.body is None:
                continue
            direct = "f:mesh_x" in eff.direct[m.qual][1]
            if direct:
                ctx.check(m.name in WRITERS or m.name == "Init", R, m.node, m.qual, "%s writes mesh_x" % m.name,
                          "one of the apply functions (or Init)", "a function outside {%s} writes the state" % ", ".join(sorted(WRITERS)))
    ctx.floor(R, 10)


def expr_rat(n, leaves):
    """rational normal form of a C++ arithmetic expression; every table read / call becomes a leaf keyed by its
    canonical text"""
    from ..poly import Rat
    from fractions import Fraction
    n = strip(n, casts=True)
    k = n.get("kind")
    if k in ("IntegerLiteral", "FloatingLiteral"):
        return Rat.const(Fraction(n["value"]))
    if k == "BinaryOperator" and n.get("opcode") in ("+", "-", "*", "/"):
        l, r = expr_rat(kids(n)[0], leaves), expr_rat(kids(n)[1], leaves)
        return {"+": l + r, "-": l - r, "*": l * r, "/": l / r}[n["opcode"]]
    if k == "UnaryOperator" and n.get("opcode") == "-":
        return -expr_rat(kids(n)[0], leaves)
    t = cxa.canon(n)
    leaves[t] = n
    return Rat.sym(t)


def flux_rule(ctx, tu, R):
    """the net flux across an interface, as a rational function of its leaves, in both base classes"""
    from ..poly import Rat
    S = Poly.sym
    # 3D: Rate(src, s, dir) - Rate(neighbour(src, dir), s, opposed(dir))
    f = tu.fn("SimulationAlgorithm3DBase::DiffusionRateDifference")
    rets = [n for n in walk(f.body) if n.get("kind") == "ReturnStmt"]
    ctx.need(len(rets) == 1, R, "DiffusionRateDifference (3D): expected one return")
    ps = f.param_names()
    leaves = {}
    got = expr_rat(kids(rets[0])[0], leaves)
    out_ = "DiffusionRate(%s, %s, %s)" % tuple(ps)
    in_ = "DiffusionRate(mesh_neighbors[%r], %s, opposed_direction[%s])" % (S(ps[0]) * Poly.const(6) + S(ps[2]), ps[1], ps[2])
    want = Rat.sym(out_) - Rat.sym(in_)
    ctx.check(got.equals(want), R, rets[0], f.qual, text(rets[0])[:110],
              "outflow of (cell, species, direction) minus the neighbour's flow back in the opposed direction",
              "the net flux is %r, expected %s - %s: what one cell loses is not what its neighbour gains" % (got, out_, in_))
    g3 = tu.fn("SimulationAlgorithm3DBase::DiffusionRate")
    r3 = [n for n in walk(g3.body) if n.get("kind") == "ReturnStmt"]
    p3 = g3.param_names()
    got3 = expr_rat(kids(r3[0])[0], {})
    want3 = Rat.sym("mesh_x[%r]" % (S(p3[0]) * S("n_species") + S(p3[1]))) * \
        Rat.sym("mesh_kd[%r]" % (S(p3[0]) * S("n_species") * Poly.const(6) + S(p3[1]) * Poly.const(6) + S(p3[2])))
    ctx.check(got3.equals(want3), R, r3[0], g3.qual, text(r3[0])[:100], "amount of the source x its constant for that direction",
              "the directed diffusion rate is %r" % (got3,))
    # Graph: x[i,s]*kd_out[i][s,n] - x[nb(i,n),s]*kd_in[i][s,n]
    g = tu.fn("SimulationAlgorithmGraphBase::DiffusionRateDifference")
    rets = [n for n in walk(g.body) if n.get("kind") == "ReturnStmt"]
    ctx.need(len(rets) == 1, R, "DiffusionRateDifference (graph): expected one return")
    i, s_, n_ = g.param_names()
    leaves = {}
    got = expr_rat(kids(rets[0])[0], leaves)
    sx = "mesh_x[%r]" % (S(i) * S("n_species") + S(s_))
    kd = "[%s][%r]" % (i, S(s_) * S("mesh_neighbor_n[%s]" % i) + S(n_))
    nx = "mesh_x[%r]" % (S("mesh_neighbor_index[%s][%s]" % (i, n_)) * S("n_species") + S(s_))
    want = Rat.sym(sx) * Rat.sym("mesh_kd_out" + kd) - Rat.sym(nx) * Rat.sym("mesh_kd_in" + kd)
    ctx.check(got.equals(want), R, rets[0], g.qual, text(rets[0])[:120],
              "x[i,s]*kd_out[i][s,n] - x[neighbour(i,n),s]*kd_in[i][s,n]",
              "the net edge flux is %r, expected x_i*kd_out - x_j*kd_in: with unequal volumes the amount leaving one node is "
              "not the amount entering the other, and the rate law of the kinetics functions is not reproduced" % (got,))


def rule_antisym(ctx, tu):
    R = "C02.ANTISYM"
    from .. import sib
    flux_rule(ctx, tu, R)
    # the interface constants: symmetric diffusivity, kd_in = kd_out with the two volumes exchanged
    res = sib.check_antisym(ctx, tu)
    for okk, node, fn, what, good, bad in res:
        ctx.check(okk, R, node, fn, what, good, bad)
    ctx.floor(R, 6)


def rule_nbr_table(ctx, tu):
    """C02.NBR-TABLE -- what leaves a cell through face n enters the cell behind that face and comes back through the opposed
    face: this needs the grid's neighbour table to be exactly GetNeighborIndex(coordinates of i, n) for every (i, n), and the
    graph's neighbour lists to hold every edge from both of its ends.  (GetNeighborIndex itself is C15's.)"""
    R = "C02.NBR-TABLE"
    S = Poly.sym
    f = tu.fn("SimulationAlgorithm3DBase::BuildMeshNeighbors")
    recs = []

    def on_atom(node, facts):
        for x in walk(node):
            for st in cxa.stores_of_node(x):
                if st.base and st.base[1] == "mesh_neighbors" and subscript(st.target) is not None:
                    recs.append((st, frozenset(facts)))
    cxa.canon_facts(f.body, on_atom=on_atom)
    ctx.need(recs, R, "BuildMeshNeighbors: no element store to mesh_neighbors")
    loops = {cxa.for_parts(n)[0]: n for n in cxa.loops_in(f.body)} if False else None
    for st, facts in recs:
        idx = cxa.poly(subscript(st.target)[1])
        vs = sorted(idx.syms())
        rhs = strip(cxa.follow_local(st.rhs, f.body), casts=True) if st.rhs is not None else None
        cp = call_parts(rhs) if rhs is not None else None
        okk = st.op == "=" and cp is not None and cp[0] == "GetNeighborIndex" and len(cp[2]) == 4
        why = "the stored value is `%s`, not GetNeighborIndex(x, y, z, n)" % (text(st.rhs)[:60] if st.rhs else st.op)
        if okk:
            n_ = cxa.canon(cp[2][3])
            cell = [v for v in vs if v != n_]
            okk = len(cell) == 1 and idx == S(cell[0]) * Poly.const(6) + S(n_)
            why = "the table index is %r, not cell*6 + direction" % (idx,)
            if okk:
                i_ = cell[0]
                got = [cxa.canon_inl(a, f.body).replace(" ", "") for a in cp[2][:3]]
                want = [("(%s%%w)" % i_,), ("((%s%%(w*h))/w)" % i_, "((%s/w)%%h)" % i_), ("(%s/(w*h))" % i_, "((%s/w)/h)" % i_)]
                okk = all(g in w_ for g, w_ in zip(got, want))
                why = "the coordinates handed to GetNeighborIndex are %s, not (i %% w, i %% (w*h) / w, i / (w*h))" % got
        conds = sorted(t for t, p in facts if not any(t.startswith(v + " < ") or t.startswith("0 <= " + v) for v in vs))
        extra = [t for t, p in facts if "mesh_neighbors" in t or " == " in t or "%" in t]
        if okk and extra:
            okk = False
            why = "the entry is written only under `%s`" % extra[0]
        ctx.check(okk, R, st.node, f.qual, text(st.node)[:90], "mesh_neighbors[i*6+n] = GetNeighborIndex(coordinates of i, n)", why +
                  ": the neighbour relation is no longer symmetric, what leaves a cell is not what its neighbour receives")
    # no other function modifies the table
    for g in tu.all_fns():
        if g.body is None or g.qual == f.qual:
            continue
        for st in cxa.all_stores(g.body):
            if st.base and st.base[0] == "field" and st.base[1] == "mesh_neighbors" and subscript(st.target) is not None:
                ctx.violation(R, st.node, g.qual, text(st.node)[:80], "the neighbour table is modified outside BuildMeshNeighbors")
    # graph: every edge registered from both end points
    g = tu.fn("SimulationAlgorithmGraphBase::SetNeighbors")
    pairs = set()
    for st in cxa.all_stores(g.body):
        if st.base and st.base[1] == "mesh_neighbor_index" and st.how == "method" and st.op == "push_back":
            sub = subscript(st.target)
            if sub is not None:
                pairs.add((cxa.canon(sub[1]), cxa.canon(st.rhs)))
    ctx.check(len(pairs) == 2 and {(b, a) for a, b in pairs} == pairs, R, g.node, g.qual,
              "mesh_neighbor_index[a].push_back(b) for (a, b) in %s" % sorted(pairs), "each edge from both end points",
              "edges are not registered symmetrically: %s" % sorted(pairs))
    # the three per-node lists (neighbour, contact surface, distance) are parallel: entry n of each describes the same edge.  They
    # are filled by push_back in one order and read by subscript; anything that re-orders, removes or inserts in one of them
    # (a sort, erase, reverse, swap, an iterator handed to an algorithm) pairs an edge with another edge's surface and distance
    PAR = ("mesh_neighbor_index", "mesh_neighbor_sfc", "mesh_neighbor_dst")
    OKM = {"push_back", "emplace_back", "size", "clear", "resize", "reserve", "empty", "at", "operator[]", "data", "capacity",
           "assign"}
    seen = 0
    for fn_ in tu.all_fns():
        if fn_.body is None:
            continue
        for n_ in walk(fn_.body):
            if n_.get("kind") != "CXXMemberCallExpr":
                continue
            cp = call_parts(n_)
            if cp is None or cp[1] is None:
                continue
            try:
                obj = cxa.canon(cp[1])
            except Exception:
                continue
            if not any(obj == t_ or obj.startswith(t_ + "[") for t_ in PAR):
                continue
            seen += 1
            if cp[0] not in OKM:
                ctx.violation(R, n_, fn_.qual, text(n_)[:80], "`%s` of one of the parallel neighbour lists: its entries are "
                              "re-ordered / removed without the same change to the two others, so a neighbour is paired with "
                              "another edge's surface and distance (the edge constants of the two directions no longer match)"
                              % cp[0])
    ctx.need(seen >= 6, R, "uses of the parallel neighbour lists not found")
    ctx.ok(R, g.node, g.qual, "%d member calls on the parallel neighbour lists" % seen, "push_back / size / subscript only")
    ctx.floor(R, 3)


def run(ctx):
    tu = ctx.cx
    eff = cxa.Effects(tu)
    rule_pair(ctx, tu)
    rule_sto(ctx, tu)
    rule_writers(ctx, tu, eff)
    rule_forms(ctx, tu)
    rule_antisym(ctx, tu)
    rule_nbr_table(ctx, tu)
    from . import c01
    c01.rule_phase(ctx, tu, eff, "C02.PHASE")
    # state and chemostat flags reach the engines in one and the same layout (a flag on another entry freezes a species that
    # takes part in a conservation law, or lets a reservoir drift)
    from .. import vlay, idx as idxmod
    vlay.check_init_layouts(ctx, "C02.TRANSPOSE", tu, idxmod.Idx(tu))
    ctx.floor("C02.TRANSPOSE", 4)
    from . import c16
    c16.rule_uncg(ctx, ctx.py, "C02.UNCG")
    # shared clause: GetNeighborIndex itself (directions, periodic wrap, range test) -- the symmetric neighbour relation
    from ..core import borrow
    from . import c15
    borrow(ctx, "C02", c15.rule_cx, ctx.cx)
    # shared clause: the samples handed to the caller are the ones the engine recorded (C09.FETCH-PY)
    from . import c09 as _c09
    borrow(ctx, "C02", _c09.rule_fetch_py, ctx.py)
    from .. import lints
    lints.run(ctx, "C02", ctx.py, ["coarsegrain", "kinetics", "librdengine", "rdsystem", "rdscript", "simulate"])
    ctx.assume("floating-point exactness of the Euler sums is not decided; opposed_direction is an involution pairing "
               "opposite moves (C15.DISP); the stoichiometric matrix layout is C01.LAYOUT / C19.MATRIX")
