"""C09 -- sampling contract, structural part: output layout [sample][species][cell] on both sides of the boundary,
state and time recorded together and only by Sample(), at most one record per iteration, the order
step -> clock -> sampling -> t_max test in every Iterate, the policy string -> code -> handler table, t_max default.
Does not decide which step covers which requested time, interval boundaries, or the number of steps."""
import ast

from .. import cxfe, cxa, ir, idx as idxmod, pyfe
from ..cxfe import kids, strip, walk, text, name_of, call_parts, subscript, uname
from ..core import AnalysisError

POLICIES = {"on_t_sample": (0, "SampleOnTSample"), "on_iteration": (1, "Sample"), "on_interval": (2, "SampleOnInterval"),
            "no_sampling": (3, None)}
BASES = ("SimulationAlgorithm3DBase", "SimulationAlgorithmGraphBase")


def rule_layout_out(ctx, tu, I):
    R = "C09.LAYOUT-OUT"
    want = {"engineexport_get_trajectory": {"trajectory_data": ["cell", "species", "sample"]},
            "engineexport_get_state": {"state_data": ["cell", "species"]},
            "engineexport_get_tsample": {"t_sample": ["sample"]}}
    for fn, tabs in want.items():
        for tab, lay in tabs.items():
            recs = [r for r in I.subs if r["fn"] == fn and r["table"] == tab]
            ctx.need(recs, R, "%s: no store to %s" % (fn, tab))
            for r in recs:
                got = [k[0] for k in (r["layout"] or [])]
                ctx.check(got == lay, R, r["node"], fn, r["text"], "written as [%s] (slowest first)" % "][".join(reversed(lay)),
                          "the output buffer is filled as [%s], the Python side reads [%s]" %
                          ("][".join(reversed(got)), "][".join(reversed(lay))))
        # the source side: recorded states are cell-major
        for r in [r for r in I.subs if r["fn"] == fn and r["inner"] and r["table"].startswith("trajectory_data_vec")]:
            got = [k[0] for k in (r["layout"] or [])]
            ctx.check(got == ["species", "cell"], R, r["node"], fn, r["text"], "recorded state read cell-major", "recorded "
                      "state read as %s" % got)
    ctx.floor(R, 6)


def rule_pair_push(ctx, tu):
    R = "C09.PAIR-PUSH"
    for b in BASES:
        for m in tu.classes[b].methods.values():
            if m.body is None:
                continue
            pushes = [s for s in cxa.all_stores(m.body) if s.how == "method" and s.op in ("push_back", "clear", "resize", "erase", "pop_back")
                      and s.base in (("field", "sampled_mesh_x"), ("field", "sampled_t"))]
            if not pushes:
                continue
            if m.name == "Init":
                ks = sorted((s.base[1], s.op) for s in pushes)
                ctx.check(ks == [("sampled_mesh_x", "clear"), ("sampled_t", "clear")], R, m.node, m.qual, "Init clears both "
                          "record vectors", "", "Init touches the records as %s" % ks)
                continue
            ctx.check(m.name == "Sample", R, pushes[0].node, m.qual, "%s modifies the records" % m.name,
                      "only Sample() records", "the recorded vectors are modified outside Sample()")
            if m.name != "Sample":
                continue

            class Pair(ir.Client):
                bad = []

                def atom(self, node, cfg):
                    for x in walk(node):
                        for s in cxa.stores_of_node(x):
                            if s.how == "method" and s.op == "push_back" and s.base and s.base[0] == "field":
                                if s.base[1] == "sampled_mesh_x":
                                    cfg = cfg ^ {"x"} if "x" not in cfg else cfg | {"xx"}
                                    arg = cxa.lvalue_base(s.rhs)
                                    cfg = cfg | {("xarg", arg)}
                                if s.base[1] == "sampled_t":
                                    cfg = cfg ^ {"t"} if "t" not in cfg else cfg | {"tt"}
                                    arg = cxa.lvalue_base(s.rhs)
                                    cfg = cfg | {("targ", arg)}
                    return cfg

                def _end(self, cfg):
                    Pair.bad.append(cfg)

                def ret(self, s, cfg):
                    self._end(cfg)

                def exit(self, cfg):
                    self._end(cfg)
            Pair.bad = []
            ir.Engine(Pair(), "paths").run(ir.cx_to_ir(m.body))
            ok = all((("x" in c) == ("t" in c)) and "xx" not in c and "tt" not in c for c in Pair.bad)
            ctx.check(ok, R, m.node, m.qual, "state and time are pushed together on every path", "one record = one state + one time",
                      "a path through Sample() records a state without its time (or twice): samples and times go out of step")
            args = {f for c in Pair.bad for f in c if isinstance(f, tuple)}
            ctx.check(args <= {("xarg", ("field", "mesh_x")), ("targ", ("field", "t"))} and len(args) == 2, R, m.node, m.qual,
                      "records mesh_x and t", "current state and clock", "records %s" % sorted(args))
        ns = tu.classes[b].methods["NSamples"]
        src = text(kids(ns.body)[0])
        ctx.check("sampled_t.size()" in src or "sampled_mesh_x.size()" in src, R, ns.node, ns.qual, src,
                  "number of records = size of a record vector", "NSamples() is not the record count")
    ctx.floor(R, 8)


def rule_once(ctx, tu):
    R = "C09.ONCE"
    flag = "sampling_done_this_iteration"
    for b in BASES:
        m = tu.classes[b].methods["Sample"]
        recs = []

        def on_atom(node, facts):
            for x in walk(node):
                for s in cxa.stores_of_node(x):
                    if s.how == "method" and s.op == "push_back":
                        recs.append((s, facts))
        cxa.canon_facts(m.body, on_atom=on_atom)
        for s, facts in recs:
            ctx.check((flag, False) in facts, R, s.node, m.qual, text(s.node)[:60], "only when no record was taken this iteration",
                      "a record is pushed without testing %s: several records per step" % flag)
        sets = [s for s in cxa.all_stores(m.body) if s.base == ("field", flag)]
        ctx.check(len(sets) == 1 and strip(sets[0].rhs, casts=True).get("value") is True, R, m.node, m.qual,
                  "%s = true after recording" % flag, "", "the once-per-iteration flag is not set")
    for c in tu.classes.values():
        m = c.methods.get("Iterate")
        if m is None or m.body is None:
            continue
        first = kids(m.body)[0]
        ss = cxa.stores_of_node(strip(first))
        ok = len(ss) == 1 and ss[0].base == ("field", flag) and strip(ss[0].rhs, casts=True).get("value") is False
        ctx.check(ok, R, first, m.qual, text(first), "every iteration starts by re-arming the flag", "Iterate does not reset "
                  "%s first: an explicit sample() or the policy can never record again" % flag)
    ctx.floor(R, 12)


def rule_order(ctx, tu, eff):
    R = "C09.ORDER"
    for c in tu.classes.values():
        m = c.methods.get("Iterate")
        if m is None or m.body is None:
            continue
        direct = set()
        for x in walk(m.body):
            for callee in tu.resolve_calls(m, x, concrete=c.name):
                direct.add(callee)
        appliers = {f.name for f in direct if "f:mesh_x" in eff.writes(f.qual)}
        ctx.need(appliers, R, "%s: no state-changing step call found" % m.qual)
        events = []

        def gen(node, m=m, c=c):
            out = []
            for x in walk(node):
                cp = call_parts(x) if x.get("kind") == "CXXMemberCallExpr" else None
                if cp and (cp[1] is None or strip(cp[1]).get("kind") == "CXXThisExpr"):
                    out.append(("called:" + cp[0], True))
                for s in cxa.stores_of_node(x):
                    if s.base == ("field", "t") and s.op == "+=":
                        out.append(("t-advanced", True))
            return out

        def on_atom(node, facts, c=c, m=m, appliers=appliers):
            for x in walk(node):
                for s in cxa.stores_of_node(x):
                    if s.base == ("field", "t") and s.op == "+=":
                        miss = [a for a in appliers if ("called:" + a, True) not in facts]
                        ctx.check(not miss, R, x, m.qual, text(x), "the clock advances after the step (%s)" % ", ".join(sorted(appliers)),
                                  "the clock advances before %s ran: the record carries the state of the previous step" % miss)
                        rhs = uname(strip(s.rhs, casts=True)) or text(s.rhs)
                        ctx.check(rhs == "dt", R, x, m.qual, "t += " + rhs, "by the step's dt", "clock advanced by %s" % rhs)
                cp = call_parts(x) if x.get("kind") == "CXXMemberCallExpr" else None
                if cp and cp[0] == "SamplingStep":
                    ctx.check(("t-advanced", True) in facts, R, x, m.qual, "SamplingStep()", "after the clock advanced",
                              "sampling happens before the clock is advanced: times are off by one step")
                if cp and cp[0] == "CheckTMax":
                    ctx.check(("called:SamplingStep", True) in facts, R, x, m.qual, "CheckTMax()", "after SamplingStep()",
                              "completion is tested before the step is sampled: the last step is never recorded")

        class C(cxa.CanonFacts):
            def ret(self, s, cfg):
                if ("t-advanced", True) in cfg:
                    okk = ("called:SamplingStep", True) in cfg and ("called:CheckTMax", True) in cfg
                    ctx.check(okk, R, s.src, m.qual, "return after a step", "sampled and tested against t_max",
                              "a path performs a step and returns without SamplingStep() / CheckTMax()")
        cl = C(on_atom, None, gen)
        ir.Engine(cl, "must").run(ir.cx_to_ir(m.body))
    for b in BASES:
        init = tu.classes[b].methods["Init"]
        last = kids(init.body)[-1]
        cp = call_parts(last)
        ctx.check(cp is not None and cp[0] == "SamplingStep", R, last, init.qual, "Init ends with " + text(last),
                  "the t = 0 record is taken after clock and state are set", "Init does not end with SamplingStep()")
    ctx.floor(R, 30)


def rule_policy_tab(ctx, tu, py):
    R = "C09.POLICY-TAB"
    f = py.fn("rdscript.RDScript.sampling_policy.setter")
    acc = None
    for n in ast.walk(f):
        if isinstance(n, ast.Compare) and isinstance(n.ops[0], ast.NotIn) and isinstance(n.comparators[0], ast.List):
            acc = [e.value for e in n.comparators[0].elts]
    ctx.need(acc, R, "RDScript.sampling_policy: accepted list not found")
    ctx.check(set(acc) == set(POLICIES), R, f, f._qual, "accepted policies %s" % sorted(acc), "the four documented ones",
              "accepted set differs from the documented one")
    for name in ("engineexport_initialize_grid", "engineexport_initialize_graph"):
        g = tu.fn(name)
        def policy_codes(body, subj, returns):
            """policy name -> code, from `if(CompareStr(subj, X)) <code := v>` where X is a literal or an entry names[p] of a
            constant table and v a literal or that p; the code is stored into sampling_policy_code, or returned (helper)"""
            codes_ = {}
            tabs = {}
            for n in walk(body):
                if n.get("kind") == "VarDecl" and "char" in n.get("type", {}).get("qualType", "") and kids(n):
                    il = strip(kids(n)[-1])
                    lits = [strip(x, casts=True).get("value", "").strip('"') for x in kids(il)] if il.get("kind") == "InitListExpr" else []
                    if lits and all(lits):
                        tabs[uname(n)] = lits
            for n in walk(body):
                if n.get("kind") != "IfStmt":
                    continue
                p = cxfe.raw_kids(n)
                cp = call_parts(p[0])
                if not (cp and cp[0] == "CompareStr" and name_of(strip(cp[2][0], casts=True)) == subj):
                    continue
                if returns:
                    vals = [kids(x)[0] for x in walk(p[1]) if x.get("kind") == "ReturnStmt" and kids(x)]
                else:
                    vals = [s_.rhs for s_ in cxa.all_stores(p[1]) if s_.base and s_.base[1].startswith("sampling_policy_code")
                            and s_.rhs is not None]
                lit = strip(cp[2][1], casts=True).get("value", "").strip('"')
                sub = cxfe.subscript(cp[2][1])
                for v in vals:
                    if lit:
                        codes_[lit] = cxa.const_int(v)
                    elif sub is not None and uname(strip(sub[0], casts=True)) in tabs and \
                            uname(strip(v, casts=True)) == uname(strip(sub[1], casts=True)):
                        for i_, l_ in enumerate(tabs[uname(strip(sub[0], casts=True))]):
                            codes_[l_] = i_
            return codes_
        codes = policy_codes(g.body, "sampling_policy", False)
        if not codes:
            # the code comes from a helper called with the policy text: sampling_policy_code = H(sampling_policy)
            for n in walk(g.body):
                if n.get("kind") == "VarDecl" and str(uname(n)).startswith("sampling_policy_code") and kids(n):
                    cpi = call_parts(strip(kids(n)[-1], casts=True)) if strip(kids(n)[-1], casts=True).get("kind") == "CallExpr" else None
                    if cpi and cpi[0] in tu.funcs and len(cpi[2]) == 1 and name_of(strip(cpi[2][0], casts=True)) == "sampling_policy":
                        h_ = tu.funcs[cpi[0]]
                        codes = policy_codes(h_.body, h_.param_names()[0], True)
        for pol, (code, handler) in POLICIES.items():
            ctx.check(codes.get(pol) == code, R, g.node, name, "\"%s\" -> code %s" % (pol, codes.get(pol)), "code %d" % code,
                      "policy \"%s\" is mapped to code %s, the switch expects %d" % (pol, codes.get(pol), code))
        # the code reaches Init in the sampling_policy_code position
        for n in walk(g.body):
            cp = call_parts(n) if n.get("kind") == "CXXMemberCallExpr" else None
            if cp and cp[0] == "Init":
                callee = tu.resolve_calls(g, n)[0]
                i = callee.param_names().index("sampling_policy_code")
                ctx.check(str(uname(strip(cp[2][i], casts=True))).startswith("sampling_policy_code"), R, n, name,
                          "Init(..., sampling_policy_code, ...)", "", "another value is passed as the policy code")
    for b in BASES:
        m = tu.classes[b].methods["SamplingStep"]
        sw = [n for n in walk(m.body) if n.get("kind") == "SwitchStmt"]
        ctx.need(len(sw) == 1, R, "%s: switch not found" % m.qual)
        ctx.check(name_of(strip(kids(sw[0])[0], casts=True)) == "sampling_policy_code", R, sw[0], m.qual, "switch(sampling_policy_code)", "", "")
        table = {}
        for n in walk(sw[0]):
            if n.get("kind") == "CaseStmt":
                lab = cxa.const_int(kids(n)[0])
                calls = [call_parts(x)[0] for x in walk(n) if x.get("kind") == "CXXMemberCallExpr"]
                table[lab] = calls
        for pol, (code, handler) in POLICIES.items():
            want = [handler] if handler else []
            if handler and handler not in tu.classes[b].methods and handler != "Sample" and table.get(code):
                # the handler was merged into the switch: its statements are judged by C09.HANDLERS
                ctx.ok(R, sw[0], m.qual, "case %d (%s) -> inline body" % (code, pol), "handler merged into the switch")
                continue
            got_ = table.get(code)
            if not handler and got_ is None:
                # no case for this code: nothing runs, provided a default label does nothing either
                dflt = [c_ for n_ in walk(sw[0]) if n_.get("kind") == "DefaultStmt" for c_ in walk(n_) if c_.get("kind") == "CXXMemberCallExpr"]
                got_ = [] if not dflt else [call_parts(c_)[0] for c_ in dflt]
            ctx.check(got_ == want, R, sw[0], m.qual, "case %d (%s) -> %s" % (code, pol, got_),
                      "handler %s" % (handler or "none"), "code %d runs %s, the policy \"%s\" means %s" %
                      (code, table.get(code), pol, handler or "no sampling"))
    ctx.floor(R, 1 + 2 * 5 + 2 * 5)


class _CaseFn:
    """the statements of one `case` of SamplingStep, standing in for a handler that was merged into the switch"""
    def __init__(self, m, code, stmts):
        self.node = stmts[0] if stmts else m.node
        self.qual = "%s[case %d]" % (m.qual, code)
        self.body = {"kind": "CompoundStmt", "inner": [s_ for s_ in stmts if s_.get("kind") != "BreakStmt"], "range": m.node.get("range", {})}
        self.cls = m.cls


def handler(ctx, tu, b, name, R):
    c = tu.classes[b]
    if name in c.methods:
        return c.methods[name]
    code = [cd for pol, (cd, h) in POLICIES.items() if h == name][0]
    m = c.methods["SamplingStep"]
    for n in walk(m.body):
        if n.get("kind") == "CaseStmt" and cxa.const_int(kids(n)[0]) == code:
            stmts = kids(n)[1:]
            # following siblings up to the next case belong to this case too
            sw = [x for x in walk(m.body) if x.get("kind") == "SwitchStmt"][0]
            sibs = kids(kids(sw)[1])
            i = sibs.index(n)
            j = i + 1
            while j < len(sibs) and sibs[j].get("kind") not in ("CaseStmt", "DefaultStmt"):
                stmts.append(sibs[j])
                j += 1
            flat = []
            for s_ in stmts:
                flat += kids(s_) if s_.get("kind") == "CompoundStmt" else [s_]
            return _CaseFn(m, code, flat)
    ctx.error(R, "%s: neither a method %s nor a case %d in SamplingStep" % (b, name, code))


def rule_handlers(ctx, tu):
    R = "C09.HANDLERS"
    for b in BASES:
        c = tu.classes[b]
        m = handler(ctx, tu, b, "SampleOnTSample", R)
        wl = [n for n in walk(m.body) if n.get("kind") == "WhileStmt"]
        if not wl:
            ifs = [n for n in walk(m.body) if n.get("kind") == "IfStmt"]
            ctx.need(ifs, R, "%s: neither a loop nor a test over the requested times" % m.qual)
            ctx.violation(R, ifs[0], m.qual, text(ifs[0]), "the requested times that a step has passed are consumed one per "
                          "step instead of all at once: times clustered inside one step produce records on the following "
                          "steps (and can be lost at t_max)")
            continue
        ctx.need(len(wl) == 1, R, "%s: while loop not found" % m.qual)
        facts = set(cxa.cfacts(kids(wl[0])[0], True))
        ctx.check(("t_samples[sample_pos] <= t", True) in facts and ("sample_pos < n_samples", True) in facts, R, wl[0], m.qual,
                  text(wl[0]), "while requested times not beyond t remain", "the loop condition is not "
                  "`sample_pos < n_samples && t >= t_samples[sample_pos]`")
        body = kids(wl[0])[1]
        sts = [text(x) for x in kids(body)]
        sts = ["sample_pos++" if x_ in ("++sample_pos", "sample_pos += 1", "sample_pos++") else x_ for x_ in sts]
        ctx.check(sts == ["Sample()", "sample_pos++"], R, body, m.qual, "{ %s }" % "; ".join(sts),
                  "record (once per iteration), then consume the requested time", "loop body changed")
        m = handler(ctx, tu, b, "SampleOnInterval", R)
        src = " ".join(text(x) for x in kids(m.body))
        recs = []

        def on_atom(node, facts):
            cp = call_parts(node) if strip(node).get("kind") == "CXXMemberCallExpr" else None
            if cp and cp[0] == "Sample":
                recs.append(facts)
        cxa.canon_facts(m.body, on_atom=on_atom)
        locs = {uname(x): text(kids(x)[-1]) for x in walk(m.body) if x.get("kind") == "VarDecl" and kids(x)}
        ok = len(recs) == 1 and ("last_tsi_ratio < tsi_ratio", True) in recs[0] and \
            locs.get("tsi_ratio") == "floor(t / sampling_interval)"
        ctx.check(ok, R, m.node, m.qual, "Sample() when floor(t / sampling_interval) exceeds the last recorded multiple", "",
                  "interval sampling condition changed")
        upd = [s for s in cxa.all_stores(m.body) if s.base == ("field", "last_tsi_ratio")]
        ctx.check(len(upd) == 1 and uname(strip(upd[0].rhs, casts=True)) == "tsi_ratio", R, m.node, m.qual,
                  "last_tsi_ratio = tsi_ratio", "", "the last recorded multiple is not remembered")
        m = c.methods["CheckTMax"]
        recs2 = []

        def on2(node, facts):
            cp = call_parts(node) if strip(node).get("kind") == "CXXMemberCallExpr" else None
            if cp and cp[0] == "FlagAsComplete":
                recs2.append(facts)
        cxa.canon_facts(m.body, on_atom=on2)
        # `if(t_max < 0) return;` before the test says the same as `t_max >= 0 &&` in it (for a NaN t_max neither form completes)
        ok = len(recs2) == 1 and ("t_max < t", True) in recs2[0] and (("0 <= t_max", True) in recs2[0] or
                                                                      ("t_max < 0", False) in recs2[0])
        ctx.check(ok, R, m.node, m.qual, "complete when t_max >= 0 and t > t_max", "the first step beyond t_max ends the run",
                  "completion condition changed")
    ctx.floor(R, 10)


def rule_complete(ctx, tu):
    """C09.COMPLETE -- who may end a run: completion is flagged only past t_max (CheckTMax: t_max >= 0 and t > t_max) or in a
    state where no event can happen (total propensity zero).  Flagging it anywhere else -- when the requested times are used
    up, after a number of records -- ends the run before 'the first step beyond t_max'."""
    R = "C09.COMPLETE"
    n = 0
    for f in tu.all_fns():
        if f.body is None or f.name == "FlagAsComplete":
            continue
        if not any(x.get("kind") == "CXXMemberCallExpr" and (call_parts(x) or ("",))[0] == "FlagAsComplete" for x in walk(f.body)):
            continue
        recs = []

        def on(node, facts, recs=recs):
            cp = call_parts(node) if strip(node).get("kind") == "CXXMemberCallExpr" else None
            if cp and cp[0] == "FlagAsComplete":
                recs.append((node, facts))
        cxa.canon_facts(f.body, on_atom=on)
        ctx.need(recs, R, "%s: FlagAsComplete() call not reached by the walk" % f.qual)
        for node, facts in recs:
            past = ("t_max < t", True) in facts
            # the dead-state exit belongs to the exact engine only: a fixed-step engine performs its steps up to t_max whether or
            # not anything can still happen (the documented step count, the requested records)
            exact = f.cls is not None and f.cls.name.startswith("Gillespie")
            dead = exact and (("a0 == 0", True) in facts or ("a0 <= 0", True) in facts or ("0 < a0", False) in facts)
            n += 1
            ctx.check(past or dead, R, node, f.qual, "FlagAsComplete() under %s" % ("t > t_max" if past else "a0 == 0" if dead
                      else sorted(str(a) for a, p_ in facts)[:3]), "past t_max, or nothing can happen any more",
                      "the run is flagged complete where neither `t > t_max` nor (in the exact engine) `a0 == 0` is known: it ends "
                      "before the first step beyond t_max (as soon as the requested sample times are used up, or, in a fixed-step "
                      "engine, as soon as nothing can react)")
    ctx.need(n >= 4, R, "only %d FlagAsComplete() call sites found" % n)
    ctx.floor(R, 4)


def rule_fetch_py(ctx, py):
    """C09.FETCH-PY -- what a trajectory holds is what the engine recorded: in the two fetch methods of LibRDEngine the array
    handed to the caller is filled from the buffer the native getter wrote, element by element, and from nothing else (no
    sample is replaced by the script's state, no time is re-computed on the Python side)."""
    R = "C09.FETCH-PY"
    import ast
    from .. import pyfe
    n = 0
    for q, getter in (("librdengine.LibRDEngine._get_data", "engineexport_get_trajectory"),
                      ("librdengine.LibRDEngine._get_t_sample", "engineexport_get_tsample")):
        f = py.fn(q)
        calls = [c for c in pyfe.calls_in(f) if pyfe.call_name(c).endswith(getter)]
        ctx.need(len(calls) == 1 and calls[0].args and isinstance(calls[0].args[0], ast.Name), R, "%s: call of %s not found" % (q, getter))
        buf = calls[0].args[0].id
        # names that carry the engine's data: the buffer, what is computed from it, and arrays filled from those
        derived = {buf}

        def base(t):
            b_ = t
            while isinstance(b_, (ast.Subscript, ast.Attribute)):
                b_ = b_.value
            return b_.id if isinstance(b_, ast.Name) else None

        def names(e):
            """names whose *contents* flow into e (metadata reads -- .units, .shape, len(..) -- carry no sample)"""
            out = set()

            def rec(x):
                if isinstance(x, ast.Attribute) and x.attr in ("units", "shape", "dtype", "size", "ndim", "units_system"):
                    return
                if isinstance(x, ast.Call) and pyfe.call_name(x) in ("len", "range", "type", "isinstance"):
                    return
                if isinstance(x, ast.Name):
                    out.add(x.id)
                for c_ in ast.iter_child_nodes(x):
                    rec(c_)
            rec(e)
            return out
        # program order, not line numbers: statements of an inlined helper keep the helper's lines
        order, k_ = {}, 0

        def number(blk):
            nonlocal k_
            for s_ in blk:
                k_ += 1
                order[id(s_)] = k_
                for fld in ("body", "orelse", "finalbody"):
                    number(getattr(s_, fld, None) or [])
        number(f.body)
        at_call = max((order[id(s_)] for s_ in ast.walk(f) if id(s_) in order and any(x is calls[0] for x in ast.walk(s_))
                       and not isinstance(s_, (ast.For, ast.If, ast.While, ast.With))), default=0)
        for _ in range(5):
            for st in ast.walk(f):
                if isinstance(st, ast.Assign) and len(st.targets) == 1:
                    t = st.targets[0]
                    if names(st.value) & derived and base(t) is not None and order.get(id(st), 0) > at_call:
                        derived.add(base(t))
        rets = [r for r in ast.walk(f) if isinstance(r, ast.Return) and r.value is not None]
        ctx.need(rets, R, "%s: no return" % q)
        for r in rets:
            n += 1
            ctx.check(bool(names(r.value) & derived), R, r, q, "return " + pyfe.src(r.value)[:50], "built from the buffer the native "
                      "getter filled", "what is returned is not built from the engine's buffer")
        for st in ast.walk(f):
            tg = st.targets if isinstance(st, ast.Assign) else [st.target] if isinstance(st, ast.AugAssign) else []
            for t in tg:
                if isinstance(t, ast.Name) or base(t) not in derived or base(t) == buf:
                    continue
                n += 1
                ctx.check(bool(names(st.value) & derived), R, st, q, pyfe.src(st)[:70], "filled from the native buffer",
                          "`%s` writes into the fetched data from another source than the engine's buffer: the sample the "
                          "caller sees is not the one the engine recorded (processed initial state, chemostated entries, totals)"
                          % pyfe.src(st)[:60])
    ctx.floor(R, 2)


def pya_atoms(t):
    from .. import pya
    return pya.atoms(t, True)


def rule_tmax(ctx, py):
    R = "C09.TMAX"
    f = py.fn("rdscript.RDScript.t_max")
    ok = False
    from .. import pysym
    for n in ast.walk(f):
        if isinstance(n, ast.If) and "'default'" in pyfe.src(n.test) and any(p_ for a_, p_ in pya_atoms(n.test)):
            rets = [x for b in n.body for x in ast.walk(b) if isinstance(x, ast.Return) and x.value is not None]
            if len(rets) == 1:
                v = pysym.isrc(rets[0].value, f).replace(" ", "")
                ok = v in ("self.t_sample.get_at(len(self.t_sample)-1)", "self.t_sample.get_at(-1)", "self.t_sample[-1]",
                           "self.t_sample[len(self.t_sample)-1]", "self._t_sample.get_at(len(self._t_sample)-1)")
    ctx.check(ok, R, f, f._qual, "t_max 'default' = last requested sample time", "", "default t_max is not the last element "
              "of t_sample")
    ctx.floor(R, 1)


def run(ctx):
    tu, py = ctx.cx, ctx.py
    I = idxmod.Idx(tu)
    eff = cxa.Effects(tu)
    rule_layout_out(ctx, tu, I)
    rule_pair_push(ctx, tu)
    rule_once(ctx, tu)
    rule_order(ctx, tu, eff)
    rule_policy_tab(ctx, tu, py)
    rule_handlers(ctx, tu)
    rule_complete(ctx, tu)
    rule_fetch_py(ctx, py)
    rule_tmax(ctx, py)
    from .. import ffi
    from . import c11
    ptr_req = {}
    for r in I.subs:
        if r.get("table_extent") is None and r.get("index_extent") is not None and "lit" not in r and r["status"] == "ok":
            ptr_req.setdefault((r["fn"], r["table"]), set()).add(r["index_extent"])
    ffi.rule_extent(ctx, "C09.FFI-EXTENT", I, ptr_req)
    # the recorded times (not the requested ones) are what a saved trajectory carries
    from . import c12
    c12.rule_traj(ctx, ctx.py, "C09.TRAJ")
    # shared clause: the status `is_complete()` reports belongs to the current set-up (C10.RESET): a driver loop on it records
    # the samples of this run, not none because the previous run had finished
    from ..core import borrow
    from . import c10
    borrow(ctx, "C09", c10.rule_reset, ctx.py)
    from .. import lints
    lints.run(ctx, "C09", ctx.py, ["rdscript", "librdengine", "simulate", "rdoutput"])
    ctx.assume("which step covers which requested time, interval boundaries and the number of steps performed are "
               "value-level and not decided")
