"""C14 -- initial-state processing: the transposition precedes every processing mode, the mode x engine decision
table selects the documented branch, the mode strings agree across the boundary, the local RNGs are seeded
with `seed`.  Does not decide totals, non-negativity, the Poisson law or termination (C10.LOOPS names the loop)."""
import ast

from .. import cxfe, cxa, idx as idxmod, vlay, pyfe
from ..cxfe import kids, strip, text, walk, name_of, call_parts, uname, subscript
from ..core import AnalysisError

INITS = ("engineexport_initialize_grid", "engineexport_initialize_graph")
MODES_PY_REF = ["auto", "none", "Poisson", "redist"]
OPTIONS = ["gillespie", "tauleap", "euler"]
# documented decision table (RDScript.init_state_processing docstring)
EXPECT = {("Poisson", o): "Poisson" for o in OPTIONS}
EXPECT.update({("floor", o): "floor" for o in OPTIONS})
EXPECT.update({("redist", o): "redist" for o in OPTIONS})
EXPECT.update({("none", o): "none" for o in OPTIONS})
EXPECT.update({("auto", "gillespie"): "redist", ("auto", "tauleap"): "redist", ("auto", "euler"): "none"})
EXPECT.update({("<other>", o): "error" for o in OPTIONS})


def ev(n, env, locs):
    """concrete evaluation of a boolean expression over CompareStr(param, "lit") atoms"""
    n = strip(n, casts=True)
    k = n.get("kind")
    if k == "CallExpr" and name_of(kids(n)[0]) == "CompareStr":
        a, b = kids(n)[1], kids(n)[2]
        p = name_of(strip(a, casts=True))
        lit = strip(b, casts=True)
        if lit.get("kind") != "StringLiteral" or p not in env:
            raise AnalysisError("CompareStr form not recognised: " + text(n))
        return env[p] == lit["value"].strip('"')
    if k == "UnaryOperator" and n.get("opcode") == "!":
        return not ev(kids(n)[0], env, locs)
    if k == "BinaryOperator" and n.get("opcode") == "&&":
        return ev(kids(n)[0], env, locs) and ev(kids(n)[1], env, locs)
    if k == "BinaryOperator" and n.get("opcode") == "||":
        return ev(kids(n)[0], env, locs) or ev(kids(n)[1], env, locs)
    if k == "DeclRefExpr" and uname(n) in locs:
        return ev(locs[uname(n)], env, locs)
    if k == "CXXMemberCallExpr" and "__virtual__" in locs:
        v = locs["__virtual__"](n, env)
        if v is not None:
            return v
    raise AnalysisError("condition form not recognised: " + text(n))


def virtual_resolver(tu, f):
    """a predicate asked of the freshly created algorithm object (`global_grid_algo->IsStochastic()`): the class constructed for
    the current option is read off the `new` expressions of the export, the method is looked up in that class and its bases, and
    must consist of a single `return true / false`"""
    created = {}
    for n in walk(f.body):
        if n.get("kind") == "IfStmt":
            p = cxfe.raw_kids(n)
            lits = [strip(call_parts(x)[2][1], casts=True).get("value", "").strip('"') for x in walk(p[0])
                    if x.get("kind") == "CallExpr" and (call_parts(x) or ("",))[0] == "CompareStr" and
                    name_of(strip(call_parts(x)[2][0], casts=True)) == "option"]
            news = [x.get("type", {}).get("qualType", "").replace("*", "").strip() for x in walk(p[1]) if x.get("kind") == "CXXNewExpr"]
            if len(lits) == 1 and len(news) == 1:
                created[lits[0]] = news[0]

    def lookup(cls, meth, depth=0):
        c = tu.classes.get(cls)
        if c is None or depth > 4:
            return None
        if meth in c.methods and c.methods[meth].body is not None:
            return c.methods[meth]
        for b in c.bases:
            m = lookup(b, meth, depth + 1)
            if m is not None:
                return m
        return None

    def resolve(n, env):
        cp = call_parts(n)
        cls = created.get(env.get("option"))
        if not cp or cls is None:
            return None
        m = lookup(cls, cp[0])
        if m is None:
            return None
        st = [x for x in kids(m.body)]
        if len(st) == 1 and st[0].get("kind") == "ReturnStmt" and kids(st[0]):
            v = strip(kids(st[0])[0], casts=True)
            if v.get("kind") == "CXXBoolLiteralExpr":
                return bool(v.get("value"))
        return None
    return resolve


def classify_branch(b):
    kinds = set()
    for x in walk(b):
        if "poisson_distribution" in x.get("type", {}).get("qualType", "") and \
                x.get("kind") in ("CXXTemporaryObjectExpr", "CXXConstructExpr"):
            kinds.add("Poisson")
        cp = call_parts(x) if x.get("kind") == "CallExpr" else None
        if cp and cp[0] == "floor":
            kinds.add("floor")
        if cp and cp[0] == "GenerateStochasticDistribution":
            kinds.add("redist")
        if x.get("kind") == "ReturnStmt" and kids(x) and cxa.const_int(kids(x)[0]) not in (None, 0):
            kinds.add("error")
    if not kinds:
        stores = [s for s in cxa.all_stores(b) if s.base and s.op == "="]
        if stores:
            kinds.add("none")
    return "+".join(sorted(kinds)) if kinds else "empty"


def mode_chain(ctx, R, f):
    """the if / else-if chain that dispatches on init_state_processing: [(cond or None, branch)]"""
    for n in kids(f.body):
        if n.get("kind") == "IfStmt":
            c = cxfe.raw_kids(n)[0]
            if any(name_of(x) == "init_state_processing" for x in walk(c)):
                chain = []
                cur = n
                while cur is not None and cur.get("kind") == "IfStmt":
                    p = cxfe.raw_kids(cur)
                    chain.append((p[0], p[1]))
                    cur = p[2] if len(p) > 2 and p[2] else None
                if cur is not None:
                    chain.append((None, cur))
                return chain
    ctx.error(R, "%s: no if-chain on init_state_processing" % f.qual)


def rule_dispatch(ctx, tu):
    R = "C14.DISPATCH"
    for name in INITS:
        f = tu.fn(name)
        chain = mode_chain(ctx, R, f)
        locs = {uname(x): kids(x)[-1] for x in walk(f.body)
                if x.get("kind") == "VarDecl" and x.get("type", {}).get("qualType", "").replace("const ", "").strip() == "bool"
                and kids(x)}
        locs["__virtual__"] = virtual_resolver(tu, f)
        for (mode, opt), want in sorted(EXPECT.items()):
            env = {"init_state_processing": mode, "option": opt}
            taken = None
            for cond, br in chain:
                if cond is None or ev(cond, env, locs):
                    taken = classify_branch(br)
                    break
            if taken is None:
                taken = "fall-through"
            ctx.check(taken == want, R, f.node, name, "mode=%s engine=%s" % (mode, opt),
                      "takes the %s branch" % taken,
                      "takes the `%s` branch, the documented processing is `%s`" % (taken, want))
    ctx.floor(R, 2 * len(EXPECT))


def rule_modes(ctx, tu, py):
    R = "C14.MODES"
    # Python: literal list tested in the RDScript.init_state_processing setter
    fn = py.fn("rdscript.RDScript.init_state_processing.setter")
    accepted = None
    for n in ast.walk(fn):
        if isinstance(n, ast.Compare) and len(n.ops) == 1 and isinstance(n.ops[0], (ast.In, ast.NotIn)) and \
                isinstance(n.comparators[0], (ast.List, ast.Tuple, ast.Set)):
            accepted = [e.value for e in n.comparators[0].elts if isinstance(e, ast.Constant)]
    ctx.need(accepted, R, "RDScript.init_state_processing setter: accepted list not found")
    for name in INITS:
        f = tu.fn(name)
        handled = set()
        for cond, br in mode_chain(ctx, R, f):
            if cond is None:
                continue
            for x in walk(cond):
                cp = call_parts(x) if x.get("kind") == "CallExpr" else None
                if cp and cp[0] == "CompareStr" and name_of(strip(cp[2][0], casts=True)) == "init_state_processing":
                    handled.add(strip(cp[2][1], casts=True).get("value", "").strip('"'))
        for m in accepted:
            ctx.check(m in handled, R, f.node, name, "mode \"%s\"" % m, "accepted by RDScript and handled by the engine",
                      "RDScript accepts \"%s\" but %s does not compare against it: set-up returns code 4, which "
                      "the Python layer ignores" % (m, name))
    ctx.floor(R, 8)


def rule_seed(ctx, tu):
    R = "C14.SEED"
    n = 0
    for fname in INITS + ("GenerateStochasticDistribution",):
        f = tu.fn(fname)
        for x in walk(f.body):
            if x.get("kind") == "VarDecl" and "mersenne_twister" in (x.get("type", {}).get("desugaredQualType", "") +
                                                                      x.get("type", {}).get("qualType", "")) \
                    or (x.get("kind") == "VarDecl" and "mt19937" in x.get("type", {}).get("qualType", "")):
                init = kids(x)
                args = [a for a in kids(strip(init[-1], casts=True))] if init else []
                a0 = uname(strip(args[0], casts=True)) if args else None
                n += 1
                ctx.check(a0 == "seed" and "seed" in f.param_names(), R, x, fname, text(x)[:80],
                          "seeded with the `seed` parameter",
                          "local generator not constructed from the seed parameter: the processed initial state "
                          "is not reproducible for a given seed")
    # the seed handed to GenerateStochasticDistribution is the export's seed parameter
    for fname in INITS:
        f = tu.fn(fname)
        for x in walk(f.body):
            cp = call_parts(x) if x.get("kind") == "CallExpr" else None
            if cp and cp[0] == "GenerateStochasticDistribution":
                g = tu.fn("GenerateStochasticDistribution")
                i = g.param_names().index("seed")
                n += 1
                ctx.check(uname(strip(cp[2][i], casts=True)) == "seed", R, x, fname,
                          "GenerateStochasticDistribution(..., seed)", "receives the export's seed", "does not")
    ctx.floor(R, 5)


def rule_gsd(ctx, tu):
    """GenerateStochasticDistribution: the target total is the floor of the real-valued total; a molecule is removed
    only from an entry that still holds one"""
    from . import c02
    from ..poly import Rat
    f = tu.fn("GenerateStochasticDistribution")
    R = "C14.FLOOR"
    floors = []
    for s_ in cxa.all_stores(f.body):
        if s_.base and s_.base[0] == "var" and s_.rhs is not None:
            cp = call_parts(strip(s_.rhs, casts=True))
            if cp and cp[0] == "floor" and cxfe.subscript(s_.target) is not None and s_.op == "=":
                floors.append((s_, cp[2][0]))
    from .. import gsd
    role = gsd.roles(f)              # locals identified by what they are computed from, not by name
    tot = [x for x in floors if role.get(cxa.canon(x[0].target).split("[")[0].split("'")[0]) == "tot_species"]
    ctx.need(len(tot) == 1, R, "GenerateStochasticDistribution: flooring of the species totals not found")
    s_, arg = tot[0]
    got = c02.expr_rat(arg, {})
    ctx.check(got.equals(Rat.sym(cxa.canon(s_.target))), R, s_.node, f.qual, text(s_.node), "target total = floor(real-valued total)",
              "the target total is floor(%r), not the floor of the real-valued total: fractional totals are rounded up"
              % (got,))
    # the totals are sums over all cells of the entries of that species
    sums = [x for x in cxa.all_stores(f.body) if x.op == "+=" and x.base and role.get(x.base[1]) in ("tot_species", "tot2_species")]
    ctx.check(len(sums) == 2, R, f.node, f.qual, "totals accumulated by += over cells (real state, drawn state)", "", "")
    R = "C14.NONNEG"
    recs = []

    def on_atom(node, facts):
        for x in walk(node):
            for s2 in cxa.stores_of_node(x):
                if s2.base and s2.base[0] == "var" and s2.base[1].startswith("mesh_x_sto") and cxfe.subscript(s2.target) is not None:
                    recs.append((s2, frozenset(facts)))
    cxa.canon_facts(f.body, on_atom=on_atom)
    n = 0
    for s2, facts in recs:
        tgt = cxa.canon(s2.target)
        neg = None
        if s2.op in ("--",):
            neg = True
        elif s2.op in ("++",):
            neg = False
        elif s2.op in ("+=", "-="):
            k = None
            r = strip(s2.rhs, casts=True)
            try:
                k = float(r.get("value")) if r.get("kind") in ("IntegerLiteral", "FloatingLiteral") else None
            except Exception:
                k = None
            neg = None if k is None else ((k > 0) == (s2.op == "-="))
            if k is None:
                neg = "unknown"
        else:
            continue            # the initial draws (plain assignment of a non-negative sample)
        n += 1
        if neg is False:
            ctx.ok(R, s2.node, f.qual, text(s2.node)[:70], "adds a molecule", nontrivial=False)
            continue
        ok = cxa.is_positive_fact(facts, tgt)
        ctx.check(ok, R, s2.node, f.qual, text(s2.node)[:70], "a molecule is removed only where %s > 0" % tgt,
                  "an entry is decreased%s without the test `%s > 0`: the processed t = 0 state can hold negative counts"
                  % (" (by an amount of unknown sign)" if neg == "unknown" else "", tgt))
    ctx.need(n >= 1, R, "no correction update of mesh_x_sto found")
    ctx.floor(R, 1)
    ctx.floor("C14.FLOOR", 2)
    # C14.COUNT: the correction stops when its counter reaches |drawn total - target total|; the counter therefore has to move
    # exactly when one molecule is really removed / added: every counter increment stands under the same conditions as one
    # unit update of mesh_x_sto, and every unit update is counted
    R = "C14.COUNT"
    unit = []       # (store, facts) of mesh_x_sto +-1
    for s2, facts in recs:
        one = s2.op in ("++", "--") or (s2.op in ("+=", "-=") and cxa.const_int(s2.rhs) == 1)
        if one:
            unit.append((s2, facts))
    cnt = []

    def on_atom2(node, facts):
        for x in walk(node):
            for s2 in cxa.stores_of_node(x):
                if s2.base and s2.base[0] == "var" and subscript(s2.target) is None and \
                        (s2.op == "++" or (s2.op == "+=" and cxa.const_int(s2.rhs) == 1)):
                    cnt.append((s2, frozenset(facts)))
    cxa.canon_facts(f.body, on_atom=on_atom2)
    # the counter: a local incremented by one under the correction's conditions and compared with the amount to correct
    loopvars = set()
    for lp in walk(f.body):
        if lp.get("kind") == "ForStmt":
            inc = cxfe.raw_kids(lp)[3]
            if inc:
                for s2 in cxa.stores_of_node(strip(inc)):
                    if s2.base:
                        loopvars.add(s2.base[1])
    cnt = [(s2, fc) for s2, fc in cnt if s2.base[1] not in loopvars]
    ctx.need(cnt, R, "GenerateStochasticDistribution: the correction counter is not found")
    # "the same conditions" = the same chain of enclosing if-branches (flow facts would lose `x > 0` at the decrement of x)
    chain = {}

    def norm_(cond, pol):
        c_ = strip(cond, casts=True)
        while c_.get("kind") == "UnaryOperator" and c_.get("opcode") == "!":
            c_, pol = strip(kids(c_)[0], casts=True), not pol
        return (cxa.canon(c_), pol)

    def leaves_(b):
        """does the branch always leave the enclosing block (continue / break / return as its last statement)?"""
        b = strip(b)
        if b.get("kind") == "CompoundStmt":
            ks = kids(b)
            return bool(ks) and leaves_(ks[-1])
        return b.get("kind") in ("ContinueStmt", "BreakStmt", "ReturnStmt")

    def rec_(n, ch):
        chain[id(n)] = ch
        if n.get("kind") == "IfStmt":
            p_ = cxfe.raw_kids(n)
            rec_(p_[0], ch)
            for bi, b in enumerate(p_[1:3]):
                if b:
                    rec_(b, ch + (norm_(p_[0], bi == 0),))
            return
        if n.get("kind") == "CompoundStmt":
            cur = ch
            for c in kids(n):
                rec_(c, cur)
                # `if(c) continue;` (no else): what follows in this block runs under !c
                if c.get("kind") == "IfStmt":
                    p_ = cxfe.raw_kids(c)
                    if (len(p_) < 3 or not p_[2]) and leaves_(p_[1]):
                        cur = cur + (norm_(p_[0], False),)
            return
        for c in kids(n):
            rec_(c, ch)
    rec_(f.body, ())
    strip_facts = None
    unit = [(s2, chain.get(id(s2.node), ())) for s2, _ in unit]
    cnt = [(s2, chain.get(id(s2.node), ())) for s2, _ in cnt]
    strip_facts = lambda fc: frozenset(fc)
    ufacts = [strip_facts(fc) for _, fc in unit]
    for s2, fc in cnt:
        ctx.check(strip_facts(fc) in ufacts, R, s2.node, f.qual, text(s2.node)[:60] + " under " + "; ".join(sorted(
            ("" if p_ else "!") + "(" + t + ")" for t, p_ in strip_facts(fc)))[:120], "counts one real unit update of the drawn state",
                  "the correction counter advances on a path where no molecule is removed / added (its conditions differ from "
                  "those of every +-1 update): the loop ends early and the t = 0 total is not floor(real total)")
    # the cell that gives / receives a molecule is drawn with probability proportional to its real amount: first cell whose
    # running sum *exceeds* the uniform target.  With `<=` a cell whose running sum merely equals the target -- in particular a
    # leading cell holding nothing, target 0 -- is selected: a zero entry receives molecules, or an empty cell is picked forever
    # (the running sum and the target are found by role: the scalar that accumulates table elements by +=, and the scalar it is
    # compared with -- whatever they are called)
    import re as _re
    acc_names = {s2.base[1].split("'")[0] for s2 in cxa.all_stores(f.body) if s2.base and s2.base[0] == "var" and s2.op == "+=" and
                 subscript(s2.target) is None and s2.rhs is not None and subscript(strip(s2.rhs, casts=True)) is not None}
    ctx.need(acc_names, R, "GenerateStochasticDistribution: the running sum of the selection is not found")
    target_names = set()
    word = lambda t: set(_re.findall(r"[A-Za-z_][A-Za-z_0-9]*", t))
    for s2, ch in unit:
        sel = [(t, b) for t, b in ch if word(t) & acc_names]
        okk = False
        for t, b in sel:
            m_ = _re.match(r"^\(*([A-Za-z_]\w*)(<|>)([A-Za-z_]\w*)\)*$", t.replace(" ", "").replace("'", ""))
            if m_ and b:
                lo, hi = (m_.group(1), m_.group(3)) if m_.group(2) == "<" else (m_.group(3), m_.group(1))
                if hi in acc_names and lo not in acc_names:
                    okk = True
                    target_names.add(lo)
        ctx.check(okk, R, s2.node, f.qual, text(s2.node)[:50] + " selected by " + "; ".join(t for t, _ in sel)[:60],
                  "first cell whose running sum exceeds the target (strict)", "the cell is selected under `%s`, not under the strict "
                  "`target < cumul`: a cell with nothing of the species can be selected (zero does not stay zero; the correction "
                  "loop can spin on an empty cell)" % "; ".join(t for t, _ in sel)[:80], nontrivial=False)
    # ... and the running sum the target is compared with adds up the *real-valued* amounts (the function's input state), the
    # target being a fraction of their floored total: a cell whose real amount is zero has zero weight.  Weighting by the drawn
    # state instead lets a zero cell keep what an unlucky draw gave it and leaves nothing to select from when every draw was 0
    state_in = f.param_names()[0]
    accs = [s2 for s2 in cxa.all_stores(f.body) if s2.base and s2.base[0] == "var" and s2.base[1].split("'")[0] in acc_names and
            s2.op == "+=" and s2.rhs is not None]
    ctx.need(accs, R, "GenerateStochasticDistribution: the running sum of the selection is not found")
    for s2 in accs:
        sub_ = subscript(strip(s2.rhs, casts=True))
        src_ = name_of(strip(sub_[0], casts=True)) if sub_ is not None else None
        ctx.check(src_ == state_in, R, s2.node, f.qual, text(s2.node)[:60], "weights = real-valued amounts of the input state",
                  "the selection is weighted by `%s`, not by the real-valued amounts `%s`: a cell whose real amount is zero can be "
                  "selected, and when the drawn amounts are all zero nothing can be selected (the loop never ends)"
                  % (src_ or text(s2.rhs)[:30], state_in))
    tg = [x for x in walk(f.body) if x.get("kind") == "VarDecl" and (x.get("name") or "") in target_names and kids(x)]
    ctx.need(tg, R, "GenerateStochasticDistribution: the selection target is not found")
    for x in tg:
        srcs = {name_of(strip(subscript(y)[0], casts=True)) for y in walk(kids(x)[-1]) if subscript(y) is not None}
        ctx.check({role.get(s_, s_) for s_ in srcs} == {"tot_species"}, R, x, f.qual, text(x)[:70], "target = u x floored real total", "the target is scaled by "
                  "%s, not by the floored real-valued total" % sorted(s_ for s_ in srcs if s_))
    cfacts_ = [strip_facts(fc) for _, fc in cnt]
    for s2, fc in unit:
        ctx.check(strip_facts(fc) in cfacts_, R, s2.node, f.qual, text(s2.node)[:60] + " is counted", "each unit update advances "
                  "the counter", "a +-1 update of the drawn state is not counted: more molecules are moved than the difference "
                  "of the totals")
    # every species whose drawn total differs from the target is corrected: besides the selection itself, a unit update stands
    # only under `difference != 0` and the direction of the correction.  A further skip on the species' amounts (`total < 1`,
    # ...) leaves a drawn total that is not floor(real total)
    import re as _re
    # (the difference may be tested on the local or on the table it was read from).  Name-independent: a condition is foreign when
    # it reads the amounts themselves -- the input state, the real or the drawn totals (identified by what they are computed from)
    # -- or another parameter; locals (difference, direction, target, running sum, counter) and the drawn state are the
    # correction's own
    foreign = {state_in} | {k_ for k_, v_ in role.items() if v_ in ("tot_species", "tot2_species")} | \
        {p_ for p_ in f.param_names()[1:] if not p_.startswith("n_")}
    for s2, ch in unit:
        extra = [t for t, b in ch if set(_re.findall(r"[A-Za-z_][A-Za-z_0-9]*", t)) & foreign]
        ctx.check(not extra, R, s2.node, f.qual, text(s2.node)[:50] + " reached for every species with a difference",
                  "conditions on the difference, the direction and the selection only", "the correction of a species is skipped "
                  "under `%s`: its drawn total stays what the independent draws gave, not floor(real total)" %
                  (extra[0] if extra else "?"))
    # what steers the correction of one species is set for that species: a local tested on the way to a unit update is declared
    # inside the species loop, or assigned unconditionally at the top of its body -- a flag that is only ever set (hoisted out
    # of the loop) keeps the previous species' direction
    sp_loops = [lp for lp in walk(f.body) if lp.get("kind") == "ForStmt" and
                any(any(y is s2.node for y in walk(lp)) for s2, _ in unit)]
    if sp_loops:
        sp = sp_loops[0]               # outermost
        body_ = cxfe.raw_kids(sp)[4]
        inside = {uname(v) for v in walk(body_) if v.get("kind") == "VarDecl"}
        top_assigned = set()
        for c_ in kids(body_) if body_.get("kind") == "CompoundStmt" else []:
            for st_ in cxa.stores_of_node(strip(c_)) if c_.get("kind") not in ("IfStmt", "ForStmt", "WhileStmt", "DeclStmt") else []:
                if st_.op == "=" and st_.base and st_.base[0] == "var":
                    top_assigned.add(st_.base[1])
        decl_out = {uname(v) for v in walk(f.body) if v.get("kind") == "VarDecl" and
                    v.get("type", {}).get("qualType", "").replace("const ", "").strip() in
                    ("int", "bool", "double", "float", "long", "unsigned int", "size_t", "unsigned long")} - inside
        steer = set()
        for s2, ch in unit:
            for t, b in ch:
                for w_ in _re.findall(r"[A-Za-z_][A-Za-z_0-9']*", t):
                    if w_ in decl_out:
                        steer.add(w_)
        written_in = {st_.base[1] for st_ in cxa.all_stores(body_) if st_.base and st_.base[0] == "var"}
        for v_ in sorted(steer & written_in):
            ctx.check(v_ in top_assigned, R, sp, f.qual, "`%s` steers the correction and is declared outside the species loop" % v_,
                      "re-initialised for every species", "`%s` is declared outside the species loop and only conditionally "
                      "assigned inside: it keeps the value the previous species left (a sticky `remove` flag turns every later "
                      "addition into a removal)" % v_)
    ctx.floor(R, 6)
    # C14.INTEGER: whatever is stored into the drawn state is a whole number
    R = "C14.INTEGER"

    def integral(e):
        e = strip(e, casts=True)
        k = e.get("kind")
        ty = e.get("type", {}).get("qualType", "")
        if ty in ("int", "long", "unsigned int", "size_t", "bool", "unsigned long", "long long") and k != "FloatingLiteral":
            return True
        if k == "IntegerLiteral":
            return True
        if k == "FloatingLiteral":
            try:
                return float(e.get("value")) == int(float(e.get("value")))
            except Exception:
                return False
        if k in ("CallExpr", "CXXOperatorCallExpr", "CXXMemberCallExpr"):
            cp = call_parts(e)
            nm = cp[0] if cp else name_of(kids(e)[0]) if kids(e) else None
            if nm in ("floor", "ceil", "round", "trunc", "nearbyint", "rint", "lround", "lrint"):
                return True
            if nm in ("max", "min", "abs", "fabs") and cp:
                return all(integral(a) for a in cp[2])
            if nm == "operator()" and "poisson_distribution" in cxfe.text(e) + str(kids(e)[1].get("type", {})):
                return True
            return False
        if k == "ConditionalOperator":
            return integral(kids(e)[1]) and integral(kids(e)[2])
        if k == "BinaryOperator" and e.get("opcode") in ("+", "-", "*"):
            return integral(kids(e)[0]) and integral(kids(e)[1])
        if k == "UnaryOperator" and e.get("opcode") in ("-", "+"):
            return integral(kids(e)[0])
        return False
    ni = 0
    for s2, _ in recs:
        if s2.op in ("++", "--"):
            continue
        if s2.rhs is None:
            continue
        ni += 1
        ctx.check(integral(s2.rhs), R, s2.node, f.qual, text(s2.node)[:80], "a whole number (floor / round / an integer draw, "
                  "combined by max, +, -)", "the value stored into the drawn state is not a whole number by construction "
                  "(`%s`): the recorded t = 0 state of a stochastic engine holds fractions" % text(s2.rhs)[:60])
    ctx.need(ni >= 2, R, "stores into the drawn state not found")
    ctx.floor(R, 2)


def rule_every_entry(ctx, tu, I):
    """C14.EVERY-ENTRY -- the element-wise processing modes (Poisson, floor) visit every entry of the state: in the initialisers
    the cell-major state `mesh_x` is addressed only by an index that runs over its whole size (cells x species)."""
    R = "C14.EVERY-ENTRY"
    n = 0
    for r in I.subs:
        if not r["fn"].startswith("engineexport_initialize") or r["table"] != "mesh_x":
            continue
        n += 1
        lay = r["layout"] or []
        ok = r["status"] == "ok" and len(lay) == 1 and lay[0][0] == "flat" and len(lay[0]) > 1 and repr(lay[0][1]) in ("C*S", "S*C")
        ctx.check(ok, R, r["node"], r["fn"], r["text"], "index over all cells x species entries",
                  "the state is processed with an index of kind %s: only part of the entries is drawn / floored, the others "
                  "keep their real-valued amount" % ("][".join(str(k) for k in lay) or r.get("detail") or "?"))
    ctx.need(n >= 6, R, "only %d element accesses of mesh_x in the initialisers" % n)
    ctx.floor(R, 6)


def run(ctx):
    tu = ctx.cx
    # shared clause, first (it needs no engine anchor): the amounts the processing starts from are the state's, converted from
    # the state's own units (C04.STATE)
    from ..core import borrow as _borrow
    from . import c04 as _c04
    _borrow(ctx, "C14", _c04.rule_state, ctx.py)
    rule_gsd(ctx, tu)
    I = idxmod.Idx(tu)
    rule_every_entry(ctx, tu, I)
    n = vlay.check_init_layouts(ctx, "C14.TRANSPOSE", tu, I, what=("mesh_x0",))
    ctx.floor("C14.TRANSPOSE", 2)
    rule_dispatch(ctx, tu)
    rule_modes(ctx, tu, ctx.py)
    rule_seed(ctx, tu)
    # ... and the seed those generators receive is the script's: given seeds (0 included) are kept, only a missing seed is drawn
    from . import c08, c11
    c08.rule_py_seed(ctx, ctx.py, "C14.SEED-PY")
    # ... and nothing survives from one set-up to the next: no function-local static (a cached normal deviate, a scratch buffer)
    c11.rule_static(ctx, tu, "C14.STATIC")
    # shared clause: the mode (and the seed) written in a script file reach the constructor when the file is read (C12.SCHEMA)
    from ..core import borrow
    from . import c12
    borrow(ctx, "C14", c12.rule_schema, ctx.py)
    # shared clause: the recorded t = 0 sample the caller sees is the processed state the engine recorded (C09.FETCH-PY)
    from . import c09 as _c09
    borrow(ctx, "C14", _c09.rule_fetch_py, ctx.py)
    # shared clauses: the amounts the processing starts from are the state's, converted from the state's own units (C04.STATE);
    # a coarse-grained run keeps the script's mode and seed (C16.SCRIPT)
    from . import c16 as _c16
    borrow(ctx, "C14", _c16.rule_cgscript, ctx.py)
    from .. import ffi
    ffi.rule_sig(ctx, "C14.FFI", only={"mesh_state", "mesh_chstt", "seed", "init_state_processing"})
    from .. import lints
    lints.run(ctx, "C14", ctx.py, ["rdscript", "simulate", "librdengine"], truth_floor=5)
    ctx.assume("totals, non-negativity, 'zero stays zero', the Poisson law and termination of the redistribution loop "
               "are value-level and not decided (the loop is named by C10.LOOPS)")
    ctx.assume("the Python side hands state and chemostat map over species-major (C13.INDEX)")
