"""C12 -- dictionary / JSON / file round trips: the writer's and reader's key tables and the constructor's
parameters agree, file references are resolved against the file's directory, and the serialisation functions can
run at all (names resolve, stdlib calls bind).  Does not decide equality of content."""
import ast

from .. import pynorm

from .. import pyfe, res, pya
from ..core import AnalysisError

# (reader, writer, class or None)   -- located by qualified name; a vanished anchor is an analysis error
PAIRS = [
    ("units.unitssystem_from_dict", "units.unitssystem_to_dict", "units.UnitsSystem"),
    ("units.unitsdimensions_from_dict", "units.unitsdimensions_to_dict", "units.UnitsDimensions"),
    ("units.unitarray_from_dict", "units.unitarray_to_dict", None),
    ("rdnetwork.species_from_dict", "rdnetwork.species_to_dict", "rdnetwork.Species"),
    ("rdnetwork.reaction_from_dict", "rdnetwork.reaction_to_dict", "rdnetwork.Reaction"),
    ("rdnetwork.rdnetwork_from_dict", "rdnetwork.rdnetwork_to_dict", "rdnetwork.RDNetwork"),
    ("rdgridspace.rdgridspace_from_dict", "rdgridspace.rdgridspace_to_dict", "rdgridspace.RDGridSpace"),
    ("rdgraphspace.rdgraphspacenode_from_dict", "rdgraphspace.rdgraphspacenode_to_dict",
     "rdgraphspace.RDGraphSpaceNode"),
    ("rdgraphspace.rdgraphspaceedge_from_dict", "rdgraphspace.rdgraphspaceedge_to_dict",
     "rdgraphspace.RDGraphSpaceEdge"),
    ("rdgraphspace.rdgraphspace_from_dict", "rdgraphspace.rdgraphspace_to_dict", "rdgraphspace.RDGraphSpace"),
    ("rdsystem.rdsystem_from_dict", "rdsystem.rdsystem_to_dict", "rdsystem.RDSystem"),
    ("rdscript.rdscript_from_dict", "rdscript.rdscript_to_dict", "rdscript.RDScript"),
]
# writer idioms that stand for a constructor parameter (one named symbol each, with its reason)
WRITER_ALIASES = {
    ("rdnetwork.Reaction", "stoichiometry"): "to_string",            # the equation is printed, not stored
    ("rdgridspace.RDGridSpace", "boundary_conditions"): "get_boundary_conditions",
    ("rdgraphspace.RDGraphSpaceEdge", "i"): "i", ("rdgraphspace.RDGraphSpaceEdge", "j"): "j",
}
# constructor parameters a reader legitimately never wires (reason each)
READER_EXEMPT = {
    ("rdnetwork.Reaction", "environments"): "derived from the rate-constant dictionaries, not serialised",
}
SERIAL_FUNCS_EXTRA = ["rdspace.rdspace_from_dict", "rdspace.rdspace_to_dict", "rdoutput.save_rdtrajectory",
                      "rdoutput.load_rdtrajectory"]


def str_const(n):
    return n.value if isinstance(n, ast.Constant) and isinstance(n.value, str) else None


def reader_info(fn):
    dname = pyfe.params(fn)[0]
    rows = None
    for c in pyfe.calls_in(fn):
        if pyfe.call_name(c).endswith("process_input_dict_keys") and len(c.args) >= 2 and \
                isinstance(c.args[1], ast.List):
            rows = [[str_const(e) for e in r.elts] for r in c.args[1].elts if isinstance(r, ast.List)]
            policy = pyfe.arg(c, 2, "policy")
            rows_call = c
    consumed = {}
    wiring = {}    # constructor param -> set of keys it is built from
    for n in ast.walk(fn):
        if isinstance(n, ast.Subscript) and isinstance(n.value, ast.Name) and n.value.id == dname and \
                isinstance(n.ctx, ast.Load):
            k = str_const(n.slice)
            if k is not None:
                consumed.setdefault(k, n)
        if isinstance(n, ast.Compare) and len(n.ops) == 1 and isinstance(n.ops[0], (ast.In, ast.NotIn)) and \
                isinstance(n.comparators[0], ast.Name) and n.comparators[0].id == dname:
            k = str_const(n.left)
            if k is not None:
                consumed.setdefault(k, n)
        if isinstance(n, ast.Call) and isinstance(n.func, ast.Attribute) and n.func.attr == "get" and \
                isinstance(n.func.value, ast.Name) and n.func.value.id == dname and n.args:
            k = str_const(n.args[0])
            if k is not None:
                consumed.setdefault(k, n)
        # the units lookup reads the literal key "units" of the dictionary it is handed
        if isinstance(n, ast.Call) and pyfe.call_name(n).endswith("retrive_units_system_from_dict"):
            a0 = pyfe.arg(n, 0, "d")
            if isinstance(a0, ast.Name) and a0.id == dname:
                consumed.setdefault("units", n)
    # da["param"] = <expr over d[...] or locals derived from d[...]>
    local_src = {}
    for n in ast.walk(fn):
        if isinstance(n, ast.Assign) and len(n.targets) == 1:
            t = n.targets[0]
            keys = set()
            for x in ast.walk(n.value):
                if isinstance(x, ast.Subscript) and isinstance(x.value, ast.Name) and x.value.id == dname:
                    k = str_const(x.slice)
                    if k:
                        keys.add(k)
                if isinstance(x, ast.Name) and x.id in local_src:
                    keys |= local_src[x.id]
                if isinstance(x, ast.Call) and pyfe.call_name(x).endswith("retrive_units_system_from_dict"):
                    keys.add("units")
            if isinstance(t, ast.Name):
                local_src[t.id] = local_src.get(t.id, set()) | keys
            if isinstance(t, ast.Subscript) and isinstance(t.value, ast.Name) and t.value.id == "da":
                p = str_const(t.slice)
                if p:
                    wiring.setdefault(p, set()).update(keys)
    ctor = None
    for n in ast.walk(fn):
        if isinstance(n, ast.Return) and isinstance(n.value, ast.Call):
            ctor = n.value
        if isinstance(n, ast.Assign) and isinstance(n.value, ast.Call) and n.value.keywords and \
                any(k.arg is None for k in n.value.keywords):
            ctor = n.value
    if ctor is not None:
        for kw in ctor.keywords:
            if kw.arg is not None:
                keys = set()
                for x in ast.walk(kw.value):
                    if isinstance(x, ast.Subscript) and isinstance(x.value, ast.Name) and x.value.id == dname:
                        k = str_const(x.slice)
                        if k:
                            keys.add(k)
                wiring.setdefault(kw.arg, set()).update(keys)
    return rows, consumed, wiring, ctor


def writer_info(fn):
    oname = pyfe.params(fn)[0]
    emitted = {}   # key -> value expr
    for n in ast.walk(fn):
        if isinstance(n, ast.Dict):
            par = pyfe.parent(n)
            # only dictionaries that become the result (assigned to a name or returned), at top nesting
            if isinstance(par, (ast.Assign, ast.Return)):
                for k, v in zip(n.keys, n.values):
                    ks = str_const(k)
                    if ks is not None:
                        emitted[ks] = v
        if isinstance(n, ast.Assign) and len(n.targets) == 1 and isinstance(n.targets[0], ast.Subscript) and \
                isinstance(n.targets[0].value, ast.Name) and n.targets[0].value.id == "d":
            ks = str_const(n.targets[0].slice)
            if ks is not None:
                emitted[ks] = n.value
    attrs = {}   # key -> set of attributes of the object read in its value
    for k, v in emitted.items():
        s = set()
        for x in ast.walk(v):
            if isinstance(x, ast.Attribute) and isinstance(x.value, ast.Name) and x.value.id == oname:
                s.add(x.attr)
            if isinstance(x, ast.Subscript) and isinstance(x.value, ast.Name) and x.value.id == oname:
                ks = str_const(x.slice)
                if ks:
                    s.add(ks)
        attrs[k] = s
    return emitted, attrs


def ctor_params(py, clsq):
    c = py.cls(clsq)
    init = py.lookup_method(c, "__init__")
    if init is None:
        raise AnalysisError("%s has no __init__" % clsq)
    return [p for p in pyfe.params(init) if p != "self"]


def rule_schema(ctx, py):
    R = "C12.SCHEMA"
    for rq, wq, cq in PAIRS:
        rf, wf = pynorm.unrolled(py.fn(rq)), pynorm.unrolled(py.fn(wq))    # `for key in (<literal keys>)` == one statement per key
        rows, consumed, wiring, ctor = reader_info(rf)
        ctx.need(rows is not None, R, "%s: no process_input_dict_keys call with a literal synonym table" % rq)
        accepted = {k for r in rows for k in r}
        canon = {k: r[0] for r in rows for k in r}
        emitted, attrs = writer_info(wf)
        ctx.need(emitted, R, "%s: no emitted dictionary found" % wq)
        # synonym rows pairwise disjoint
        flat = [k for r in rows for k in r]
        dup = sorted({k for k in flat if flat.count(k) > 1})
        ctx.check(not dup, R, rf, rq, "synonym rows are pairwise disjoint", "%d rows" % len(rows),
                  "key(s) %s appear in two synonym rows: the alias is ambiguous" % dup, nontrivial=False)
        for k in sorted(emitted):
            ctx.check(k in accepted, R, emitted[k], wq, "emits \"%s\"" % k, "accepted by %s" % rq,
                      "the writer emits key \"%s\" that %s rejects as unknown: the object cannot be read back"
                      % (k, rq))
        for k, n in sorted(consumed.items()):
            ctx.check(k in canon.values() or (k in accepted and canon[k] == k), R, n, rq, "reads d[\"%s\"]" % k,
                      "a canonical key", "the reader consumes \"%s\", which is not the canonical key of its synonym "
                      "row (%s): aliases are replaced by the first key of the row, so this read misses them"
                      % (k, canon.get(k, "no row")))
        if cq is None:
            continue
        params = ctor_params(py, cq)
        for p in params:
            if (cq, p) in READER_EXEMPT:
                ctx.info(R, rf, rq, "constructor parameter %s" % p, READER_EXEMPT[(cq, p)])
                continue
            keys = wiring.get(p)
            wired = keys is not None
            # writer side: some emitted key whose value reads obj.<p> (or its alias)
            alias = WRITER_ALIASES.get((cq, p), p)
            wkeys = [k for k, s in attrs.items() if alias in s or p in s or ("_" + p) in s]
            ctx.check(wired and bool(wkeys), R, rf if not wired else wf, rq if not wired else wq,
                      "%s(%s=...)" % (cq.split(".")[-1], p),
                      "read from key(s) %s, written as %s" % (sorted(keys or ()), wkeys),
                      ("the reader never passes `%s` to the constructor" % p if not wired else
                       "the writer emits no key built from `.%s`" % alias) +
                      ": the field is silently reset to its default by a dictionary round trip")
            if wired and wkeys and keys:
                # the key the writer uses must be (an alias of) the key the reader wires this parameter from
                okk = any(canon.get(wk) in keys or wk in keys for wk in wkeys)
                ctx.check(okk, R, wf, wq, "key of %s" % p, "writer key %s is read back into `%s`" % (wkeys, p),
                          "the writer stores `%s` under %s but the reader builds it from %s"
                          % (p, wkeys, sorted(keys)))
    ctx.floor(R, 100)


def serial_funcs(py):
    out = []
    for f in py.all_funcs():
        n = f.name
        if n.endswith("_to_dict") or n.endswith("_from_dict") or n.startswith("load_") or n.startswith("save_"):
            out.append(f)
        elif f._mod.name in ("value_processing", "filepath", "text_array_rw"):
            out.append(f)
    return out


def rule_names(ctx, py, thorough):
    R = "C12.NAMES"
    fns = serial_funcs(py)
    ctx.need(len(fns) >= 45, R, "only %d serialisation / helper functions found" % len(fns))
    scope = list(py.all_funcs()) if thorough else fns
    inscope = {id(f) for f in fns}
    for f in scope:
        bad = res.unresolved_names(py, f)
        battr = res.unresolved_self_attrs(py, f)
        if id(f) in inscope:
            ctx.check(not bad and not battr, R, f, f._qual, "names of %s resolve" % f.name,
                      "", "", nontrivial=False) if not (bad or battr) else None
            for n in bad:
                ctx.violation(R, n, f._qual, "name `%s`" % n.id,
                              "`%s` is not a parameter, local, module-level binding or builtin: reaching this line "
                              "raises NameError" % n.id)
            for n in battr:
                ctx.violation(R, n, f._qual, "self.%s" % n.attr, "no such attribute, method or property in the class")
        else:
            for n in bad:
                ctx.info(R, n, f._qual, "name `%s`" % n.id, "unresolved name in code outside the serialisation layer")
            for n in battr:
                ctx.info(R, n, f._qual, "self.%s" % n.attr, "unresolved attribute outside the serialisation layer")
    ctx.floor(R, 45)


def rule_arity(ctx, py):
    R = "C12.ARITY"
    n = 0
    for f in serial_funcs(py):
        probs = res.stdlib_arity_problems(py, f)
        calls = [c for c in pyfe.calls_in(f) if isinstance(c.func, ast.Attribute) and
                 isinstance(c.func.value, ast.Name) and c.func.value.id in ("json", "pathlib", "copy", "string")]
        for c in calls:
            pr = [m for (cc, m) in probs if cc is c]
            n += 1
            ctx.check(not pr, R, c, f._qual, pyfe.src(c)[:80], "binds against the standard-library signature",
                      pr[0] if pr else "", nontrivial=False)
        # json.dumps where a file is to be written: the text is discarded
        for c in calls:
            if pyfe.call_name(c) == "json.dumps" and isinstance(pyfe.parent(c), ast.Expr):
                ctx.violation(R, c, f._qual, pyfe.src(c)[:80] + " (result dropped)",
                              "json.dumps returns the text and writes nothing: the file stays empty")
    ctx.floor(R, 10)


def rule_fileref(ctx, py):
    """every branch that loads a file named inside a dictionary resolves the name against base_path"""
    R = "C12.FILEREF"
    LOADERS = ("np.load", "load_rdnetwork", "load_rdspace", "load_rdsystem", "load_1D_array_txt",
               "text_array_rw.load_1D_array_txt")
    n = 0
    for f in py.all_funcs():
        if not f.name.endswith("_from_dict"):
            continue
        for call in pyfe.calls_in(f):
            nm = pyfe.call_name(call)
            if nm not in LOADERS or not call.args:
                continue
            a0 = call.args[0]
            if not isinstance(a0, ast.Name):
                continue
            # the variable must be (re)assigned from get_path_with_base(<itself or the dict entry>, base_path)
            okk = False
            for st in ast.walk(f):
                if isinstance(st, ast.Assign) and len(st.targets) == 1 and isinstance(st.targets[0], ast.Name) and \
                        st.targets[0].id == a0.id and isinstance(st.value, ast.Call) and \
                        pyfe.call_name(st.value).endswith("get_path_with_base") and st.lineno < call.lineno:
                    b = pyfe.arg(st.value, 1, "base_path")
                    if isinstance(b, ast.Name) and b.id == "base_path" and "base_path" in pyfe.params(f):
                        okk = True
            n += 1
            ctx.check(okk, R, call, f._qual, "%s(%s)" % (nm, a0.id),
                      "path resolved with filepath.get_path_with_base(.., base_path) first",
                      "file named in the dictionary is opened relative to the current directory, not to the "
                      "directory of the file that names it")
    # load_* pass the directory of the file they read; children get base_path passed through
    for f in py.all_funcs():
        if f.name.startswith("load_") and f._mod.name != "text_array_rw":
            for call in pyfe.calls_in(f):
                nm = pyfe.call_name(call)
                if nm.endswith("_from_dict") and not nm.startswith("unitarray"):
                    b = pyfe.arg(call, None, "base_path")
                    if b is None:
                        tf = [t for t in py.resolve_call(f, call) if isinstance(t, ast.FunctionDef)]
                        if tf and "base_path" in pyfe.params(tf[0]):
                            i = pyfe.params(tf[0]).index("base_path")
                            b = call.args[i] if i < len(call.args) else None
                        elif tf:
                            continue
                    okk = b is not None and "get_base_path(path)" in pyfe.src(b)
                    n += 1
                    ctx.check(okk, R, call, f._qual, pyfe.src(call)[:80],
                              "passes the directory of the loaded file as base_path",
                              "nested file references of a loaded file are not resolved against its directory")
        if f.name.endswith("_from_dict") and "base_path" in pyfe.params(f):
            for call in pyfe.calls_in(f):
                nm = pyfe.call_name(call)
                if nm.endswith("_from_dict"):
                    tf = [t for t in py.resolve_call(f, call) if isinstance(t, ast.FunctionDef)]
                    if tf and "base_path" in pyfe.params(tf[0]):
                        i = pyfe.params(tf[0]).index("base_path")
                        b = pyfe.arg(call, i, "base_path")
                        okk = isinstance(b, ast.Name) and b.id == "base_path"
                        n += 1
                        ctx.check(okk, R, call, f._qual, pyfe.src(call)[:80], "base_path passed through",
                                  "child dictionary read without the base path: its file references resolve "
                                  "against the current directory")
    # whoever parses a JSON file and hands the dictionary to a *_from_dict reader passes the directory of THAT file as
    # base_path (not the directory of the file that referred to it, not the current one)
    for f in py.all_funcs():
        loads = [st for st in ast.walk(f) if isinstance(st, ast.Assign) and len(st.targets) == 1 and
                 isinstance(st.targets[0], ast.Name) and isinstance(st.value, ast.Call) and
                 pyfe.call_name(st.value) in ("json.load", "load")]
        for st in loads:
            dvar = st.targets[0].id
            fh = st.value.args[0] if st.value.args else None
            opened = None
            if isinstance(fh, ast.Name):
                for x in ast.walk(f):
                    if isinstance(x, ast.Assign) and pyfe.src(x.targets[0]) == fh.id and isinstance(x.value, ast.Call) and \
                            pyfe.call_name(x.value) == "open" and x.value.args:
                        opened = x.value.args[0]
                    if isinstance(x, ast.With):
                        for it in x.items:
                            if it.optional_vars is not None and pyfe.src(it.optional_vars) == fh.id and \
                                    isinstance(it.context_expr, ast.Call) and pyfe.call_name(it.context_expr) == "open" and \
                                    it.context_expr.args:
                                opened = it.context_expr.args[0]
            elif isinstance(fh, ast.Call) and pyfe.call_name(fh) == "open" and fh.args:
                opened = fh.args[0]
            if opened is None:
                continue
            want = "filepath.get_base_path(%s)" % pyfe.src(opened)
            for call in pyfe.calls_in(f):
                nm = pyfe.call_name(call)
                if not nm.endswith("_from_dict") or not call.args or pyfe.src(call.args[0]) != dvar or call.lineno < st.lineno:
                    continue
                tf = [t for t in py.resolve_call(f, call) if isinstance(t, ast.FunctionDef)]
                if not tf or "base_path" not in pyfe.params(tf[0]):
                    continue
                b = pyfe.arg(call, pyfe.params(tf[0]).index("base_path"), "base_path")
                cands = [pyfe.src(b)] if b is not None else []
                if isinstance(b, ast.Name):
                    cands += [pyfe.src(x.value) for x in ast.walk(f) if isinstance(x, ast.Assign) and
                              pyfe.src(x.targets[0]) == b.id]
                okk = any(c_.replace(" ", "") in (want.replace(" ", ""), want.replace(" ", "").replace("filepath.", ""))
                          for c_ in cands)
                n += 1
                ctx.check(okk, R, call, f._qual, pyfe.src(call)[:80], "the dictionary read from %s is interpreted relative to "
                          "that file's directory" % pyfe.src(opened)[:40], "the dictionary parsed from the file `%s` is read with "
                          "base_path `%s`, not the directory of that file: the files it names (environment maps, arrays, nested "
                          "JSON) are looked up in another directory" % (pyfe.src(opened)[:50], cands[0] if cands else "(none)"))
    # the resolution of a reference is a function of the reference and of the referring file's directory alone: the path helpers
    # never look at what exists on disk or at the working directory (a file of the same name next to the process would win)
    FS = ("exists", "is_file", "is_dir", "isfile", "isdir", "getcwd", "cwd", "resolve", "expanduser", "glob", "listdir", "stat",
          "samefile", "realpath", "lexists")
    for q in ("filepath.get_path_with_base",):
        g_ = py.fn(q)
        bad = [c for c in pyfe.calls_in(g_) if pyfe.call_name(c).split(".")[-1] in FS]
        n += 1
        ctx.check(not bad, R, bad[0] if bad else g_, q, "no look at the file system in %s" % q.split(".")[-1],
                  "relative references resolve against base_path, always", "`%s` makes the resolution depend on what exists in the "
                  "working directory: a relative reference that also exists there is read from there instead of from the referring "
                  "file's directory" % (pyfe.src(bad[0])[:40] if bad else ""))
    # the data file name written into a trajectory file is relative to that file
    f = py.fn("rdoutput.save_rdtrajectory")
    vals = []
    for n_ in ast.walk(f):
        if isinstance(n_, ast.Dict):
            for k, v in zip(n_.keys, n_.values):
                if str_const(k) == "value" and "data_path" in pyfe.src(v):
                    vals.append(v)
    for v in vals:
        ctx.check("get_last_element" in pyfe.src(v), R, v, f._qual, "data file reference " + pyfe.src(v),
                  "stored as a bare file name (relative to the JSON file)",
                  "the data file is referenced by a path that is not relative to the JSON file")
    # the data file of a trajectory is named after the trajectory file itself: <path without a trailing .json>_data.npy.
    # Cutting the name at its last dot (splitext, rsplit('.'), Path.stem / with_suffix) maps `run_kf0.5` and `run_kf0.25` to one
    # data file, so a later save overwrites the data of an earlier trajectory
    from .. import pysym
    dps = [st for st in ast.walk(f) if isinstance(st, ast.Assign) and pyfe.src(st.targets[0]) == "data_path"]
    ctx.need(len(dps) >= 1, R, "save_rdtrajectory: data_path not found")
    for st in dps:
        e = pysym.inline(st.value, f, stop={"path"})
        t = pyfe.src(e).replace(" ", "").replace('"', "'")
        lossy_cut = [c for c in ast.walk(e) if (isinstance(c, ast.Call) and pyfe.call_name(c).split(".")[-1] in (
            "splitext", "rsplit", "rpartition", "with_suffix", "split", "partition")) or (isinstance(c, ast.Attribute) and
                                                                                     c.attr in ("stem", "suffix"))]
        okk = not lossy_cut and "path" in t and (t.startswith("filepath.remove_extension_if_existing(path,'.json')+") or
                                                  t.startswith("remove_extension_if_existing(path,'.json')+") or t.startswith("path+"))
        ctx.check(okk, R, st, f._qual, "data_path = " + pyfe.src(st.value)[:70], "the trajectory path, minus a trailing .json, plus "
                  "a suffix: distinct trajectories get distinct data files", "the data file name is derived by `%s`: two trajectory "
                  "paths that differ after their last dot share one data file and overwrite each other" % (
                      pyfe.src(lossy_cut[0])[:50] if lossy_cut else t[:60]))
    # information: readers that accept a file reference without a base path
    lf = py.fn("rdoutput.load_rdtrajectory")
    for call in pyfe.calls_in(lf):
        if pyfe.call_name(call) == "unitarray_from_dict" and pyfe.arg(call, 1, "base_path") is None:
            ctx.info(R, call, lf._qual, pyfe.src(call), "a file reference here would resolve against the current "
                     "directory; save_rdtrajectory always writes this entry inline")
    ctx.floor(R, 13)


def rule_dispatch(ctx, py):
    R = "C12.DISPATCH"
    emitted = {}
    for wq in ("rdgridspace.rdgridspace_to_dict", "rdgraphspace.rdgraphspace_to_dict"):
        em, _ = writer_info(py.fn(wq))
        ctx.need("type" in em, R, "%s emits no \"type\"" % wq)
        emitted[str_const(em["type"])] = wq
    rf = py.fn("rdspace.rdspace_from_dict")
    dispatched = {}
    for n in ast.walk(rf):
        if isinstance(n, ast.If) and isinstance(n.test, ast.Compare) and len(n.test.ops) == 1 and \
                isinstance(n.test.ops[0], ast.Eq) and "['type']" in pyfe.src(n.test.left):
            v = str_const(n.test.comparators[0])
            callee = [pyfe.call_name(c) for c in pyfe.calls_in(n.body[0])]
            dispatched[v] = callee
    for t, wq in sorted(emitted.items()):
        want = wq.split(".")[1].replace("_to_dict", "_from_dict")
        ctx.check(t in dispatched and want in dispatched[t], R, rf, rf._qual, "type \"%s\"" % t,
                  "dispatched to %s" % want,
                  "\"%s\" written by %s is dispatched to %s" % (t, wq, dispatched.get(t)))
    wf = py.fn("rdspace.rdspace_to_dict")
    for n in ast.walk(wf):
        if isinstance(n, ast.If) and isinstance(n.test, ast.Compare) and "type(" in pyfe.src(n.test.left):
            k = pyfe.src(n.test.comparators[0])
            callee = [pyfe.call_name(c) for c in pyfe.calls_in(n.body[0])]
            want = {"RDGridSpace": "rdgridspace_to_dict", "RDGraphSpace": "rdgraphspace_to_dict"}.get(k)
            ctx.check(want in callee, R, n, wf._qual, "type(space) == %s" % k, "written by %s" % want,
                      "%s is written by %s" % (k, callee))
    ctx.floor(R, 4)


# dimensioned constructor parameters per class (C20.DIMS): they must be written with their units
DIMENSIONED = {"rdnetwork.Species": {"D", "density"}, "rdnetwork.Reaction": {"kf", "kr"},
               "rdgridspace.RDGridSpace": {"cell_vol"}, "rdgraphspace.RDGraphSpaceNode": {"volume"},
               "rdgraphspace.RDGraphSpaceEdge": {"surface", "distance"}, "rdsystem.RDSystem": {"state"},
               "rdscript.RDScript": {"t_sample", "time_step", "t_max", "sampling_interval"}}
WITH_UNITS = ("str", "format_unitvar_for_save", "unitarray_to_dict")


def rule_unitstr(ctx, py, R="C12.UNITSTR"):
    """every dimensioned field is written together with its units (a bare number would be re-read in whatever units
    system the reader resolves for that level)"""
    n = 0
    for rq, wq, cq in PAIRS:
        if cq not in DIMENSIONED:
            continue
        wf = py.fn(wq)
        obj = pyfe.params(wf)[0]
        emitted, attrs = writer_info(wf)
        for k, v in emitted.items():
            fields = attrs.get(k, set()) & DIMENSIONED[cq]
            if not fields:
                continue
            n += 1
            okk = isinstance(v, ast.Call) and pyfe.call_name(v).split(".")[-1] in WITH_UNITS and v.args and \
                pyfe.src(v.args[0]) in ("%s.%s" % (obj, f) for f in fields)
            ctx.check(okk, R, v, wq, "\"%s\" : %s" % (k, pyfe.src(v)[:60]), "written with explicit units",
                      "the dimensioned field %s is written as a bare number: the reader interprets it in the units system "
                      "it resolves for that level, which need not be the one the number was expressed in" % sorted(fields))
    ctx.floor(R, 12)


def rule_traj(ctx, py, R="C12.TRAJ"):
    """save_rdtrajectory / load_rdtrajectory: every constructor parameter of RDTrajectory is written from the matching
    attribute and read back from the same key"""
    sf, lf = py.fn("rdoutput.save_rdtrajectory"), py.fn("rdoutput.load_rdtrajectory")
    obj = pyfe.params(sf)[0]
    emitted, attrs = writer_info(sf)
    ctx.need(emitted, R, "save_rdtrajectory: no emitted dictionary")
    ctor = [c for c in pyfe.calls_in(lf) if pyfe.call_name(c) == "RDTrajectory"]
    ctx.need(len(ctor) == 1, R, "load_rdtrajectory: RDTrajectory(...) not found")
    kw = {k.arg: k.value for k in ctor[0].keywords}
    from .. import pysym
    attr_of = {"data": "data", "t_sample": "t", "system": "system", "script": "script",
               "engine_description": "engine_description", "engine_option": "engine_option", "cgmap": "cgmap"}
    params = ctor_params(py, "rdoutput.RDTrajectory")
    for p_ in params:
        a = attr_of.get(p_, p_)
        wkeys = [k for k, s_ in attrs.items() if a in s_]
        v = kw.get(p_)
        src_ = pysym.isrc(v, lf, stop={pyfe.params(lf)[0], "d"}) if v is not None else ""
        rkeys = [k for k in emitted if ("d['%s']" % k) in src_ or ("d.get('%s'" % k) in src_]
        ok = bool(wkeys) and bool(rkeys) and set(wkeys) & set(rkeys)
        ctx.check(ok, R, v if v is not None else lf, "rdoutput.save_rdtrajectory / load_rdtrajectory",
                  "RDTrajectory(%s=...)" % p_, "written from .%s under %s and read back from the same key" % (a, wkeys),
                  "trajectory field `%s` is written under %s but rebuilt from `%s`: a saved trajectory does not come back with "
                  "its own %s" % (p_, wkeys or "no key", src_[:60] or "nothing", a))
    # the separate data file holds the data array as it is (flat, sample-major): what np.save receives is the trajectory's own
    # `data.value`, not a reshaped / transposed / sliced view of it (the loader hands the file's content to RDTrajectory unchanged)
    saves = [c for c in pyfe.calls_in(sf) if pyfe.call_name(c) in ("np.save", "numpy.save", "np.savetxt")]
    for c in saves:
        a1 = pysym.isrc(c.args[1], sf, stop={obj}) if len(c.args) > 1 else ""
        ctx.check(a1.replace(" ", "") in ("%s.data.value" % obj, "np.array(%s.data.value)" % obj, "np.asarray(%s.data.value)" % obj), R, c,
                  sf._qual, "np.save(.., %s)" % a1[:60], "the flat data array itself", "the data file receives `%s`, not the flat "
                  "`%s.data.value`: the trajectory read back has data of another shape / order, the point accessor and flat "
                  "indexing fail or address other entries" % (a1[:70], obj))
    ctx.floor(R, 7)


def rule_cond_key(ctx, py):
    """C12.COND-KEY -- a writer emits each key on every path, except for the two idioms whose absent key reads back as the same
    value: `units` omitted when equal to the parent's (the reader inherits the parent's), and a key omitted when its value is
    None (the constructor default).  A key omitted under any other condition reads back as the reader's default, which is
    not the value that was omitted."""
    R = "C12.COND-KEY"
    writers = [w for _, w, _ in PAIRS] + ["rdoutput.save_rdtrajectory"]
    n = 0
    for wq in writers:
        f = py.fn(wq)
        stores = [x for x in ast.walk(f) if isinstance(x, ast.Assign) and len(x.targets) == 1 and
                  isinstance(x.targets[0], ast.Subscript) and isinstance(x.targets[0].slice, ast.Constant) and
                  isinstance(x.targets[0].slice.value, str)]
        for st in stores:
            key = st.targets[0].slice.value
            conds = []
            p_ = pyfe.parent(st)
            child = st
            while p_ is not None and p_ is not f:
                if isinstance(p_, ast.If):
                    conds.append((p_, child in p_.body))
                elif isinstance(p_, (ast.For, ast.While)):
                    conds.append((p_, True))
                child = p_
                p_ = pyfe.parent(p_)
            if not conds:
                continue
            n += 1
            okk, why = True, ""
            for c, in_body in conds:
                if isinstance(c, (ast.For, ast.While)):
                    okk, why = False, "inside a loop"
                    break
                other = c.orelse if in_body else c.body
                both = any(isinstance(y, ast.Assign) and isinstance(y.targets[0], ast.Subscript) and
                           isinstance(y.targets[0].slice, ast.Constant) and y.targets[0].slice.value == key and
                           pyfe.src(y.targets[0].value) == pyfe.src(st.targets[0].value)
                           for b in other for y in ast.walk(b))
                if both:
                    continue
                t = pyfe.src(c.test).replace(" ", "")
                atoms = pya.atoms(c.test, in_body)
                none_ok = len(atoms) == 1 and atoms[0][0].endswith(" is None") and atoms[0][1] is False
                inherit_ok = key == "units" and in_body and t.endswith(".units_system!=parent_units_system")
                if not (none_ok or inherit_ok):
                    okk, why = False, pyfe.src(c.test)[:60]
                    break
            ctx.check(okk, R, st, wq, "d[%r] written under `%s`" % (key, "; ".join(pyfe.src(c.test)[:40] if isinstance(
                c, ast.If) else "loop" for c, _ in conds)), "omitted only when absent reads back as the same value",
                      "the key %r is written only under `%s`: when it is omitted the reader falls back to its default, which "
                      "need not be the value that was dropped -- the object read back differs from the one written" % (key, why))
    ctx.floor(R, 3)


def rule_defaults(ctx, py, R="C12.DEFAULTS"):
    """C12.DEFAULTS -- omitted keys take the documented defaults, which are the constructor's: a reader hands the constructor
    only what it read.  (1) Every entry a reader puts into the constructor's argument table is computed from the dictionary it
    reads (its own units system, resolved from the parent's, and empty containers aside): an entry made up for an absent key
    replaces the constructor's default by the reader's.  (2) The writer of a per-environment table returns the table: one entry per
    key it was given, never a single value standing for all of them (a key that is absent means 'default', not 'the same')."""
    from .. import pysym
    n = 0
    for rq, wq, cq in PAIRS:
        f = py.fn(rq)
        dname = pyfe.params(f)[0]
        # names that (may) carry data of the dictionary: assigned, somewhere, from it or from another such name
        from_d = {dname}
        for _ in range(6):
            for a_ in ast.walk(f):
                tg = a_.targets if isinstance(a_, ast.Assign) else [a_.target] if isinstance(a_, (ast.For, ast.AugAssign)) else []
                src_ = a_.value if isinstance(a_, (ast.Assign, ast.AugAssign)) else a_.iter if isinstance(a_, ast.For) else None
                if src_ is None or not ({x.id for x in ast.walk(src_) if isinstance(x, ast.Name)} & from_d):
                    continue
                for t_ in tg:
                    for x in ast.walk(t_):
                        if isinstance(x, ast.Name) and isinstance(x.ctx, ast.Store) and x.id != "da":
                            from_d.add(x.id)
        for st in ast.walk(f):
            if not (isinstance(st, ast.Assign) and isinstance(st.targets[0], ast.Subscript) and
                    pyfe.src(st.targets[0].value) == "da" and isinstance(st.targets[0].slice, ast.Constant)):
                continue
            k = st.targets[0].slice.value
            if k == "units_system":
                continue
            v = pysym.reach(st.value, st, f, stop={dname, "da"})
            names = {x.id for x in ast.walk(v) if isinstance(x, ast.Name)}
            empty = isinstance(v, (ast.List, ast.Dict, ast.Tuple)) and not (getattr(v, "elts", None) or getattr(v, "keys", None)) or \
                (isinstance(v, ast.Constant) and v.value is None)
            n += 1
            ctx.check(bool(names & from_d) or empty, R, st, rq, "da[%r] <- %s" % (k, pyfe.src(v)[:60]), "read from the dictionary",
                      "the reader sets `%s` to `%s`, which does not come from the dictionary: when the key is omitted the object is "
                      "built with the reader's value instead of the constructor's documented default" % (k, pyfe.src(v)[:60]))
    g = py.fn("value_processing.format_unitvar_for_save")
    rets = [r for r in ast.walk(g) if isinstance(r, ast.Return) and r.value is not None]
    tables = {st.targets[0].id for st in ast.walk(g) if isinstance(st, ast.Assign) and isinstance(st.targets[0], ast.Name) and
              isinstance(st.value, ast.Dict)}
    filled = {pyfe.src(st.targets[0].value) for st in ast.walk(g) if isinstance(st, ast.Assign) and
              isinstance(st.targets[0], ast.Subscript)}
    for r in rets:
        # returns that stand inside the branch that builds a table must return that table
        p_ = pyfe.parent(r)
        inside = False
        while p_ is not None and p_ is not g:
            if isinstance(p_, ast.If) and any(isinstance(x, ast.Assign) and isinstance(x.targets[0], ast.Name) and
                                              x.targets[0].id in tables for b_ in (p_.body, p_.orelse) for x in b_
                                              if any(r is y for z in b_ for y in ast.walk(z))):
                inside = True
            p_ = pyfe.parent(p_)
        if not inside:
            continue
        n += 1
        ctx.check(isinstance(r.value, ast.Name) and r.value.id in tables & filled, R, r, g._qual, "return %s" % pyfe.src(r.value)[:40],
                  "a per-environment table is written as a table", "a per-environment table is written as `%s`, one value for all "
                  "keys: read back, the environments the table did not name get that value instead of the default" %
                  pyfe.src(r.value)[:40])
    ctx.floor(R, 20)


def run(ctx):
    py = ctx.py
    rule_unitstr(ctx, py)
    rule_defaults(ctx, py)
    from . import c18
    c18.rule_value_str(ctx, py, "C12.UNITSTR")
    c18.rule_value_float(ctx, py, "C12.UNITSTR")
    rule_traj(ctx, py)
    rule_names(ctx, py, ctx.tier == "thorough")
    rule_arity(ctx, py)
    rule_schema(ctx, py)
    rule_cond_key(ctx, py)
    rule_fileref(ctx, py)
    from . import c04
    c04.rule_inherit(ctx, py, "C12.INHERIT")    # a referenced file inherits the units system of the level that names it
    rule_dispatch(ctx, py)
    # shared clause: a reaction is serialised as its equation text; reading that text back is C19's parser (tokenisation, whole
    # tokens as labels, repeats summed) and printer
    from ..core import borrow
    from . import c19
    from . import c18 as _c18
    borrow(ctx, "C12", _c18.rule_value_read, py)      # a stored quantity is its printed text: it must read back
    borrow(ctx, "C12", c19.rule_accum, py)
    borrow(ctx, "C12", c19.rule_print, py)
    ctx.analysed["package"] = {"modules": len(py.mods), "functions": py.nfuncs}
    from .. import lints
    # shared clause: the default state an omitted "state" key stands for is density x volume of each cell (C13.CONCAT)
    from . import c13 as _c13b
    borrow(ctx, "C12", _c13b.rule_concat, py)
    lints.run(ctx, "C12", ctx.py, ["filepath", "rdoutput", "text_array_rw", "rdscript", "rdsystem", "rdnetwork", "rdspace", "rdgridspace", "rdgraphspace", "value_processing"], truth_floor=12)
    ctx.assume("equality of content after a round trip (values, unit conversion of printed quantities) is not decided")
