"""C06 -- unit conversion: the SI table folded from the source agrees with an independent oracle, the litre and
molar decompositions are dimensionally exact, compute_conversion_factor uses one key for source, destination,
table and exponent, the label lists are the table's keys, conversions to a target that carries a dimension are
guarded and re-wrap (destination system, source dimension).  Does not measure the 1e-12 composition bound (it
follows from the product-of-ratios structure established by C06.KEYS)."""
import ast
from fractions import Fraction

from .. import pyfe, pya, ir
from ..core import AnalysisError

AVOGADRO = Fraction("6.02214076e23")
PREFIX = {"k": 3, "": 0, "d": -1, "c": -2, "m": -3, "dm": -4, "cm": -5, "µ": -6, "n": -9, "p": -12, "f": -15}


def si_oracle():
    t = {"space": {}, "time": {}, "quantity": {}}
    for p in ("k", "", "d", "c", "m", "dm", "cm", "µ", "n", "p", "f"):
        t["space"][p + "m"] = Fraction(10) ** PREFIX[p]
    t["time"] = {"h": Fraction(3600), "min": Fraction(60), "s": Fraction(1)}
    for p in ("d", "c", "m", "µ", "n", "p", "f"):
        t["time"][p + "s"] = Fraction(10) ** PREFIX[p]
    for p in ("k", "", "d", "c", "m", "µ", "n", "p", "f"):
        t["quantity"][p + "mol"] = Fraction(10) ** PREFIX[p] * AVOGADRO
    t["quantity"]["molecule"] = Fraction(1)
    return t


def fold(e, py):
    """exact value of a constant expression built from literals and constants.avogadro_number()"""
    if isinstance(e, ast.Constant) and isinstance(e.value, (int, float)):
        return Fraction(repr(e.value)) if isinstance(e.value, float) else Fraction(e.value)
    if isinstance(e, ast.BinOp) and isinstance(e.op, (ast.Mult, ast.Div)):
        a, b = fold(e.left, py), fold(e.right, py)
        return a * b if isinstance(e.op, ast.Mult) else a / b
    if isinstance(e, ast.UnaryOp) and isinstance(e.op, ast.USub):
        return -fold(e.operand, py)
    if isinstance(e, ast.Call) and pyfe.call_name(e) == "constants.avogadro_number":
        f = py.fn("constants.avogadro_number")
        rets = [r for r in ast.walk(f) if isinstance(r, ast.Return)]
        if len(rets) == 1:
            return fold(rets[0].value, py)
    raise AnalysisError("constant expression not foldable: " + pyfe.src(e))


def module_dict(py, name):
    m = py.mods["units"]
    for n in m.tree.body:
        if isinstance(n, ast.Assign) and pyfe.src(n.targets[0]) == name and isinstance(n.value, ast.Dict):
            return n.value
    raise AnalysisError("units.%s not found" % name)


def rule_si(ctx, py):
    R = "C06.SI-TABLE"
    d = module_dict(py, "_units_conversion_dict")
    oracle = si_oracle()
    got = {}
    for k, v in zip(d.keys, d.values):
        kind = ast.literal_eval(k)
        got[kind] = {}
        for kk, vv in zip(v.keys, v.values):
            got[kind][ast.literal_eval(kk)] = (fold(vv, py), vv)
    for kind in oracle:
        ctx.check(set(got.get(kind, {})) == set(oracle[kind]), R, d, "units._units_conversion_dict",
                  "symbols of kind %s" % kind, "%d symbols" % len(oracle[kind]),
                  "symbol set differs: %s" % sorted(set(got.get(kind, {})) ^ set(oracle[kind])))
        for sym, want in sorted(oracle[kind].items()):
            if sym not in got.get(kind, {}):
                continue
            val, node = got[kind][sym]
            rel = abs(val - want) / want
            ctx.check(rel < Fraction(1, 10 ** 14), R, node, "units._units_conversion_dict", "%s : %s = %s" %
                      (kind, sym, pyfe.src(node)), "SI value %s" % float(want),
                      "the table gives %s, the SI meaning of %s is %s" % (float(val), sym, float(want)))
    ctx.floor(R, 31 + 3)


def rule_derived(ctx, py):
    R = "C06.DERIVED"
    f = py.fn("units.parse_units")
    inner = {n.name: n for n in ast.walk(f) if isinstance(n, ast.FunctionDef) and n is not f}
    oracle = si_oracle()

    def chain(fn):
        out = {}
        for n in ast.walk(fn):
            if isinstance(n, ast.If) and isinstance(n.test, ast.Compare) and isinstance(n.test.ops[0], ast.Eq) and \
                    isinstance(n.body[0], ast.Return):
                out[ast.literal_eval(n.test.comparators[0])] = ast.literal_eval(n.body[0].value)
        return out
    vol = chain(inner["get_volume_fundamental_unit"])
    con = chain(inner["get_concentration_fundamental_units"])
    ctx.need(len(vol) >= 7 and len(con) >= 9, R, "decomposition chains not recognised")
    for sym, base in sorted(vol.items()):
        pre = sym[:-1]
        want = Fraction(10) ** PREFIX[pre] * Fraction(1, 1000)            # x litres in m3
        ok = base in oracle["space"] and oracle["space"][base] ** 3 == want
        ctx.check(ok, R, inner["get_volume_fundamental_unit"], f._qual, "%s = %s^3" % (sym, base),
                  "%s m3" % float(want), "%s is read as a cubic %s = %s m3, but it is %s m3" %
                  (sym, base, float(oracle["space"].get(base, 0) ** 3), float(want)))
    for sym, (q, sp) in sorted(con.items()):
        pre = sym[:-1]
        ok = q == pre + "mol" and sp == "dm"
        ctx.check(ok, R, inner["get_concentration_fundamental_units"], f._qual, "%s = %s per %s^3" % (sym, q, sp),
                  "%smol per litre" % pre, "%s is read as %s per cubic %s" % (sym, q, sp))
    # exponents applied to the decomposition: volume -> space^(3e), density -> space^(-3e), quantity^(e)
    src = pyfe.src(f).replace(" ", "")
    ctx.check("addunit('space',get_volume_fundamental_unit(b[1]),b[2]*3)" in src, R, f, f._qual,
              "volume symbol: length exponent 3*e", "", "litre family exponent wrong")
    ctx.check("addunit('space',get_concentration_fundamental_units(b[1])[1],b[2]*-3)" in src and
              "addunit('quantity',get_concentration_fundamental_units(b[1])[0],b[2])" in src, R, f, f._qual,
              "molar symbol: length exponent -3*e, amount exponent e", "", "molar family exponents wrong")
    ctx.floor(R, 18)
    return vol, con


def rule_keys(ctx, py):
    R = "C06.KEYS"
    f = py.fn("units.compute_conversion_factor")
    loops = [n for n in ast.walk(f) if isinstance(n, ast.For)]
    ctx.need(len(loops) == 1 and isinstance(loops[0].target, ast.Name), R, "component loop not found")
    k = loops[0].target.id
    src_, dst_, dim_ = pyfe.params(f)
    ctx.check(pyfe.src(loops[0].iter) in ("%s.keys()" % src_, "%s.keys()" % dim_, "['space', 'time', 'quantity']"), R,
              loops[0], f._qual, "for %s in %s" % (k, pyfe.src(loops[0].iter)), "space, time and quantity", "")
    st = loops[0].body
    ok = len(st) == 1 and isinstance(st[0], ast.AugAssign) and isinstance(st[0].op, ast.Mult)
    ctx.need(ok, R, "factor accumulation `f *= ...` not found")
    v = st[0].value
    want = "(_units_conversion_dict[{k}][{s}[{k}]] / _units_conversion_dict[{k}][{d}[{k}]]) ** {e}[{k}]".format(
        k=k, s=src_, d=dst_, e=dim_)
    ctx.check(pyfe.src(v) == want, R, st[0], f._qual, pyfe.src(st[0]), "(source / destination) ** exponent, all of "
              "component %s" % k, "the factor is not (scale of source / scale of destination) ** exponent of one and "
              "the same component")
    subs = [x for x in ast.walk(v) if isinstance(x, ast.Subscript) and isinstance(x.slice, ast.Name)]
    ctx.check(all(x.slice.id == k for x in subs) and len(subs) == 5, R, st[0], f._qual, "all 5 lookups use key %s" % k, "", "a lookup uses another key")
    init = [n for n in f.body if isinstance(n, ast.Assign) and pyfe.src(n) == "f = 1"]
    rets = [r for r in ast.walk(f) if isinstance(r, ast.Return)]
    ctx.check(len(init) == 1 and len(rets) == 1 and pyfe.src(rets[0].value) == "f", R, f, f._qual, "product starts at 1 and is returned", "", "")
    g = py.fn("units.convert_value")
    rets = [r for r in ast.walk(g) if isinstance(r, ast.Return)]
    ps = pyfe.params(g)
    ctx.check(len(rets) == 1 and pyfe.src(rets[0].value) == "%s * compute_conversion_factor(%s, %s, %s)" % tuple(ps), R,
              g, g._qual, pyfe.src(rets[0]), "value x factor(source, destination, dimension)", "arguments permuted")
    ctx.floor(R, 5)


def rule_labels(ctx, py, vol, con):
    R = "C06.LABELS"
    lab = module_dict(py, "_units_labels_dict")
    labels = {ast.literal_eval(k): ast.literal_eval(v) for k, v in zip(lab.keys, lab.values)}
    conv = module_dict(py, "_units_conversion_dict")
    table = {ast.literal_eval(k): [ast.literal_eval(x) for x in v.keys] for k, v in zip(conv.keys, conv.values)}
    for kind in ("space", "time", "quantity"):
        ctx.check(set(labels.get(kind, [])) == set(table[kind]), R, lab, "units._units_labels_dict", "labels of %s" % kind,
                  "= keys of the conversion table", "accepted labels and convertible symbols differ: %s" %
                  sorted(set(labels.get(kind, [])) ^ set(table[kind])))
    ctx.check(set(labels.get("volume", [])) == set(vol), R, lab, "units._units_labels_dict", "labels of volume",
              "= branches of the litre decomposition", "differ: %s" % sorted(set(labels.get("volume", [])) ^ set(vol)))
    ctx.check(set(labels.get("density", [])) == set(con), R, lab, "units._units_labels_dict", "labels of density",
              "= branches of the molar decomposition", "differ: %s" % sorted(set(labels.get("density", [])) ^ set(con)))
    allk = [x for v in labels.values() for x in set(v)]
    ctx.check(len(allk) == len(set(allk)), R, lab, "units._units_labels_dict", "no symbol belongs to two kinds", "", "ambiguous symbol")
    ctx.floor(R, 6)


def rule_dimguard(ctx, py):
    R = "C06.DIMGUARD"
    for q, v, selfdim in (("units.convert_unitvalue", "v", "v.units.dim"), ("units.UnitArray.convert", "self", "self.units.dim")):
        f = py.fn(q)
        recs = []

        def on(node, facts):
            if isinstance(node, ast.Assign) and pyfe.src(node.targets[0]) == "su_dst" and pyfe.src(node.value) != "0":
                recs.append((node, facts))
        pya.must_facts(f, on_stmt=on)
        ctx.need(len(recs) >= 4, R, "%s: destination assignments not found" % q)
        for node, facts in recs:
            val = pyfe.src(node.value)
            if val.endswith(".sys") and not val.startswith("su_dst"):
                owner = val[:-4]
                dimexpr = owner + ".dim"
                ok = ("%s == %s" % (dimexpr, selfdim), True) in facts
            elif val == "su_dst.sys":
                ok = ("su_dst.dim == %s" % selfdim, True) in facts
            else:
                continue
            ctx.check(ok, R, node, q, "su_dst = " + val, "only where the target's dimension equals the source's "
                      "(else raise)", "a target of a different dimension is accepted: the value is converted with the "
                      "wrong exponents")
        rets = [r for r in ast.walk(f) if isinstance(r, ast.Return)]
        src = pyfe.src(rets[-1].value).replace(" ", "")
        okk = ("convert_value(%s.value,%s.units.sys,su_dst,%s)" % (v, v, selfdim) in src and
               "Units(su_dst,%s)" % selfdim in src)
        ctx.check(okk, R, rets[-1], q, pyfe.src(rets[-1])[:100], "number converted source -> destination with the source "
                  "dimension, re-wrapped (destination system, source dimension)", "conversion arguments or re-wrap wrong")
    ctx.floor(R, 7)


def run(ctx):
    py = ctx.py
    rule_si(ctx, py)
    vol, con = rule_derived(ctx, py)
    rule_keys(ctx, py)
    rule_labels(ctx, py, vol, con)
    rule_dimguard(ctx, py)
    ctx.assume("the 1e-12 composition bound is not measured; it follows from the product-of-ratios form (C06.KEYS)")
