"""C06 -- unit conversion: the SI table folded from the source agrees with an independent oracle, the litre and
molar decompositions are dimensionally exact, compute_conversion_factor uses one key for source, destination,
table and exponent, the label lists are the table's keys, conversions to a target that carries a dimension are
guarded and re-wrap (destination system, source dimension).  Does not measure the 1e-12 composition bound (it
follows from the product-of-ratios structure established by C06.KEYS)."""
import ast
from fractions import Fraction

from .. import pyfe, pya, ir
from .. import pysym as _ps
from ..core import AnalysisError

AVOGADRO = Fraction("6.02214076e23")
PREFIX = {"k": 3, "": 0, "d": -1, "c": -2, "m": -3, "dm": -4, "cm": -5, "µ": -6, "n": -9, "p": -12, "f": -15}


def si_oracle():
    t = {"space": {}, "time": {}, "quantity": {}}
    for p in ("k", "", "d", "c", "m", "dm", "cm", "µ", "n", "p", "f"):
        t["space"][p + "m"] = Fraction(10) ** PREFIX[p]
    t["time"] = {"h": Fraction(3600), "min": Fraction(60), "s": Fraction(1)}
    for p in ("d", "c", "m", "µ", "n", "p", "f"):
        t["time"][p + "s"] = Fraction(10) ** PREFIX[p]
    for p in ("k", "", "d", "c", "m", "µ", "n", "p", "f"):
        t["quantity"][p + "mol"] = Fraction(10) ** PREFIX[p] * AVOGADRO
    t["quantity"]["molecule"] = Fraction(1)
    return t


def fold(e, py, mod="units"):
    """exact value of a constant expression built from literals and constants.avogadro_number()"""
    if isinstance(e, ast.Constant) and isinstance(e.value, (int, float)):
        return Fraction(repr(e.value)) if isinstance(e.value, float) else Fraction(e.value)
    if isinstance(e, ast.BinOp) and isinstance(e.op, (ast.Mult, ast.Div)):
        a, b = fold(e.left, py, mod), fold(e.right, py, mod)
        return a * b if isinstance(e.op, ast.Mult) else a / b
    if isinstance(e, ast.UnaryOp) and isinstance(e.op, ast.USub):
        return -fold(e.operand, py, mod)
    if isinstance(e, ast.Call) and pyfe.call_name(e) == "constants.avogadro_number":
        f = py.fn("constants.avogadro_number")
        rets = [r for r in ast.walk(f) if isinstance(r, ast.Return)]
        if len(rets) == 1:
            return fold(rets[0].value, py, "constants")
    if isinstance(e, ast.Name) and mod is not None:
        # a module-level constant assigned once
        m = py.mods.get(mod)
        defs = [st.value for st in (m.tree.body if m else []) if isinstance(st, ast.Assign) and len(st.targets) == 1 and
                isinstance(st.targets[0], ast.Name) and st.targets[0].id == e.id]
        if len(defs) == 1:
            return fold(defs[0], py, mod)
    raise AnalysisError("constant expression not foldable: " + pyfe.src(e))


def module_dict(py, name):
    m = py.mods["units"]
    for n in m.tree.body:
        if isinstance(n, ast.Assign) and pyfe.src(n.targets[0]) == name and isinstance(n.value, ast.Dict):
            return n.value
    raise AnalysisError("units.%s not found" % name)


def rule_si(ctx, py):
    R = "C06.SI-TABLE"
    d = module_dict(py, "_units_conversion_dict")
    oracle = si_oracle()
    got = {}
    for k, v in zip(d.keys, d.values):
        kind = ast.literal_eval(k)
        got[kind] = {}
        for kk, vv in zip(v.keys, v.values):
            got[kind][ast.literal_eval(kk)] = (fold(vv, py), vv)
    for kind in oracle:
        ctx.check(set(got.get(kind, {})) == set(oracle[kind]), R, d, "units._units_conversion_dict",
                  "symbols of kind %s" % kind, "%d symbols" % len(oracle[kind]),
                  "symbol set differs: %s" % sorted(set(got.get(kind, {})) ^ set(oracle[kind])))
        for sym, want in sorted(oracle[kind].items()):
            if sym not in got.get(kind, {}):
                continue
            val, node = got[kind][sym]
            rel = abs(val - want) / want
            ctx.check(rel < Fraction(1, 10 ** 14), R, node, "units._units_conversion_dict", "%s : %s = %s" %
                      (kind, sym, pyfe.src(node)), "SI value %s" % float(want),
                      "the table gives %s, the SI meaning of %s is %s" % (float(val), sym, float(want)))
    ctx.floor(R, 31 + 3)


def rule_derived(ctx, py):
    R = "C06.DERIVED"
    f = py.fn("units.parse_units")
    inner = {n.name: n for n in ast.walk(f) if isinstance(n, ast.FunctionDef) and n is not f}
    oracle = si_oracle()

    def chain(fn):
        """symbol -> decomposition, from an if / elif chain of returns or from a literal dict that is subscripted"""
        out = {}
        for n in ast.walk(fn):
            if isinstance(n, ast.If) and isinstance(n.test, ast.Compare) and isinstance(n.test.ops[0], ast.Eq) and \
                    isinstance(n.body[0], ast.Return):
                out[ast.literal_eval(n.test.comparators[0])] = ast.literal_eval(n.body[0].value)
        if out:
            return out
        for n in list(ast.walk(fn)) + list(ast.walk(f)):
            if isinstance(n, ast.Dict) and n.keys and all(isinstance(k, ast.Constant) for k in n.keys):
                try:
                    d = ast.literal_eval(n)
                except Exception:
                    continue
                par = pyfe.parent(n)
                name = pyfe.src(par.targets[0]) if isinstance(par, ast.Assign) else None
                used = any(isinstance(r, ast.Return) and isinstance(r.value, ast.Subscript) and
                           (pyfe.src(r.value.value) == name or r.value.value is n) for r in ast.walk(fn))
                if used:
                    return d
        return out
    def labels_of(kind):
        """literal list of symbols of one kind in the module-level label table"""
        for st in f._mod.tree.body:
            if isinstance(st, ast.Assign) and isinstance(st.value, ast.Dict) and pyfe.src(st.targets[0]) == "_units_labels_dict":
                for k_, v_ in zip(st.value.keys, st.value.values):
                    if isinstance(k_, ast.Constant) and k_.value == kind:
                        try:
                            return list(ast.literal_eval(v_))
                        except Exception:
                            return []
        return []

    def fold(e, env):
        """value of a string-building expression over constants and the symbol parameter (slices, +, tuples); None otherwise"""
        if isinstance(e, ast.Constant):
            return e.value
        if isinstance(e, ast.Name):
            return env.get(e.id)
        if isinstance(e, ast.Tuple):
            vs = [fold(x, env) for x in e.elts]
            return None if any(v is None for v in vs) else tuple(vs)
        if isinstance(e, ast.BinOp) and isinstance(e.op, ast.Add):
            a, b = fold(e.left, env), fold(e.right, env)
            return a + b if isinstance(a, str) and isinstance(b, str) else None
        if isinstance(e, ast.Subscript) and isinstance(e.slice, ast.Slice) and e.slice.step is None:
            v = fold(e.value, env)
            lo = fold(e.slice.lower, env) if e.slice.lower is not None else None
            hi = e.slice.upper
            hi = (-fold(hi.operand, env) if isinstance(hi, ast.UnaryOp) and isinstance(hi.op, ast.USub) else fold(hi, env)) \
                if hi is not None else None
            return v[lo:hi] if isinstance(v, str) else None
        return None

    def computed(fn, kind):
        """symbol -> decomposition when the helper computes it from the symbol's text (`constr[:-1] + "mol", "dm"`)"""
        p_ = pyfe.params(fn)[0]
        out = {}
        for r_ in [x for x in ast.walk(fn) if isinstance(x, ast.Return) and x.value is not None]:
            for sym in labels_of(kind):
                v = fold(r_.value, {p_: sym})
                if v is not None:
                    out[sym] = v
        return out
    vol = chain(inner["get_volume_fundamental_unit"]) or computed(inner["get_volume_fundamental_unit"], "volume")
    con = chain(inner["get_concentration_fundamental_units"]) or computed(inner["get_concentration_fundamental_units"], "density")
    ctx.need(len(vol) >= 7 and len(con) >= 9, R, "decomposition chains not recognised")
    for sym, base in sorted(vol.items()):
        pre = sym[:-1]
        want = Fraction(10) ** PREFIX[pre] * Fraction(1, 1000)            # x litres in m3
        ok = base in oracle["space"] and oracle["space"][base] ** 3 == want
        ctx.check(ok, R, inner["get_volume_fundamental_unit"], f._qual, "%s = %s^3" % (sym, base),
                  "%s m3" % float(want), "%s is read as a cubic %s = %s m3, but it is %s m3" %
                  (sym, base, float(oracle["space"].get(base, 0) ** 3), float(want)))
    for sym, (q, sp) in sorted(con.items()):
        pre = sym[:-1]
        ok = q == pre + "mol" and sp == "dm"
        ctx.check(ok, R, inner["get_concentration_fundamental_units"], f._qual, "%s = %s per %s^3" % (sym, q, sp),
                  "%smol per litre" % pre, "%s is read as %s per cubic %s" % (sym, q, sp))
    # exponents applied to the decomposition: volume -> space^(3e), density -> space^(-3e), quantity^(e)
    from .. import pysym
    calls = set()
    for c in pyfe.calls_in(f):
        if pyfe.call_name(c) == "addunit" and len(c.args) == 3:
            calls.add(tuple(pysym.isrc(a_, f).replace(" ", "").replace('"', "'") for a_ in c.args))
    # the label / exponent expressions are whatever the plain base-unit call uses: addunit(<kind>, L, E)
    base = [c_ for c_ in calls if "get_volume_fundamental_unit" not in c_[1] and "get_concentration_fundamental_units" not in c_[1]]
    ctx.need(base, R, "parse_units: the base-unit addunit(kind, label, exponent) call is not found")
    L_, E_ = base[0][1], base[0][2]
    volc = [c_ for c_ in calls if "get_volume_fundamental_unit" in c_[1]]
    denc = [c_ for c_ in calls if "get_concentration_fundamental_units" in c_[1]]
    ctx.need(volc and denc, R, "parse_units: the litre / molar addunit calls are not found")

    def mul(e, k):
        return {e + "*" + k, k + "*" + e, "(" + e + ")*" + k}
    ctx.check(any(c_[0] == "'space'" and c_[1] == "get_volume_fundamental_unit(%s)" % L_ and c_[2] in mul(E_, "3") for c_ in volc),
              R, f, f._qual, "volume symbol: length exponent 3*e", "", "litre family exponent wrong")
    ctx.check(any(c_[0] == "'space'" and c_[1] == "get_concentration_fundamental_units(%s)[1]" % L_ and c_[2] in mul(E_, "-3")
                  for c_ in denc) and
              any(c_[0] == "'quantity'" and c_[1] == "get_concentration_fundamental_units(%s)[0]" % L_ and c_[2] == E_ for c_ in denc),
              R, f, f._qual, "molar symbol: length exponent -3*e, amount exponent e", "", "molar family exponents wrong")
    ctx.floor(R, 18)
    return vol, con


def py_rat(e, env, leaves):
    """rational normal form of a Python arithmetic expression; x ** y is an opaque atom pow(<base>, <exponent>) over
    the normal forms of its operands; names are inlined from env; everything else is a leaf keyed by its source"""
    from ..poly import Rat
    if isinstance(e, ast.Constant) and isinstance(e.value, (int, float)) and not isinstance(e.value, bool):
        return Rat.const(Fraction(repr(e.value)) if isinstance(e.value, float) else e.value)
    if isinstance(e, ast.Name) and e.id in env:
        return env[e.id]
    if isinstance(e, ast.BinOp):
        if isinstance(e.op, ast.Pow):
            b, x = py_rat(e.left, env, leaves), py_rat(e.right, env, leaves)
            return Rat.sym("pow(%r,%r)" % (b, x))
        l, r = py_rat(e.left, env, leaves), py_rat(e.right, env, leaves)
        if isinstance(e.op, ast.Add):
            return l + r
        if isinstance(e.op, ast.Sub):
            return l - r
        if isinstance(e.op, ast.Mult):
            return l * r
        if isinstance(e.op, ast.Div):
            return l / r
    if isinstance(e, ast.UnaryOp) and isinstance(e.op, ast.USub):
        return -py_rat(e.operand, env, leaves)
    # a non-arithmetic leaf (subscript, call, attribute): keyed by its source with the known locals written out, so that
    # `scales = T[k]; scales[u]` and `T[k][u]` are one leaf
    class _S(ast.NodeTransformer):
        def visit_Name(self, n):
            if isinstance(n.ctx, ast.Load) and n.id in env:
                try:
                    return ast.parse(repr(env[n.id]), mode="eval").body
                except SyntaxError:
                    return n
            return n
    e2 = _S().visit(ast.parse(pyfe.src(e), mode="eval").body) if any(
        isinstance(x, ast.Name) and x.id in env for x in ast.walk(e)) else e
    t = pyfe.src(e2)
    leaves[t] = e
    return Rat.sym(t)


def rule_keys(ctx, py):
    R = "C06.KEYS"
    from ..poly import Rat
    f = py.fn("units.compute_conversion_factor")
    loops = [n for n in ast.walk(f) if isinstance(n, ast.For)]
    ctx.need(len(loops) == 1 and isinstance(loops[0].target, ast.Name), R, "component loop not found")
    k = loops[0].target.id
    src_, dst_, dim_ = pyfe.params(f)
    ctx.check(pyfe.src(loops[0].iter) in ("%s.keys()" % src_, "%s.keys()" % dim_, "%s.keys()" % dst_,
                                         "['space', 'time', 'quantity']"), R,
              loops[0], f._qual, "for %s in %s" % (k, pyfe.src(loops[0].iter)), "space, time and quantity", "the loop does "
              "not range over the three components")
    # symbolic execution of one iteration: the running product after the iteration as a function of the one before
    acc = None
    for st in f.body:
        if isinstance(st, ast.Assign) and isinstance(st.targets[0], ast.Name) and isinstance(st.value, ast.Constant) and \
                st.value.value == 1:
            acc = st.targets[0].id
    ctx.need(acc is not None, R, "running product initialised to 1 not found")
    F0 = Rat.sym("F")
    env = {acc: F0}
    leaves = {}
    skipped = []
    for st in loops[0].body:
        if isinstance(st, ast.If) and len(st.body) == 1 and isinstance(st.body[0], ast.Continue) and not st.orelse:
            skipped.append(st)
            continue
        if isinstance(st, ast.Assign) and len(st.targets) == 1 and isinstance(st.targets[0], ast.Name):
            env[st.targets[0].id] = py_rat(st.value, env, leaves)
        elif isinstance(st, ast.AugAssign) and isinstance(st.target, ast.Name) and isinstance(st.op, (ast.Mult, ast.Div)):
            v = py_rat(st.value, env, leaves)
            env[st.target.id] = env.get(st.target.id, Rat.sym(st.target.id)) * v if isinstance(st.op, ast.Mult) else \
                env.get(st.target.id, Rat.sym(st.target.id)) / v
        elif isinstance(st, ast.Expr) and isinstance(st.value, ast.Constant):
            continue
        else:
            ctx.error(R, "compute_conversion_factor: loop statement `%s` not modelled" % pyfe.src(st)[:60])
    T = "_units_conversion_dict"
    ratio = Rat.sym("%s[%s][%s[%s]]" % (T, k, src_, k)) / Rat.sym("%s[%s][%s[%s]]" % (T, k, dst_, k))
    want = F0 * Rat.sym("pow(%r,%r)" % (ratio, Rat.sym("%s[%s]" % (dim_, k))))
    got = env[acc]
    ctx.check(got.equals(want), R, loops[0], f._qual, "one iteration: %s <- %r" % (acc, got),
              "product of (scale of source / scale of destination) ** exponent, all of component %s" % k,
              "after one iteration the running product is %r, expected F * (source/destination)**exponent of the same "
              "component: the factor is not the product over the three base kinds" % (got,))
    for st in skipped:
        # skipping a component is sound only when its ratio is 1, i.e. same unit on both sides
        t = pyfe.src(st.test).replace(" ", "")
        ok = t in ("%s[%s]==%s[%s]" % (src_, k, dst_, k), "%s[%s]==%s[%s]" % (dst_, k, src_, k), "%s[%s]==0" % (dim_, k))
        ctx.check(ok, R, st, f._qual, "skip when " + pyfe.src(st.test), "the skipped factor is 1", "a component is skipped "
                  "although its factor need not be 1")
    rets = [r for r in ast.walk(f) if isinstance(r, ast.Return)]
    ctx.check(len(rets) == 1 and pyfe.src(rets[0].value) == acc and pyfe.parent(rets[0]) is f, R, f, f._qual,
              "the product is returned after the loop", "", "")
    g = py.fn("units.convert_value")
    rets = [r for r in ast.walk(g) if isinstance(r, ast.Return)]
    ps = pyfe.params(g)
    lv = {}
    gr = py_rat(rets[0].value, {}, lv) if len(rets) == 1 else None
    wantg = Rat.sym(ps[0]) * Rat.sym("compute_conversion_factor(%s, %s, %s)" % tuple(ps[1:]))
    ctx.check(gr is not None and gr.equals(wantg), R, g, g._qual, pyfe.src(rets[0]) if rets else "?", "value x factor(source, "
              "destination, dimension)", "arguments permuted or the value not multiplied by the factor")
    ctx.floor(R, 4)


def rule_labels(ctx, py, vol, con):
    R = "C06.LABELS"
    lab = module_dict(py, "_units_labels_dict")
    labels = {ast.literal_eval(k): ast.literal_eval(v) for k, v in zip(lab.keys, lab.values)}
    conv = module_dict(py, "_units_conversion_dict")
    table = {ast.literal_eval(k): [ast.literal_eval(x) for x in v.keys] for k, v in zip(conv.keys, conv.values)}
    for kind in ("space", "time", "quantity"):
        ctx.check(set(labels.get(kind, [])) == set(table[kind]), R, lab, "units._units_labels_dict", "labels of %s" % kind,
                  "= keys of the conversion table", "accepted labels and convertible symbols differ: %s" %
                  sorted(set(labels.get(kind, [])) ^ set(table[kind])))
    ctx.check(set(labels.get("volume", [])) == set(vol), R, lab, "units._units_labels_dict", "labels of volume",
              "= branches of the litre decomposition", "differ: %s" % sorted(set(labels.get("volume", [])) ^ set(vol)))
    ctx.check(set(labels.get("density", [])) == set(con), R, lab, "units._units_labels_dict", "labels of density",
              "= branches of the molar decomposition", "differ: %s" % sorted(set(labels.get("density", [])) ^ set(con)))
    allk = [x for v in labels.values() for x in set(v)]
    ctx.check(len(allk) == len(set(allk)), R, lab, "units._units_labels_dict", "no symbol belongs to two kinds", "", "ambiguous symbol")
    ctx.floor(R, 6)


def rule_dimguard(ctx, py):
    R = "C06.DIMGUARD"
    for q, v, selfdim in (("units.convert_unitvalue", "v", "v.units.dim"), ("units.UnitArray.convert", "self", "self.units.dim")):
        f = py.fn(q)
        recs = []

        def on(node, facts):
            if isinstance(node, ast.Assign) and pyfe.src(node.targets[0]) == "su_dst" and pyfe.src(node.value) != "0":
                recs.append((node, facts))
        pya.must_facts(f, on_stmt=on)
        ctx.need(len(recs) >= 3, R, "%s: destination assignments not found" % q)
        # the destination system is a function of the target argument alone, whatever form the target takes
        tgt = [p_ for p_ in pyfe.params(f) if p_ != v][0]
        derived = {tgt, "su_dst"}
        for _ in range(4):        # locals computed from the target alone (parsed = parse_units(u)) carry it on
            for node in ast.walk(f):
                if isinstance(node, ast.Assign) and len(node.targets) == 1 and isinstance(node.targets[0], ast.Name):
                    nm_ = {x.id for x in ast.walk(node.value) if isinstance(x, ast.Name)}
                    if nm_ & derived and v not in nm_ and pyfe.src(node.value) != "0":
                        derived.add(node.targets[0].id)
        for node in ast.walk(f):
            if isinstance(node, ast.Assign) and len(node.targets) == 1 and pyfe.src(node.targets[0]) in ("su_dst", tgt) and \
                    pyfe.src(node.value) != "0":
                nm = {x.id for x in ast.walk(node.value) if isinstance(x, ast.Name)}
                ctx.check(bool(nm & derived) and v not in nm, R, node, q, pyfe.src(node)[:70],
                          "derived from the target argument `%s`" % tgt, "the destination of the conversion is taken from `%s`, not "
                          "from the target `%s`: the quantity is 'converted' to its own units (factor 1, any dimension accepted)"
                          % (sorted(nm - derived)[:1] or ["?"], tgt))
        for node, facts in recs:
            val = pyfe.src(node.value)
            if val.endswith(".sys") and not val.startswith("su_dst"):
                owner = val[:-4]
                dimexpr = owner + ".dim"
                ok = ("%s == %s" % (dimexpr, selfdim), True) in facts
            elif val == "su_dst.sys":
                ok = ("su_dst.dim == %s" % selfdim, True) in facts
            else:
                continue
            ctx.check(ok, R, node, q, "su_dst = " + val, "only where the target's dimension equals the source's "
                      "(else raise)", "a target of a different dimension is accepted: the value is converted with the "
                      "wrong exponents")
        rets = [r for r in ast.walk(f) if isinstance(r, ast.Return)]
        from .. import pysym as _ps
        src = _ps.isrc(rets[-1].value, f, stop={"su_dst"}).replace(" ", "")     # named temporaries written out
        okk = ("convert_value(%s.value,%s.units.sys,su_dst,%s)" % (v, v, selfdim) in src and
               "Units(su_dst,%s)" % selfdim in src)
        ctx.check(okk, R, rets[-1], q, pyfe.src(rets[-1])[:100], "number converted source -> destination with the source "
                  "dimension, re-wrapped (destination system, source dimension)", "conversion arguments or re-wrap wrong")
    # the method form delegates: every path of UnitValue.convert that returns a quantity goes through the guarded converter
    # (or has itself compared the two dimensions)
    f = py.fn("units.UnitValue.convert")
    rets = []

    class C(pya.PyFacts):
        def ret(self, s_, cfg):
            rets.append((s_.src, cfg))
    from .. import ir
    ir.Engine(C(), "must").run(ir.py_to_ir(f.body))
    ctx.need(rets, R, "UnitValue.convert: no return reached")
    for node, cfg in rets:
        v_ = node.value
        deleg = isinstance(v_, ast.Call) and pyfe.call_name(v_).endswith("convert_unitvalue") and v_.args and \
            pyfe.src(v_.args[0]) == "self"
        import re as _re
        guarded = any(pol is True and isinstance(a, str) and _re.search(r"\bdim == .*\bdim\b", a) for a, pol in cfg)
        ctx.check(deleg or guarded, R, node, f._qual, "return " + pyfe.src(v_)[:50] if v_ is not None else "return",
                  "through convert_unitvalue(self, ..), which compares the dimensions", "UnitValue.convert returns `%s` on a path "
                  "that has not compared the target's dimension with the quantity's: a target of another dimension is accepted"
                  % (pyfe.src(v_)[:40] if v_ is not None else ""))
    ctx.floor(R, 12)


def rule_set_at(ctx, py):
    """C06.SET-AT -- an element written into a quantity array is the given quantity converted to the array's units: every value
    UnitArray.set_at stores is `<quantity>.convert(self.units).value` (or, under a number test, the bare number, which is taken
    to be in the array's units already).  A `.value` taken without that conversion stores 5 mm as 5 in an array of metres."""
    R = "C06.SET-AT"
    f = py.fn("units.UnitArray.set_at")
    recs = []

    def on(node, facts):
        if isinstance(node, ast.Assign) and isinstance(node.targets[0], ast.Subscript) and \
                pyfe.src(node.targets[0].value) in ("self.value", "self._value"):
            recs.append((node, set(facts)))
    pya.must_facts(f, on_stmt=on)
    ctx.need(recs, R, "UnitArray.set_at: no element store found")
    vpar = [p_ for p_ in pyfe.params(f) if p_ != "self"][-1]
    for node, facts in recs:
        v = node.value
        conv = isinstance(v, ast.Attribute) and isinstance(v.value, ast.Call) and isinstance(v.value.func, ast.Attribute) and \
            v.value.func.attr == "convert" and v.value.args and pyfe.src(v.value.args[0]) in ("self.units", "self._units", "self.units.sys")
        bare = isinstance(v, ast.Name) and v.id == vpar and (("isnumber(%s)" % vpar, True) in facts)
        ctx.check(conv or bare, R, node, f._qual, pyfe.src(node)[:70], "converted to the array's units (or a bare number)",
                  "the number stored is `%s`: it is not the given quantity converted to the array's units" % pyfe.src(v)[:50])
    ctx.floor(R, 2)


def rule_eq3(ctx, py):
    """C06.EQ3 -- the dimension guard of the conversions (`u.dim != v.units.dim -> raise`) and the `sys == sys` short cuts compare
    _UnitsComponentDict objects: their __eq__ must be true only when all three components are equal."""
    R = "C06.EQ3"
    f = py.fn("units._UnitsComponentDict.__eq__")
    other = [p for p in pyfe.params(f) if p != "self"][0]
    comps = {"space", "time", "quantity"}

    def comp_of(e, who):
        t = pyfe.src(e).replace('"', "'")
        for k in comps:
            if t in ("%s.%s" % (who, k), "%s['%s']" % (who, k), "%s._%s" % (who, k)):
                return k
        return None
    trues = [r for r in ast.walk(f) if isinstance(r, ast.Return) and r.value is not None and
             not (isinstance(r.value, ast.Constant) and r.value.value in (False, None))]
    ctx.need(trues, R, "__eq__: no positive return")
    for r in trues:
        v = r.value
        inloop = None
        p_ = pyfe.parent(r)
        while p_ is not None and p_ is not f:
            if isinstance(p_, (ast.For, ast.While)):
                inloop = p_
            p_ = pyfe.parent(p_)
        if isinstance(v, ast.Constant) and v.value is True:
            # loop form: for k in <all components>: if self[k] != v[k]: return False   ...   return True  (after the loop)
            loops = [n for n in ast.walk(f) if isinstance(n, ast.For)]
            okk = inloop is None and len(loops) >= 1
            why = "`return True` sits inside the component loop: only the first component is compared"
            if okk:
                lp = loops[0]
                k = pyfe.src(lp.target)
                it = pyfe.src(lp.iter).replace('"', "'")
                okk = it in ("self.keys()", "['space', 'time', 'quantity']", "('space', 'time', 'quantity')", "self") and any(
                    isinstance(n, ast.If) and pyfe.src(n.test).replace(" ", "") in (
                        "self[%s]!=%s[%s]" % (k, other, k), "%s[%s]!=self[%s]" % (other, k, k),
                        "notself[%s]==%s[%s]" % (k, other, k)) and
                    any(isinstance(b, ast.Return) and isinstance(b.value, ast.Constant) and b.value.value is False for b in n.body)
                    for n in lp.body)
                why = "the component loop does not return False on the first differing component of all three"
            ctx.check(okk, R, r, f._qual, "return True", "reached only after every component compared equal", why +
                      ": dimensions (or systems) that differ in another component compare equal, conversions across dimensions "
                      "stop raising")
            continue
        conj = v.values if isinstance(v, ast.BoolOp) and isinstance(v.op, ast.And) else [v]
        seen = set()
        okk = inloop is None
        for c in conj:
            if isinstance(c, ast.Compare) and len(c.ops) == 1 and isinstance(c.ops[0], ast.Eq):
                a, b = comp_of(c.left, "self"), comp_of(c.comparators[0], other)
                if a is None:
                    a, b = comp_of(c.comparators[0], "self"), comp_of(c.left, other)
                if a is not None and a == b:
                    seen.add(a)
                    continue
            okk = False
        ctx.check(okk and seen == comps, R, r, f._qual, pyfe.src(v)[:100].replace("\n", " "), "all three components, each with "
                  "its own counterpart", "equality does not compare space, time and quantity each with its counterpart "
                  "(compared: %s)" % sorted(seen))
    # `!=` is what the guards actually use (`u.dim != v.units.dim -> raise`): where a class of the module spells out its own __ne__,
    # it is the negation of its __eq__ -- true as soon as ONE component differs
    for cn, cnode in py.mods["units"].classes.items():
        for m in [x for x in cnode.body if isinstance(x, ast.FunctionDef) and x.name == "__ne__"]:
            oth = [p_ for p_ in pyfe.params(m) if p_ != "self"][0]
            for r in [x for x in ast.walk(m) if isinstance(x, ast.Return) and x.value is not None and
                      not (isinstance(x.value, ast.Constant))]:
                v = r.value
                t = pyfe.src(v).replace(" ", "")
                neg = t in ("notself==%s" % oth, "not(self==%s)" % oth, "notself.__eq__(%s)" % oth, "not(self.__eq__(%s))" % oth)
                disj = isinstance(v, ast.BoolOp) and isinstance(v.op, ast.Or) and len(v.values) == 3 and all(
                    isinstance(c, ast.Compare) and len(c.ops) == 1 and isinstance(c.ops[0], ast.NotEq) for c in v.values)
                single = isinstance(v, ast.Compare) and len(v.ops) == 1 and isinstance(v.ops[0], ast.NotEq)
                ctx.check(neg or disj or single, R, r, "units.%s.__ne__" % cn, pyfe.src(v)[:90], "not (self == other): one differing "
                          "component is enough", "`!=` is true only when `%s`: two dimensions (systems) that differ in one or two "
                          "components do not compare unequal, so the dimension guards `a.dim != b.dim -> raise` let them "
                          "through" % pyfe.src(v)[:70])
    ctx.floor(R, 1)


def rule_convert_args(ctx, py, R="C06.ARGS"):
    """every call of convert_value / compute_conversion_factor names, as the *source* system, the units system of the very object
    whose number (or dimension) it converts: convert_value(X.value, X.units.sys, <destination>, X.units.dim).  Source and
    destination exchanged apply the inverse factor."""
    n = 0
    for f in py.mods["units"].funcs.values():
        for c in pyfe.calls_in(f):
            nm = pyfe.call_name(c).split(".")[-1]
            if nm not in ("convert_value", "compute_conversion_factor") or f.name in ("convert_value",):
                continue
            args = [pyfe.arg(c, i, k_) for i, k_ in enumerate(("value", "su_src", "su_dst", "sdim") if nm == "convert_value" else
                                                          ("su_src", "su_dst", "sdim"))]
            if nm == "compute_conversion_factor":
                args = [None] + args
            if any(a is None for a in args[1:]):
                continue
            # named temporaries (`su_src, sdim = v.units.sys, v.units.dim`) are written out; the destination keeps its name
            keep = {a.arg for a in f.args.args} | {"su_dst"}
            args = [a if a is None else _ps.inline(a, f, stop=keep) for a in args[:2]] + args[2:3] + \
                   [_ps.inline(args[3], f, stop=keep)]
            val, src_, dst_, dim_ = args
            owner = None
            t = pyfe.src(dim_)
            if t.endswith(".units.dim") or t.endswith("._units.dim"):
                owner = t.rsplit(".units", 1)[0] if ".units.dim" in t else t.rsplit("._units", 1)[0]
            if owner is None and val is not None and pyfe.src(val).endswith(".value"):
                owner = pyfe.src(val)[:-len(".value")]
            if owner is None:
                continue
            n += 1
            okk = pyfe.src(src_) in ("%s.units.sys" % owner, "%s._units.sys" % owner) and \
                (val is None or pyfe.src(val) in ("%s.value" % owner, "%s._value" % owner)) and \
                pyfe.src(dst_) not in ("%s.units.sys" % owner, "%s._units.sys" % owner)
            ctx.check(okk, R, c, f._qual, pyfe.src(c)[:90], "(number of X, system of X, destination, dimension of X)",
                      "the number of `%s` is converted with source system `%s` and destination `%s`: source and destination are "
                      "exchanged (or belong to another object), the inverse / a foreign factor is applied" % (
                          owner, pyfe.src(src_), pyfe.src(dst_)))
    ctx.floor(R, 2)


def run(ctx):
    # package-wide disciplines first: they need no anchor, and what they find stands whatever the rules below can analyse
    from .. import lints
    lints.run(ctx, "C06", ctx.py, ["units"])
    py = ctx.py
    rule_si(ctx, py)
    vol, con = rule_derived(ctx, py)
    rule_keys(ctx, py)
    rule_labels(ctx, py, vol, con)
    rule_dimguard(ctx, py)
    rule_eq3(ctx, py)
    rule_convert_args(ctx, py)
    rule_set_at(ctx, py)
    # shared clause: a unit string's factors of one base kind add their exponents -- the litre and molar families get their SI
    # meaning (dm3, mol.dm-3) only through that sum
    from ..core import borrow
    from . import c18
    borrow(ctx, "C06", c18.rule_expsum, py)
    ctx.assume("the 1e-12 composition bound is not measured; it follows from the product-of-ratios form (C06.KEYS)")
