"""C20 -- rejection of invalid input, the structural part: key tables are checked before any key is read,
mandatory keys raise, every dimensioned setter interprets its value with the field's dimension, enumerated
setters raise on the complement of their set, every position parameter is validated before use, externally
supplied indices (coarse-graining map, environment indices, edge endpoints) are range-checked on both sides.
Does not decide that every invalid *value* of every field is rejected."""
import ast, re

from .. import pyfe, pya, ir, pykind
from ..core import AnalysisError
from . import c12, c15, c16

# 4.3 field <-> dimension oracle (space, time, quantity)
DIMS = {
    "rdnetwork.Species.D.setter": (2, -1, 0), "rdnetwork.Species.density.setter": (-3, 0, 1),
    "rdnetwork.Reaction.kf.setter": "kf", "rdnetwork.Reaction.kr.setter": "kr",
    "rdgridspace.RDGridSpace.cell_vol.setter": (3, 0, 0),
    "rdgraphspace.RDGraphSpaceNode.volume.setter": (3, 0, 0),
    "rdgraphspace.RDGraphSpaceEdge.surface.setter": (2, 0, 0),
    "rdgraphspace.RDGraphSpaceEdge.distance.setter": (1, 0, 0),
    "rdscript.RDScript.t_sample.setter": (0, 1, 0), "rdscript.RDScript.time_step.setter": (0, 1, 0),
    "rdscript.RDScript.t_max.setter": (0, 1, 0), "rdscript.RDScript.sampling_interval.setter": (0, 1, 0),
    "rdsystem.RDSystem.state.setter": (0, 0, 1),
}
HELPERS = {"density_units_dimensions": (-3, 0, 1), "surface_units_dimensions": (2, 0, 0),
           "volume_units_dimensions": (3, 0, 0), "quantity_units_dimensions": (0, 0, 1),
           "space_units_dimensions": (1, 0, 0), "time_units_dimensions": (0, 1, 0)}
MANDATORY = [("rdnetwork.species_from_dict", "label"), ("rdnetwork.reaction_from_dict", "stoichiometry"),
             ("rdnetwork.rdnetwork_from_dict", "species"), ("rdnetwork.rdnetwork_from_dict", "reactions"),
             ("rdsystem.rdsystem_from_dict", "network"), ("rdscript.rdscript_from_dict", "system"),
             ("rdscript.rdscript_from_dict", "t_sample"), ("rdgraphspace.rdgraphspace_from_dict", "nodes"),
             ("rdgraphspace.rdgraphspace_from_dict", "edges"), ("rdgraphspace.rdgraphspaceedge_from_dict", "nodes"),
             ("units.unitssystem_from_dict", "space"), ("units.unitssystem_from_dict", "time"),
             ("units.unitssystem_from_dict", "quantity"), ("units.unitarray_from_dict", "value"),
             ("units.unitarray_from_dict", "units")]
ENUMS = [
    ("rdscript.RDScript.sampling_policy.setter", {"on_t_sample", "on_iteration", "on_interval", "no_sampling"}),
    ("rdscript.RDScript.init_state_processing.setter", {"auto", "none", "Poisson", "redist"}),
    ("rdgridspace.RDGridSpace.set_boundary_conditions", {"x", "y", "z"}),
    ("rdgridspace.RDGridSpace.set_boundary_conditions", {"reflecting", "periodical"}),
]
POSITION_PARAMS = ("position", "src_position", "dst_position", "position1", "position2", "cell_index")
VALIDATORS = ("get_cell_index", "get_state_index", "is_within_bounds", "get_cell_coordinates", "get_chemostat",
              "get_state", "get_cell_env", "get_cell_vol", "get_neighbors", "are_neighbors", "get_edge")


def fold_dims(py, e, fn):
    """(space, time, quantity) of a dimensions expression, 'kf' / 'kr' for the reaction helpers, else None"""
    if isinstance(e, ast.Call):
        nm = pyfe.call_name(e)
        base = nm.split(".")[-1]
        if base in ("kf_units_dimensions", "kr_units_dimensions") and nm.startswith("self."):
            return base[:2]
        if base == "UnitsDimensions":
            kw = {k.arg: k.value for k in e.keywords}
            try:
                return tuple(ast.literal_eval(kw[k]) for k in ("space", "time", "quantity"))
            except Exception:
                return None
        t = [x for x in py.resolve_call(fn, e) if isinstance(x, ast.FunctionDef)]
        if len(t) == 1:
            rets = [r for r in ast.walk(t[0]) if isinstance(r, ast.Return) and r.value is not None]
            if len(rets) == 1:
                return fold_dims(py, rets[0].value, t[0])
    if isinstance(e, ast.Dict):
        try:
            d = ast.literal_eval(e)
            return (d["space"], d["time"], d["quantity"])
        except Exception:
            return None
    return None


def rule_keys(ctx, py):
    R = "C20.KEYS"
    n = 0
    readers = [r for r, w, c in c12.PAIRS] + ["rdspace.rdspace_from_dict"]
    for q in readers:
        f = py.fn(q)
        d = pyfe.params(f)[0]
        first_read = None
        check = None
        order = []
        for st in f.body:
            for x in ast.walk(st):
                if isinstance(x, ast.Call) and pyfe.call_name(x).endswith("process_input_dict_keys") and \
                        x.args and pyfe.src(x.args[0]) == d and check is None:
                    check = x
                    order.append("check")
                reads_d = False
                if isinstance(x, ast.Subscript) and isinstance(x.value, ast.Name) and x.value.id == d and \
                        isinstance(x.ctx, ast.Load):
                    reads_d = True
                if isinstance(x, ast.Compare) and len(x.ops) == 1 and isinstance(x.ops[0], (ast.In, ast.NotIn)) and \
                        pyfe.src(x.comparators[0]) == d:
                    reads_d = True
                if isinstance(x, ast.Call) and isinstance(x.func, ast.Attribute) and x.func.attr == "get" and \
                        pyfe.src(x.func.value) == d:
                    reads_d = True
                if reads_d:
                    order.append("read")
        n += 1
        if check is None:
            # a dispatcher: every branch forwards d to a reader that checks
            fw = [c for c in pyfe.calls_in(f) if pyfe.call_name(c).endswith("_from_dict") and c.args and
                  pyfe.src(c.args[0]) == d]
            keys_read = {c12.str_const(x.slice) for x in ast.walk(f) if isinstance(x, ast.Subscript) and
                         isinstance(x.value, ast.Name) and x.value.id == d}
            ctx.check(bool(fw) and keys_read <= {"type"}, R, f, f._qual, "dispatcher forwards the dictionary",
                      "reads only the dispatch key and hands d to %s" % sorted({pyfe.call_name(c) for c in fw}),
                      "dictionary keys are consumed without process_input_dict_keys")
            continue
        pol = pyfe.arg(check, 2, "policy")
        ctx.check(pol is None or c12.str_const(pol) == "error", R, check, f._qual, "process_input_dict_keys policy",
                  "unknown / duplicate keys raise", "policy %s does not raise on unknown keys" % (pyfe.src(pol) if pol else ""))
        ctx.check(order and order[0] == "check" and isinstance(pyfe.parent(pyfe.parent(check)), ast.FunctionDef), R,
                  check, f._qual, "key table checked before the first key is read", "", "a key is read before "
                  "(or without) the unknown-key check, or the check is conditional")
    ctx.floor(R, 24)


def rule_mand(ctx, py):
    R = "C20.MAND"
    from .. import pynorm
    for q, key in MANDATORY:
        f = pynorm.unrolled(py.fn(q))      # a table of (key, reader, mandatory) rows is read row by row
        d = pyfe.params(f)[0]
        found = []

        class C(pya.PyFacts):
            def ret(self, s, cfg):
                found.append(cfg)
        gens = []

        def gen(node, key=key, d=d):
            # an unconditional subscript d["key"] raises KeyError when absent
            for x in ast.walk(node):
                if isinstance(x, ast.Subscript) and isinstance(x.value, ast.Name) and x.value.id == d and \
                        c12.str_const(x.slice) == key:
                    return [(("read", key), True)]
            return []
        cl = C(gen=gen)
        ir.Engine(cl, "must").run(ir.py_to_ir(f.body))
        ok = bool(found) and all((("read", key), True) in c or ("'%s' in %s" % (key, d), True) in c for c in found)
        ctx.check(ok, R, f, q, "mandatory key \"%s\"" % key, "every returning path has read it (absent => raise)",
                  "a path returns an object although \"%s\" is absent" % key)
    ctx.floor(R, len(MANDATORY))


def rule_dims(ctx, py):
    R = "C20.DIMS"
    for q, want in DIMS.items():
        f = py.fn(q)
        calls = [c for c in pyfe.calls_in(f) if pyfe.call_name(c).split(".")[-1] in
                 ("process_unitvar_input", "UnitValue", "UnitArray")]
        got = []
        for c in calls:
            nm = pyfe.call_name(c).split(".")[-1]
            if nm == "process_unitvar_input":
                e = pyfe.arg(c, 2, "units_dimensions")
                got.append((c, fold_dims(py, e, f), pyfe.src(pyfe.arg(c, 1, "units_system"))))
            else:
                u = pyfe.arg(c, 1, "units")
                if isinstance(u, ast.Call) and pyfe.call_name(u) == "Units":
                    e = pyfe.arg(u, 1, "dim")
                    got.append((c, fold_dims(py, e, f), pyfe.src(pyfe.arg(u, 0, "sys"))))
        # the state setter also accepts a ready quantity: its dimension is compared explicitly
        cmp_ = [n for n in ast.walk(f) if isinstance(n, ast.Compare) and ".units.dim" in pyfe.src(n.left)]
        for n in cmp_:
            got.append((n, fold_dims(py, n.comparators[0], f), "self.units_system"))
        ctx.need(got, R, "%s: no dimensioned construction found" % q)
        # every path of the setter stores a value that went through one of these constructions (or through an explicit comparison
        # of its dimension): a branch that keeps a ready-made quantity as it is accepts any dimension
        stores = []

        def on_store(node, facts, stores=stores):
            if isinstance(node, ast.Assign) and any(pyfe.src(t).startswith("self._") for t in node.targets):
                stores.append((node, set(facts)))
        pya.must_facts(f, on_stmt=on_store)
        built = {id(c_) for c_, _, _ in got}
        names_built = {pyfe.src(a.targets[0]) for a in ast.walk(f) if isinstance(a, ast.Assign) and len(a.targets) >= 1 and
                       any(id(x) in built for x in ast.walk(a.value))}
        for node, facts in stores:
            via = any(id(x) in built for x in ast.walk(node.value)) or \
                (isinstance(node.value, ast.Name) and node.value.id in names_built) or \
                any(isinstance(x, ast.Name) and x.id in names_built for x in ast.walk(node.value))
            cmpd = any(isinstance(a, str) and ".dim ==" in a.replace("units.dim", ".dim") and pol is True for a, pol in facts) or \
                any(isinstance(a, str) and "units.dim" in a and pol is True for a, pol in facts)
            sentinel = isinstance(node.value, ast.Constant) or (isinstance(node.value, ast.Name) and any(
                isinstance(a, str) and pol is True and a.startswith(node.value.id + " == '") for a, pol in facts)) or \
                (isinstance(node.value, ast.Name) and any(isinstance(a, str) and pol is True and a in (
                    node.value.id + " is None", "isnone(%s)" % node.value.id) for a, pol in facts))
            ctx.check(via or cmpd or sentinel, R, node, q, pyfe.src(node)[:70], "stored after the dimension test", "`%s` keeps the value without "
                      "building it with the field's dimension or comparing its dimension: a quantity of another dimension is "
                      "accepted as it is" % pyfe.src(node)[:50], nontrivial=False)
        for c, dims, sysx in got:
            ctx.check(dims == want, R, c, q, pyfe.src(c)[:80], "dimension %s" % (want,),
                      "the field is interpreted with dimension %s, expected %s: a quantity of the wrong dimension "
                      "is accepted (and the right one rejected)" % (dims, want))
            ctx.check(sysx == "self.units_system", "C20.OWNER", c, q, "units system %s" % sysx,
                      "bare numbers are read in the owner's units system", "bare numbers are interpreted in %s" % sysx,
                      nontrivial=False)
    for h, want in HELPERS.items():
        f = py.fn("units." + h)
        rets = [r for r in ast.walk(f) if isinstance(r, ast.Return)]
        ctx.check(len(rets) == 1 and fold_dims(py, rets[0].value, f) == want, R, f, f._qual, h + "()",
                  "= %s" % (want,), "helper returns %s" % (fold_dims(py, rets[0].value, f) if rets else None,))
    ctx.floor(R, 19)


def rule_wrap(ctx, py):
    """process_unitvar_input: every value it returns / stores in its result was built by UnitValue / UnitArray with
    Units(units_system, units_dimensions) and convert=False -- the one place where the dimension of a ready-made
    quantity is compared with the field's"""
    R = "C20.WRAP"
    f = py.fn("value_processing.process_unitvar_input")
    sites = []
    for n in ast.walk(f):
        if isinstance(n, ast.Assign) and len(n.targets) == 1:
            t = n.targets[0]
            if (isinstance(t, ast.Subscript) and pyfe.src(t.value) == "v_out") or \
                    (isinstance(t, ast.Name) and t.id == "v_out"):
                sites.append(n)
    ctx.need(len(sites) >= 4, R, "process_unitvar_input: result stores not found")
    for n in sites:
        v = n.value
        src = pyfe.src(v)
        if src in ("{}", "copy.deepcopy(v)"):
            ctx.ok(R, n, f._qual, pyfe.src(n)[:80], "initialisation of the result", nontrivial=False)
            continue
        ok = isinstance(v, ast.Call) and pyfe.call_name(v) in ("UnitValue", "UnitArray") and len(v.args) >= 2 and \
            pyfe.src(v.args[1]).replace(" ", "") == "Units(units_system,units_dimensions)" and \
            any(k.arg == "convert" and pyfe.src(k.value) == "False" for k in v.keywords)
        ctx.check(ok, R, n, f._qual, pyfe.src(n)[:100], "built with the field's units and dimension, convert=False "
                  "(dimension mismatch raises)", "a value enters the field without passing the dimension-checking "
                  "constructor: a quantity of the wrong dimension is accepted")
    # the initial deep copy must not survive as the result for any accepted input: every branch reassigns or raises
    ctx.floor(R, 5)


def raise_on_complement(f, want):
    """is there  `if X not in [<want>]: raise`  in f ?"""
    for n in ast.walk(f):
        if isinstance(n, ast.If) and any(isinstance(b, ast.Raise) for b in n.body):
            for a, pol in pya.atoms(n.test, True):
                if pol is False and " in [" in a:
                    try:
                        lits = set(ast.literal_eval(a.split(" in ", 1)[1]))
                    except Exception:
                        continue
                    if lits == want:
                        return n, True
                    if lits & want:
                        return n, lits
    return None, False


def rule_enum(ctx, py):
    R = "C20.ENUM"
    for q, want in ENUMS:
        f = py.fn(q)
        n, res = raise_on_complement(f, want)
        ctx.check(res is True, R, n or f, q, "accepts exactly %s" % sorted(want), "raises on anything else",
                  "the accepted set is %s" % (sorted(res) if isinstance(res, set) else "not tested"))
        # what is kept is what was tested: when the membership test is made on a transformed copy of the value (lower-cased,
        # stripped, converted), the value stored afterwards is that copy -- every consumer compares with the exact words
        if n is not None:
            subj = None
            for a, pol in pya.atoms(n.test, True):
                if pol is False and " in [" in a:
                    subj = a.split(" in [", 1)[0]
            for st in ast.walk(f):
                if isinstance(st, ast.Assign) and len(st.targets) == 1 and pyfe.src(st.targets[0]).startswith("self.") and \
                        st.lineno >= n.lineno and subj:
                    v = pyfe.src(st.value)
                    if v != subj and len(v) > 1 and v in subj:
                        ctx.violation(R, st, q, pyfe.src(st)[:70], "the test is made on `%s` but `%s` is what is stored: a value "
                                      "that passes only after the transformation (other capitalisation, blanks) is kept as given "
                                      "and matches none of the accepted words where it is used" % (subj[:50], v[:40]))
    # unit symbols: the three checkers raise unless the symbol is in the label table of their own kind
    for k in ("space", "time", "quantity"):
        f = py.fn("units.UnitsSystem._check_" + k)
        okk = False
        for n in ast.walk(f):
            if isinstance(n, ast.If) and any(isinstance(b, ast.Raise) for b in n.body):
                if ("v in _units_labels_dict['%s']" % k, False) in pya.atoms(n.test, True):
                    okk = True
        ctx.check(okk, R, f, f._qual, "unit symbol must be in _units_labels_dict['%s']" % k, "", "no membership test "
                  "against the label table of kind %s" % k)
        st = py.fn("units._UnitsComponentDict.%s.setter" % k)
        calls = [pyfe.call_name(c) for c in pyfe.calls_in(st)]
        ctx.check("self._check_%s" % k in calls, R, st, st._qual, "setter calls _check_%s" % k, "", "setter does not validate")
    # environments: non-empty, not "default", strings
    f = py.fn("rdnetwork.RDNetwork.environments.setter")
    facts = set()
    for n in ast.walk(f):
        if isinstance(n, ast.If) and any(isinstance(b, ast.Raise) for b in n.body):
            facts |= set(pya.atoms(n.test, True))
    ctx.check(("len(environments) == 0", True) in facts, R, f, f._qual, "empty environment list raises", "", "not tested")
    ctx.check(("e == 'default'", True) in facts, R, f, f._qual, "environment named 'default' raises", "", "not tested")
    # ... and what is stored has been through these tests: on every path to a store of self._environments the raising tests
    # stand before it (a branch that stores a tuple `as it is` skips them)

    def before(st):
        """If-statements with a raise that are executed on every path before statement st (preceding siblings of st and of its
        ancestors; the body of a preceding for-loop counts, it runs for every element)"""
        out = []
        cur = st
        while cur is not None and cur is not f:
            par = pyfe.parent(cur)
            for fld in ("body", "orelse"):
                blk = getattr(par, fld, None)
                if isinstance(blk, list) and any(cur is x for x in blk):
                    k_ = [x is cur for x in blk].index(True)
                    out += must_tests(blk[:k_])
            cur = par
        return out

    def ends(blk):
        return bool(blk) and (isinstance(blk[-1], (ast.Raise, ast.Return)) or
                              (isinstance(blk[-1], ast.If) and ends(blk[-1].body) and ends(blk[-1].orelse)))

    def must_tests(blk):
        """raising If-statements evaluated on every path that runs through blk and continues after it"""
        out = []
        for st_ in blk:
            if isinstance(st_, ast.For):
                out += must_tests(st_.body)
            elif isinstance(st_, ast.If):
                if ends(st_.body):
                    out.append(st_)
                    out += must_tests(st_.orelse)
                elif ends(st_.orelse):
                    out += must_tests(st_.body)
                else:
                    a_, b_ = must_tests(st_.body), must_tests(st_.orelse)
                    out += [x for x in a_ if any(x is y for y in b_)]
        return out
    stores_ = [st for st in ast.walk(f) if isinstance(st, ast.Assign) and pyfe.src(st.targets[0]) == "self._environments"]
    ctx.need(stores_, R, "environments setter: store to self._environments not found")
    for st in stores_:
        at_ = set()
        for x in before(st):
            at_ |= set(pya.atoms(x.test, True))
        miss = [w for w in (("len(environments) == 0", True), ("e == 'default'", True)) if w not in at_]
        ctx.check(not miss, R, st, f._qual, pyfe.src(st)[:60] + " after the tests", "every stored list has been tested",
                  "`%s` is reached without the test `%s`: an empty list / the reserved name 'default' is stored when the value "
                  "comes in this form" % (pyfe.src(st)[:50], miss[0][0] if miss else ""))
    # grid sizes > 0
    f = py.fn("rdgridspace.RDGridSpace.__init__")
    facts = set()
    for n in ast.walk(f):
        if isinstance(n, ast.If) and any(isinstance(b, ast.Raise) for b in n.body):
            facts |= set(pya.atoms(n.test, True))
    for a in ("_w", "_h", "_d"):
        ctx.check(("self.%s <= 0" % a, True) in facts, R, f, f._qual, "self.%s <= 0 raises" % a, "", "non-positive "
                  "grid size accepted")
    # cell_env length
    f = py.fn("rdgridspace.RDGridSpace.cell_env.setter")
    facts = set()
    for n in ast.walk(f):
        if isinstance(n, ast.If) and any(isinstance(b, ast.Raise) for b in n.body):
            facts |= set(pya.atoms(n.test, True))
    ctx.check(("len(v) == self.size()", False) in facts, R, f, f._qual, "cell_env of the wrong length raises", "",
              "length not compared with size()")
    # labels: validator called by both _set_label
    for c in ("Species", "Reaction"):
        f = py.fn("rdnetwork.%s._set_label" % c)
        ctx.check(any(pyfe.call_name(x).endswith("assert_string_is_a_valid_label") for x in pyfe.calls_in(f)), R, f,
                  f._qual, "label validated", "", "label not validated")
    # network validity: undeclared species, duplicate labels
    f = py.fn("rdnetwork.RDNetwork._assert_validity")
    nraise = len([n for n in ast.walk(f) if isinstance(n, ast.Raise)])
    ctx.check(nraise >= 4, R, f, f._qual, "_assert_validity has its raise classes (%d)" % nraise, "", "a raise class is gone")
    init = py.fn("rdnetwork.RDNetwork.__init__")
    last = init.body[-1]
    ctx.check(isinstance(last, ast.Expr) and pyfe.src(last.value) == "self._assert_validity()", R, init, init._qual,
              "__init__ ends with self._assert_validity()", "", "network validity not asserted at construction")
    ctx.floor(R, 20)


def rule_pos(ctx, py):
    """every function with a position parameter validates it (or only delegates it) before any other use"""
    R = "C20.POS"
    DELEG = ("str", "compute_reaction_rates", "compute_diffusion_rates", "compute_dspeciesdt",
             "_compute_dspeciesdt_grid", "_compute_dspeciesdt_graph", "isnumber", "isarray")
    n = 0
    for f in py.all_funcs():
        if f._mod.name not in ("kinetics", "rdgridspace", "rdgraphspace", "rdsystem", "rdoutput"):
            continue
        if f.name.startswith("_") and f.name not in ("_compute_dspeciesdt_grid", "_compute_dspeciesdt_graph"):
            continue
        for p in pyfe.params(f):
            if p not in POSITION_PARAMS:
                continue
            n += 1
            what = "%s(%s)" % (f.name, p)
            if f.name == "is_within_bounds" or f._qual == "rdgraphspace.RDGraphSpace.get_cell_index":
                ctx.ok(R, f, f._qual, what, "the validator itself (C15.ENT)", nontrivial=False)
                continue
            uses = [x for x in ast.walk(f) if isinstance(x, ast.Name) and x.id == p and isinstance(x.ctx, ast.Load)]
            if not uses:
                ctx.violation(R, f, f._qual, what, "the position is never looked at: any value, including one "
                              "outside the space, is accepted")
                continue
            bad = []

            def in_call(u, names):
                q = pyfe.parent(u)
                while q is not None and not isinstance(q, ast.stmt):
                    if isinstance(q, ast.Call) and pyfe.call_name(q).split(".")[-1] in names:
                        return True
                    q = pyfe.parent(q)
                return False

            def gen(node, p=p):
                for x in ast.walk(node):
                    if isinstance(x, ast.Name) and x.id == p and isinstance(x.ctx, ast.Load) and \
                            in_call(x, VALIDATORS) and not in_call(x, ("is_within_bounds",)):
                        return [(("validated", p), True)]
                return []

            def on(node, facts, p=p, bad=bad):
                for x in ast.walk(node):
                    if isinstance(x, ast.Name) and x.id == p and isinstance(x.ctx, ast.Load):
                        if in_call(x, VALIDATORS) or in_call(x, DELEG) or isinstance(pyfe.parent(x), ast.keyword):
                            continue
                        okk = (("validated", p), True) in facts or \
                            any(isinstance(t, str) and t.endswith("is_within_bounds(%s)" % p) and pol
                                for t, pol in facts)
                        if not okk:
                            bad.append(x)

            class C(pya.PyFacts):
                def _kill(self, names, cfg):
                    # re-binding the parameter to the validator's result keeps it validated
                    return frozenset(x for x in pya.PyFacts._kill(self, names, cfg))
            cl = C(on_stmt=on, on_cond=on, gen=gen)
            ir.Engine(cl, "must").run(ir.py_to_ir(f.body))
            # returns are atoms of kind 'return' and reach on_stmt through Engine.ex
            ctx.check(not bad, R, bad[0] if bad else f, f._qual, what,
                      "validated or delegated before any other use (%d uses)" % len(uses),
                      "the raw position is used at line %s without passing a validator first"
                      % (bad[0].lineno if bad else "?"))
    ctx.floor(R, 24)


def rule_extidx(ctx, py):
    R = "C20.EXTIDX"
    # (1) graph edge endpoints are range-checked where the graph is built
    f = py.fn("rdgraphspace.RDGraphSpace.__init__")
    facts_at_store = []

    def on(node, facts):
        if isinstance(node, ast.Assign) and pyfe.src(node.targets[0]) == "self._edges":
            facts_at_store.append(facts)
    checks = set()
    for n in ast.walk(f):
        if isinstance(n, ast.If) and any(isinstance(b, ast.Raise) for b in n.body):
            from .. import pysym
            for a, pol in pya.atoms(pysym.inline(n.test, f, stop={"nodes", "edge"}), False):     # `i, j = edge.i, edge.j` written out
                checks.add((a, pol))
    need = [("edge.i < 0", False), ("len(nodes) <= edge.i", False), ("edge.j < 0", False), ("len(nodes) <= edge.j", False)]
    alt = [("edge.i < 0", False), ("self.size() <= edge.i", False), ("edge.j < 0", False), ("self.size() <= edge.j", False)]
    ok = all(x in checks for x in need) or all(x in checks for x in alt)
    ctx.check(ok, R, f, f._qual, "edge endpoints i, j tested against [0, number of nodes) with raise",
              "two-sided range test on both endpoints",
              "an edge to a non-existent node is accepted: the engine indexes its neighbour tables with it "
              "(RDGraphSpace.check() tests this but has no caller; only the endpoint test is required here)")
    # (2) environment indices are range-checked where network and space meet
    g = py.fn("rdsystem.RDSystem.__init__")
    order = []
    for st in g.body:
        s = pyfe.src(st)
        if isinstance(st, ast.For) and "get_cell_env_array()" in pyfe.src(st.iter):
            at = set()
            for n in ast.walk(st):
                if isinstance(n, ast.If) and any(isinstance(b, ast.Raise) for b in n.body):
                    at |= set(pya.atoms(n.test, False))
            v = pyfe.src(st.target)
            two = ("%s < 0" % v, False) in at and (("self.network.nenvironments() <= %s" % v, False) in at or
                                                  ("len(self.network.environments) <= %s" % v, False) in at)
            order.append("check" if two else "weak-check")
        elif "set_default_state" in s or "set_default_chemostats" in s:
            order.append("use")
    ok = "check" in order and order.index("check") < (order.index("use") if "use" in order else 99)
    ctx.check(ok, R, g, g._qual, "environment indices of the space tested against [0, nenvironments()) before use",
              "two-sided range test precedes the default state / chemostat generation",
              "environment indices are never range-checked: -1 silently means the last environment, and with an "
              "explicit state an index >= nenvironments() reaches the engine's k / D tables unchecked")
    # inventory: where an environment index subscripts the environment list
    uses = 0
    for f2 in py.all_funcs():
        for n in ast.walk(f2):
            if isinstance(n, ast.Subscript) and pyfe.src(n.value).endswith("environments") and \
                    isinstance(n.ctx, ast.Load):
                k, _ = pykind.kind(n.slice, f2, n)
                if k == "env":
                    uses += 1
                    bound = any(t in pyfe.src(n.value) for t in ("system.network", "self.network", "network."))
                    ctx.ok(R, n, f2._qual, pyfe.src(n)[:70], "environment index taken from the space of the same "
                           "system (validated at RDSystem construction)", nontrivial=False)
    # (an inventory, not an obligation: fewer uses mean fewer places where an unchecked index could matter)
    ctx.need(uses >= 1, R, "no use of an environment index found")
    ctx.floor(R, 6)


def rule_itemdim(ctx, py):
    """C20.ITEMDIM -- UnitArray.set_value: the number of an item given as a UnitValue is taken only after that item's
    dimension was compared with the array's (directly, or by an unconditional convert(), which raises on a mismatch)"""
    R = "C20.ITEMDIM"
    f = py.fn("units.UnitArray.set_value")
    uses = []

    class C(pya.PyFacts):
        def assume(self, cond, positive, cfg):
            cfg = super().assume(cond, positive, cfg)
            for t, pol in pya.atoms(cond, positive):
                m = re.match(r"^(.*)\.units\.dim == self\.units\.dim$", t) or re.match(r"^self\.units\.dim == (.*)\.units\.dim$", t)
                if m and pol:
                    cfg = cfg | {(("dimchecked", m.group(1)), True)}
            return cfg

        def atom(self, node, cfg):
            if isinstance(node, ast.Assign) and len(node.targets) == 1:
                tg = pyfe.src(node.targets[0])
                v = node.value
                if isinstance(v, ast.Attribute) and v.attr == "value" and pyfe.src(v.value) == tg:
                    if self.record:
                        uses.append((node, tg, cfg))
                    return cfg
                if isinstance(v, ast.Call) and isinstance(v.func, ast.Attribute) and v.func.attr == "convert" and \
                        pyfe.src(v.func.value) == tg and v.args and pyfe.src(v.args[0]) in ("self.units", "self._units"):
                    return super().atom(node, cfg) | {(("dimchecked", tg), True)}
                cfg = frozenset(x for x in cfg if not (isinstance(x[0], tuple) and x[0][0] == "dimchecked" and x[0][1] == tg))
            return super().atom(node, cfg)
    ir.Engine(C(), "must").run(ir.py_to_ir(f.body))
    ctx.need(uses, R, "set_value: `item = item.value` not found")
    for node, tg, cfg in uses:
        ctx.check((("dimchecked", tg), True) in cfg, R, node, f._qual, pyfe.src(node)[:70],
                  "after the item's dimension was compared with the array's",
                  "the number of a UnitValue item is taken without comparing its dimension with the array's on every path "
                  "(a convert() that runs only when the unit systems differ is not a check): items of another dimension are "
                  "accepted as plain numbers")
    ctx.floor(R, 1)


def rule_synonyms(ctx, py):
    """C20.SYNONYMS -- process_input_dict_keys refuses a dictionary that holds two keys of one synonym row, whichever two: the
    keys found are counted over the whole row (the row is not sliced or split into `canonical` and `aliases`) and more than one
    raises."""
    R = "C20.SYNONYMS"
    f = py.fn("value_processing.process_input_dict_keys")
    syn = pyfe.params(f)[1]
    loops = [n for n in ast.walk(f) if isinstance(n, ast.For) and pyfe.src(n.iter) in (syn, "list(%s)" % syn) and
             isinstance(n.target, ast.Name) and any(isinstance(x, ast.Raise) for x in ast.walk(n))]
    ctx.need(len(loops) == 1, R, "process_input_dict_keys: the duplicate-synonym loop (for row in synonyms ... raise) is not found")
    lp = loops[0]
    row = lp.target.id
    cut = [x for x in ast.walk(lp) if isinstance(x, ast.Subscript) and isinstance(x.value, ast.Name) and x.value.id == row]
    ctx.check(not cut, R, cut[0] if cut else lp, f._qual, "keys counted over the whole row `%s`" % row, "any two keys of a row collide",
              "the row is taken apart (`%s`): only some pairs of synonyms are detected, two aliases of one field are accepted together "
              "and the later one silently wins" % (pyfe.src(cut[0]) if cut else ""))
    # simple syntactic guard chain of the raise
    for r in [x for x in ast.walk(lp) if isinstance(x, ast.Raise)]:
        conds = []
        p_ = pyfe.parent(r)
        child = r
        while p_ is not None and p_ is not lp:
            if isinstance(p_, ast.If) and child in p_.body:
                conds.append(pyfe.src(p_.test).replace(" ", ""))
            child = p_
            p_ = pyfe.parent(p_)
        import re as _re
        okk = any(_re.search(r"len\([^)]*\)>1|len\([^)]*\)>=2|1<len\(|2<=len\(|count>1|n_found>1", c_) for c_ in conds)
        ctx.check(okk, R, r, f._qual, "raise under " + " and ".join(conds)[:90], "more than one key of the row",
                  "the duplicate-synonym error is not raised whenever more than one key of the row is present (conditions: %s)" % conds)
    ctx.floor(R, 2)


def run(ctx):
    py = ctx.py
    rule_keys(ctx, py)
    rule_mand(ctx, py)
    rule_dims(ctx, py)
    rule_wrap(ctx, py)
    rule_enum(ctx, py)
    rule_pos(ctx, py)
    rule_extidx(ctx, py)
    rule_itemdim(ctx, py)
    rule_synonyms(ctx, py)
    # shared: the coarse-graining map (C16.VALID-FIRST + C16.M1) and the bounds entailment (C15.ENT)
    n0 = len(ctx.insts)
    c16.rule_valid_first(ctx, py)
    c16.rule_m1(ctx, py)
    c15.rule_ent(ctx, py)
    for i in ctx.insts[n0:]:
        i.rule = "C20.CGMAP" if i.rule.startswith("C16") else "C20.POS-ENT"
    ctx.floors = {k: v for k, v in ctx.floors.items() if k.startswith("C20")}
    from .. import lints
    lints.run(ctx, "C20", ctx.py, ["rdnetwork", "rdgridspace", "rdgraphspace", "rdsystem", "rdscript", "value_processing", "units", "coarsegrain", "rdoutput", "kinetics", "librdengine"], truth_floor=100)
    ctx.assume("that every invalid *value* of every field is rejected is not decided; only the listed classes")
