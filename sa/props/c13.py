"""C13 -- default state and chemostat map: density x volume converted to the state's units, species-major
concatenation of per-cell blocks, get_state_index = species*size + cell used by every per-entry accessor,
environment fallback order.  Does not decide the values."""
import ast

from .. import pyfe, pya, pykind, ir
from ..poly import Poly
from .c15 import py_poly, rule_radix_py


def rule_index(ctx, py):
    R = "C13.INDEX"
    f = py.fn("rdsystem.RDSystem.get_state_index")
    rets = [r for r in ast.walk(f) if isinstance(r, ast.Return)]
    ctx.need(len(rets) == 1, R, "get_state_index: expected one return")
    from .. import pysym
    got = pysym.frat(rets[0].value, f)
    want = pysym.rat(ast.parse("self.network.get_species_index(species) * self.space.size() + "
                               "self.space.get_cell_index(position)", mode="eval").body)
    ctx.check(got.equals(want), R, rets[0], f._qual, pyfe.src(rets[0]), "species_index * size + cell_index, both resolved "
              "from the arguments", "the state index is %r, expected species*size + cell" % (got,))
    # per-entry accessors go through it with their own (species, position)
    for name, arr in (("set_chemostat", "_chemostats"), ("get_chemostat", "_chemostats"), ("set_state", "_state"),
                      ("get_state", "_state")):
        g = py.fn("rdsystem.RDSystem." + name)
        d = [st for st in ast.walk(g) if isinstance(st, ast.Assign) and isinstance(st.value, ast.Call) and
             pyfe.call_name(st.value) == "self.get_state_index"]
        okk = len(d) == 1 and [pyfe.src(a) for a in d[0].value.args] == ["species", "position"]
        ctx.check(okk, R, g, g._qual, "%s: state_index = self.get_state_index(species, position)" % name, "", "the "
                  "accessor does not resolve its own (species, position)")
        if not okk:
            continue
        v = pyfe.src(d[0].targets[0])
        acc = []
        for n in ast.walk(g):
            if isinstance(n, ast.Subscript) and pyfe.src(n.value) == "self." + arr:
                acc.append(pyfe.src(n.slice))
            if isinstance(n, ast.Call) and isinstance(n.func, ast.Attribute) and n.func.attr in ("get_at", "set_at") \
                    and pyfe.src(n.func.value) == "self." + arr:
                acc.append(pyfe.src(n.args[0]))
        ctx.check(acc == [v], R, g, g._qual, "%s: self.%s[%s]" % (name, arr, acc), "exactly that entry",
                  "accesses %s, not the resolved entry %s" % (acc, v))
    # set_state converts bare numbers in the system's units
    g = py.fn("rdsystem.RDSystem.set_state")
    src = pyfe.src(g).replace(" ", "")
    ctx.check("UnitValue(value,Units(self.units_system,quantity_units_dimensions()))" in src, R, g, g._qual,
              "bare numbers wrapped as amounts in the system's units", "", "bare numbers not wrapped in the owner's units")
    ctx.floor(R, 10)


def rule_concat(ctx, py):
    R = "C13.CONCAT"
    for q, per, arr in (("rdsystem.generate_system_state", "generate_species_state", "state"),
                        ("rdsystem.generate_system_chemostats", "generate_species_chemostats", "chstt")):
        f = py.fn(q)
        loops = [n for n in f.body if isinstance(n, ast.For)]
        ctx.need(len(loops) == 1, R, "%s: species loop not found" % q)
        lp = loops[0]
        ctx.check(pyfe.src(lp.iter) == "network.species" and isinstance(lp.target, ast.Name), R, lp, q,
                  "for %s in %s" % (pyfe.src(lp.target), pyfe.src(lp.iter)), "blocks in species order",
                  "blocks are not concatenated in the order of network.species")
        from .. import pysym
        cats = [n for n in ast.walk(lp) if isinstance(n, ast.Assign) and len(n.targets) == 1 and isinstance(n.targets[0], ast.Name)
                and isinstance(n.value, ast.Call) and pyfe.call_name(n.value) in ("np.concatenate", "np.append", "np.hstack")]
        apps = [c for c in pyfe.calls_in(lp) if isinstance(c.func, ast.Attribute) and c.func.attr == "append" and
                isinstance(c.func.value, ast.Name)]
        rets = [r for r in ast.walk(f) if isinstance(r, ast.Return) and r.value is not None]
        ctx.need(rets, R, "%s: no return" % q)
        if cats and not apps:
            # running array: acc = concatenate((acc, block)) once per species -> blocks in species order (species-major)
            for c in cats:
                acc = c.targets[0].id
                a0 = c.value.args[0]
                tup = a0 if isinstance(a0, ast.Tuple) else ast.Tuple(elts=list(c.value.args[:2]), ctx=ast.Load())
                okk = len(tup.elts) == 2 and pyfe.src(tup.elts[0]) == acc
                ctx.check(okk, R, c, q, pyfe.src(c)[:80], "appended after the blocks of the previous species",
                          "block not appended at the end of the running array")
            acc0 = cats[0].targets[0].id
            for r in rets:
                t = pysym.isrc(r.value, f, stop={acc0}).replace(" ", "")
                plain = t == acc0 or t.startswith("UnitArray(%s," % acc0) or t in ("np.array(%s)" % acc0, "np.array(%s,dtype=int)" % acc0,
                                                                                   "np.asarray(%s)" % acc0)
                ctx.check(plain, R, r, q, "return " + pyfe.src(r.value)[:70], "the running array as assembled",
                          "the assembled array is re-arranged on return (`%s`): the blocks are no longer laid end to end in species "
                          "order" % pyfe.src(r.value)[:60])
        elif apps and not cats:
            # list of per-species blocks, assembled once at the end: the assembling call decides the layout
            lst = apps[0].func.value.id
            ctx.check(all(a_.func.value.id == lst for a_ in apps), R, apps[0], q, "one block list `%s`" % lst, "", "several block lists")
            SM = ("np.concatenate(L)", "np.hstack(L)", "np.array(L).flatten()", "np.array(L).ravel()", "np.vstack(L).flatten()",
                  "np.vstack(L).ravel()", "np.stack(L).flatten()", "np.stack(L).ravel()", "np.asarray(L).flatten()",
                  "np.asarray(L).ravel()", "np.array(L).reshape(-1)", "np.concatenate(L,axis=0)")
            finals = [r for r in rets if lst in pyfe.src(r.value)]
            ctx.need(finals, R, "%s: the block list is not assembled in a return statement" % q)
            for r in finals:
                t = pyfe.src(r.value).replace(" ", "").replace(lst, "L")
                inner = t
                for wrap in ("UnitArray(",):
                    if inner.startswith(wrap):
                        inner = inner[len(wrap):]
                core = next((x for x in SM if inner.startswith(x)), None)
                cellmajor = any(k_ in t for k_ in ("column_stack", ".T.", ".T)", "transpose", "axis=1", "'F'", "dstack", "swapaxes"))
                if cellmajor or core is None:
                    ctx.check(not cellmajor, R, r, q, pyfe.src(r.value)[:80], "blocks laid end to end (species-major)",
                              "the per-species blocks are interleaved (`%s`): entry (species, cell) lands at cell*nspecies + species, "
                              "every reader expects species*ncells + cell" % pyfe.src(r.value)[:60]) if cellmajor else \
                        ctx.error(R, "%s: assembly `%s` not recognised" % (q, pyfe.src(r.value)[:60]))
                else:
                    ctx.ok(R, r, q, pyfe.src(r.value)[:80], "blocks laid end to end in species order")
        else:
            ctx.error(R, "%s: neither a running concatenation nor a block list found" % q)
        calls = [c for c in pyfe.calls_in(lp) if pyfe.call_name(c) == per]
        ctx.check(len(calls) == 1 and pyfe.src(calls[0].args[0]) == pyfe.src(lp.target) and
                  [pyfe.src(a) for a in calls[0].args[1:3]] == ["network", "space"], R, lp, q,
                  "%s(%s, network, space, ...)" % (per, pyfe.src(lp.target)), "default block of this species", "wrong arguments")
        # override blocks must have the length of the space
        chk = [n for n in ast.walk(lp) if isinstance(n, ast.If) and any(isinstance(b, ast.Raise) for b in n.body) and
               "space.size()" in pyfe.src(n.test)]
        ctx.check(len(chk) == 1, R, lp, q, "override block length tested against space.size()", "", "override length unchecked")
    for q, out in (("rdsystem.generate_species_state", "state"), ("rdsystem.generate_species_chemostats", "chstt")):
        f = py.fn(q)
        init = [n for n in f.body if isinstance(n, ast.Assign) and pyfe.src(n.targets[0]) == out]
        okk = init and isinstance(init[0].value, ast.ListComp) and \
            pyfe.src(init[0].value.generators[0].iter) == "range(space.size())"
        ctx.check(okk, R, init[0] if init else f, q, "block of space.size() entries", "", "block length is not the space size")
        loops = [n for n in f.body if isinstance(n, ast.For)]
        ctx.need(len(loops) == 1, R, "%s: cell loop not found" % q)
        lp = loops[0]
        i = pyfe.src(lp.target)
        ctx.check(pyfe.src(lp.iter) == "range(space.size())", R, lp, q, "for %s in %s" % (i, pyfe.src(lp.iter)),
                  "every cell", "does not range over the cells")
        gv = [c for c in pyfe.calls_in(lp) if pyfe.call_name(c).endswith("get_value_in_env")]
        ctx.need(len(gv) == 1, R, "%s: get_value_in_env call not found" % q)
        kw = {k.arg: pyfe.src(k.value) for k in gv[0].keywords}
        attr = "density" if out == "state" else "chstt"
        ctx.check(kw.get("value") == "species." + attr and kw.get("environment") == "network.environments[cell_env[%s]]" % i,
                  R, gv[0], q, "value of species.%s in the environment label of cell %s" % (attr, i), "",
                  "looks up %s / %s" % (kw.get("value"), kw.get("environment")))
        st = [n for n in lp.body if isinstance(n, ast.Assign) and pyfe.src(n.targets[0]) == "%s[%s]" % (out, i)]
        ctx.check(len(st) == 1, R, lp, q, "%s[%s] = ..." % (out, i), "entry of the same cell", "stores to another cell")
        ce = [n for n in f.body if isinstance(n, ast.Assign) and pyfe.src(n.targets[0]) == "cell_env"]
        ctx.check(ce and pyfe.src(ce[0].value) == "space.get_cell_env_array()", R, f, q, "cell_env = space.get_cell_env_array()", "", "")
    ctx.floor(R, 20)


def rule_tag(ctx, py):
    R = "C13.TAG"
    f = py.fn("rdsystem.generate_species_state")
    # the volume multiplied into entry i is the volume of cell i: every read of the volume array is at the index of the entry
    # that is being stored (a fixed index makes every cell inherit one cell's volume -- invisible on grids, wrong on graphs)
    idxs = {pyfe.src(n.targets[0].slice) for n in ast.walk(f) if isinstance(n, ast.Assign) and
            isinstance(n.targets[0], ast.Subscript) and pyfe.src(n.targets[0].value) == "state"}
    vols = {pyfe.src(n.targets[0]) for n in ast.walk(f) if isinstance(n, ast.Assign) and "get_cell_vol_array" in pyfe.src(n.value)}
    reads = [c for c in pyfe.calls_in(f) if isinstance(c.func, ast.Attribute) and c.func.attr == "get_at" and
             (pyfe.src(c.func.value) in vols or "get_cell_vol_array" in pyfe.src(c.func.value))] + \
            [n for n in ast.walk(f) if isinstance(n, ast.Subscript) and isinstance(n.ctx, ast.Load) and pyfe.src(n.value) in vols]
    for c in reads:
        a = pyfe.src(c.args[0]) if isinstance(c, ast.Call) and c.args else pyfe.src(c.slice) if isinstance(c, ast.Subscript) else "?"
        ctx.check(a in idxs, R, c, f._qual, pyfe.src(c)[:50], "volume of the cell whose entry is stored",
                  "the volume is read at `%s`, not at the index of the entry being stored (%s): every cell gets the volume of "
                  "one cell" % (a, ", ".join(sorted(idxs)) or "?"))
    st = [n for n in ast.walk(f) if isinstance(n, ast.Assign) and pyfe.src(n.targets[0]).startswith("state[")]
    ctx.need(len(st) == 1, R, "generate_species_state: entry store not found")
    v = st[0].value
    # (<density> * cell_vol.get_at(i)).convert(units_system).value
    ok = isinstance(v, ast.Attribute) and v.attr == "value" and isinstance(v.value, ast.Call) and \
        isinstance(v.value.func, ast.Attribute) and v.value.func.attr == "convert" and \
        pyfe.src(v.value.args[0]) == "units_system"
    ctx.check(ok, R, st[0], f._qual, pyfe.src(v)[:90], "converted to the requested units system before the number is taken",
              "the number is extracted without converting to the units system it is then labelled with")
    if ok:
        prod = v.value.func.value
        i = pyfe.src(st[0].targets[0].slice)
        okp = isinstance(prod, ast.BinOp) and isinstance(prod.op, ast.Mult) and \
            {pyfe.src(prod.left), pyfe.src(prod.right)} == {"cell_species_density", "cell_vol.get_at(%s)" % i}
        ctx.check(okp, R, prod, f._qual, pyfe.src(prod), "density of the cell's environment x volume of the same cell",
                  "not density x volume of cell %s" % i)
    rets = [r for r in ast.walk(f) if isinstance(r, ast.Return)]
    ctx.check(len(rets) == 1 and pyfe.src(rets[0].value).replace(" ", "") ==
              "UnitArray(state,Units(units_system,quantity_units_dimensions()))", R, rets[0], f._qual, pyfe.src(rets[0]),
              "labelled with the same units system, as an amount", "labelled with another system / dimension")
    g = py.fn("rdsystem.generate_system_state")
    rets = [r for r in ast.walk(g) if isinstance(r, ast.Return)]
    src = pyfe.src(rets[0].value).replace(" ", "") if rets else ""
    ctx.check(src.startswith("UnitArray(state,Units(units_system,"), R, rets[0] if rets else g, g._qual, src[:80],
              "whole state labelled with the units system the blocks were converted to", "")
    ov = [c for c in pyfe.calls_in(g) if isinstance(c.func, ast.Attribute) and c.func.attr == "convert"]
    ctx.check(len(ov) == 1 and pyfe.src(ov[0].args[0]) == "units_system", R, ov[0] if ov else g, g._qual,
              "override blocks converted to units_system", "", "override blocks not converted")
    h = py.fn("rdsystem.RDSystem.set_default_state")
    c = [x for x in pyfe.calls_in(h) if pyfe.call_name(x) == "generate_system_state"]
    ctx.check(len(c) == 1 and [pyfe.src(a) for a in c[0].args[:2]] == ["self.network", "self.space"], R, h, h._qual,
              pyfe.src(c[0])[:90] if c else "?", "regenerated from the live network and space (no cache)", "")
    ctx.floor(R, 6)


def rule_env(ctx, py):
    R = "C13.ENV"
    f = py.fn("value_processing.get_value_in_env")
    found = []

    truthy = []

    def expand(e, facts):
        """`value.get(K, D)` is `value[K] if K in value else D`; `A or B` selects on truthiness, not on membership"""
        if isinstance(e, ast.Call) and isinstance(e.func, ast.Attribute) and e.func.attr == "get" and \
                pyfe.src(e.func.value) == "value" and 1 <= len(e.args) <= 2 and not e.keywords:
            k = pyfe.src(e.args[0])
            out = [("value[%s]" % k, facts | {("%s in value" % k, True)})]
            rest = facts | {("%s in value" % k, False)}
            if len(e.args) == 2:
                out += expand(e.args[1], rest)
            else:
                out.append(("None", rest))
            return out
        if isinstance(e, ast.BoolOp) and isinstance(e.op, ast.Or):
            truthy.append(e)
            return [(pyfe.src(e), facts)]
        if isinstance(e, ast.IfExp):
            return expand(e.body, facts | set(pya.atoms(e.test, True))) + expand(e.orelse, facts | set(pya.atoms(e.test, False)))
        return [(pyfe.src(e), facts)]

    class C(pya.PyFacts):
        def ret(self, s, cfg):
            for r_, fc in expand(s.src.value, set(cfg)):
                found.append((r_, frozenset(fc)))
    ir.Engine(C(), "must").run(ir.py_to_ir(f.body))
    for e in truthy:
        ctx.violation(R, e, f._qual, pyfe.src(e)[:80], "the entry is selected by truthiness (`or`), not by membership: a falsy "
                      "entry of the environment (0, False, a zero amount) falls through to 'default'")
    want = {"value[environment]": [("isdict(value)", True), ("environment in list(value)", True)],
            "value['default']": [("isdict(value)", True), ("environment in list(value)", False),
                                 ("'default' in list(value)", True)],
            "default": [("isdict(value)", True), ("environment in list(value)", False),
                        ("'default' in list(value)", False)],
            "value": [("isdict(value)", False)]}
    got = {r: c for r, c in found}
    if truthy:
        return
    ctx.need(set(got) == set(want), R, "get_value_in_env: returns %s not recognised" % sorted(got))
    for r, need in want.items():
        alt = [(a.replace("list(value)", "value"), p) for a, p in need]
        ok = all(x in got[r] for x in need) or all(x in got[r] for x in alt)
        ctx.check(ok, R, f, f._qual, "return %s" % r, "under %s" % need,
                  "the fallback order (environment, then 'default', then the given default) is changed")
    ctx.floor(R, 4)


def rule_groupkey(ctx, py):
    """C13.GROUPKEY -- a per-environment dictionary may group labels in one key ("cyt, mem": value): each label of the group is
    stripped of its surrounding blanks on its own before it becomes a key, otherwise the 2nd, 3rd ... labels keep a leading blank
    and never match an environment (those cells silently fall back to 'default')"""
    R = "C13.GROUPKEY"
    from .. import pysym
    f = py.fn("value_processing.process_unitvar_input")
    n = 0
    defs = pysym.local_defs(f)

    def chain(e, depth=0):
        """(split call or None, stripped?, filters) of an iterable given through locals and comprehensions"""
        if depth > 6:
            return None, False, []
        if isinstance(e, ast.Name) and isinstance(defs.get(e.id), ast.AST):
            return chain(defs[e.id], depth + 1)
        if isinstance(e, (ast.ListComp, ast.GeneratorExp)) and len(e.generators) == 1 and isinstance(e.generators[0].target, ast.Name):
            g = e.generators[0]
            base, st_, fl = chain(g.iter, depth + 1)
            v_ = g.target.id
            el = e.elt
            if isinstance(el, ast.Call) and isinstance(el.func, ast.Attribute) and el.func.attr == "strip" and not el.args and \
                    isinstance(el.func.value, ast.Name) and el.func.value.id == v_:
                st_ = True
            elif not (isinstance(el, ast.Name) and el.id == v_):
                return None, False, []
            return base, st_, fl + [pyfe.src(c_) for c_ in g.ifs]
        if isinstance(e, ast.Call) and isinstance(e.func, ast.Name) and e.func.id in ("list", "tuple") and len(e.args) == 1:
            return chain(e.args[0], depth + 1)
        if isinstance(e, ast.Call) and isinstance(e.func, ast.Attribute) and e.func.attr == "split" and e.args and \
                isinstance(e.args[0], ast.Constant) and e.args[0].value == ",":
            return e, False, []
        return None, False, []
    for lp in [x for x in ast.walk(f) if isinstance(x, ast.For) and isinstance(x.target, ast.Name)]:
        base, pre_stripped, filters = chain(lp.iter)
        if base is None:
            continue
        t = pyfe.src(base).replace(" ", "")
        var = lp.target.id
        for st in ast.walk(lp):
            if isinstance(st, ast.Assign) and isinstance(st.targets[0], ast.Subscript) and var in pyfe.src(st.targets[0].slice):
                key = pysym.isrc(st.targets[0].slice, f, stop={var}).replace(" ", "")
                n += 1
                ctx.check(pre_stripped or key == "%s.strip()" % var, R, st, f._qual, "key %s for %s in %s" % (key, var, t[:40]),
                          "each label of a grouped key stripped on its own", "the labels of a grouped key are used as `%s` (group "
                          "split as `%s`): blanks after the commas stay in the 2nd and later labels, which then match no "
                          "environment" % (key, t[:50]))
                ctx.check(not filters, R, st, f._qual, "every piece of the group becomes a key", "no piece is filtered out",
                          "pieces of a grouped key are dropped under `%s`: a label that the filter rejects (the empty label is the "
                          "name of the default unnamed environment) loses its value, those cells silently fall back to "
                          "'default'" % (filters[0] if filters else ""))
    ctx.floor(R, 4)


def rule_regen(ctx, py):
    """C13.REGEN -- regenerating the defaults reflects an edit of a species: the system holds the network object it was given
    (the user's Species objects are the ones it reads), the getter hands out that same object, and the default generators read
    `self.network` when they are called (nothing about densities or flags is kept from construction)."""
    R = "C13.REGEN"
    st_ = py.fn("rdsystem.RDSystem.network.setter")
    v = [p_ for p_ in pyfe.params(st_) if p_ != "self"][0]
    stores = [n for n in ast.walk(st_) if isinstance(n, ast.Assign) and pyfe.src(n.targets[0]).startswith("self._")]
    ctx.need(stores, R, "network setter: no store into self")
    for n in stores:
        ctx.check(pyfe.src(n.value) == v, R, n, st_._qual, pyfe.src(n), "the network object itself is kept", "the system keeps `%s` "
                  "instead of the network it was given: a later edit of a species (density, chemostat flag) made through the "
                  "user's objects is not seen when the default state / chemostat map are regenerated" % pyfe.src(n.value)[:40])
    attr = pyfe.src(stores[0].targets[0])
    gt = py.fn("rdsystem.RDSystem.network")
    rets = [r for r in ast.walk(gt) if isinstance(r, ast.Return) and r.value is not None]
    ctx.check(len(rets) == 1 and pyfe.src(rets[0].value) == attr, R, rets[0] if rets else gt, gt._qual,
              "return %s" % (pyfe.src(rets[0].value) if rets else "?"), "the getter hands out the held network itself",
              "`system.network` is not the network the system reads: editing `system.network.species[i]` changes a copy")
    for q in ("rdsystem.RDSystem.set_default_state", "rdsystem.RDSystem.set_default_chemostats"):
        f = py.fn(q)
        gens = [c for c in pyfe.calls_in(f) if pyfe.call_name(c).startswith("generate_system_")]
        ctx.need(len(gens) == 1, R, "%s: generator call not found" % q)
        a0 = gens[0].args[0] if gens[0].args else next((k.value for k in gens[0].keywords if k.arg == "network"), None)
        ctx.check(a0 is not None and pyfe.src(a0) in ("self.network", attr), R, gens[0], q, pyfe.src(gens[0])[:70],
                  "generated from the system's current network", "the defaults are not generated from the network the system "
                  "holds now")
    ctx.floor(R, 4)


def run(ctx):
    py = ctx.py
    rule_regen(ctx, py)
    rule_index(ctx, py)
    rule_tag(ctx, py)
    rule_concat(ctx, py)
    rule_env(ctx, py)
    n0 = len(ctx.insts)
    rule_radix_py(ctx, py)
    for i in ctx.insts[n0:]:
        i.rule = "C13.RADIX"
    ctx.floors = {k: v for k, v in ctx.floors.items() if k.startswith("C13")}
    # set_state / set_at convert the given amount into the stored units, not the other way round
    from . import c06
    c06.rule_convert_args(ctx, ctx.py, "C13.CONVERT")
    rule_groupkey(ctx, ctx.py)
    # the volume of a node is read in the units its own level declares (shared with C04.INHERIT)
    from ..core import borrow as _b
    from . import c04 as _c04
    _b(ctx, "C13", _c04.rule_inherit, ctx.py, "C13.INHERIT")
    # shared clauses: cell index of a position (C15.RADIX / ENT) and the ctypes hand-over of state and chemostat map
    from ..core import borrow
    from . import c15
    borrow(ctx, "C13", c15.rule_ent, ctx.py)
    from .. import ffi
    ffi.rule_sig(ctx, "C13.FFI", only={"mesh_state", "mesh_chstt"})
    from .. import lints
    lints.run(ctx, "C13", ctx.py, ["rdsystem", "value_processing", "rdnetwork", "rdgridspace", "rdgraphspace"], truth_floor=30)
    ctx.assume("the values themselves are not decided; environment indices are range-checked by C20.EXTIDX")
