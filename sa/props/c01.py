"""C01 -- deterministic rate law: the tables, dimensions and sibling formulas through which all implementations
realise the law agree.  Decides: ctypes signature and buffer extents, one layout per table on both sides of the
boundary, dimensional homogeneity with the forced volume exponent, equality of the four interface-diffusivity
formulas as rational functions, the two-phase Euler update, the environment lookup discipline, the structure of
the Python siblings.  Does not decide the numbers (agreement to rounding)."""
import ast

from .. import cxfe, cxa, idx as idxmod, ffi, dim, sib, upd, pyfe, pya, pykind
from ..cxfe import kids, strip, walk, text, subscript, uname, call_parts
from ..core import AnalysisError
from ..poly import Poly
from .c15 import py_poly

# expected layouts (fastest index first), table -> kinds;  one line of reason each
CX_LAYOUT = {
    "k": ["reaction", "env"],          # [env][reaction]: built env-major by build_reaction_rate_constant_matrix
    "sub": ["reaction", "species"],    # [species][reaction]
    "sto": ["reaction", "species"],
    "D": ["env", "species"],           # [species][env]
    "mesh_kr": ["reaction", "cell"],   # [cell][reaction]
    "mesh_x": ["species", "cell"], "mesh_dxdt": ["species", "cell"], "mesh_chstt": ["species", "cell"],
}


def rule_layout(ctx, tu, I, py):
    R = "C01.LAYOUT"
    seen = {}
    for r in I.subs:
        if r["inner"] or not r["layout"] or r["status"] != "ok":
            continue
        lay = [k[0] for k in r["layout"]]
        if lay and lay[0] in ("flat", "lit"):
            continue
        t = r["table"]
        if t in CX_LAYOUT:
            ctx.check(lay == CX_LAYOUT[t], R, r["node"], r["fn"], r["text"], "[%s] (slowest first)" % "][".join(reversed(lay)),
                      "table %s is addressed as [%s], its layout is [%s]" % (t, "][".join(reversed(lay)),
                                                                            "][".join(reversed(CX_LAYOUT[t]))))
        seen.setdefault((r["root"], t), set()).add(tuple(lay))
    for (root, t), lays in sorted(seen.items()):
        if len(lays) > 1:
            ctx.violation(R, None, root, "table %s" % t, "addressed with different layouts %s" % sorted(lays))
    # 3D diffusion table and its ragged graph twins
    for r in I.subs:
        if r["table"] == "mesh_kd" and r["layout"]:
            ctx.check([k[0] for k in r["layout"]] == ["dir6", "species", "cell"], R, r["node"], r["fn"], r["text"],
                      "[cell][species][direction]", "mesh_kd addressed with another layout")
        if r["table"] in ("mesh_kd_out", "mesh_kd_in") and r["inner"] and r["layout"]:
            ctx.check([idxmod.kstr(k) for k in r["layout"]] == ["nbr(@)", "species"], R, r["node"], r["fn"], r["text"],
                      "[cell][species][neighbour slot of that cell]", "ragged diffusion table addressed with another layout")
    # Python builders: the same layouts
    from .. import pysym
    want = {"librdengine.build_substrate_stoechiometric_matrix": ("species", "reactions"),
            "librdengine.build_stoechiometric_difference_matrix": ("species", "reactions"),
            "librdengine.build_diff_coef_environment_matrix": ("species", "environments")}
    for q, (slow, fast) in want.items():
        f = py.fn(q)
        st = [n for n in ast.walk(f) if isinstance(n, ast.Assign) and isinstance(n.targets[0], ast.Subscript)]
        ctx.need(len(st) == 1, R, "%s: element store not found" % q)
        loops = {pysym.isrc(n.iter, f): pyfe.src(n.target) for n in ast.walk(f) if isinstance(n, ast.For)}
        a_, b_ = loops.get("range(len(%s))" % slow), loops.get("range(len(%s))" % fast)
        ctx.check(a_ is not None and b_ is not None, R, f, q, "loops over %s and %s" % (slow, fast), "", "loops changed: %s" % loops)
        if a_ is None or b_ is None:
            continue
        got = pysym.frat(st[0].targets[0].slice, f)
        w = pysym.rat(ast.parse("%s * len(%s) + %s" % (a_, fast, b_), mode="eval").body)
        ctx.check(got.equals(w), R, st[0], q, pyfe.src(st[0].targets[0]), "[%s][%s]" % (slow, fast),
                  "Python builds the table as %r, the engine reads [%s][%s]" % (got, slow, fast))
    f = py.fn("librdengine.build_reaction_rate_constant_matrix")
    loops = [n for n in ast.walk(f) if isinstance(n, ast.For)]
    ok = len(loops) == 2 and pyfe.src(loops[0].iter) == "environments" and pyfe.src(loops[1].iter) == "reactions" and \
        loops[1] in ast.walk(loops[0])
    if not loops:
        # the same nesting written as one comprehension: the first generator is the slow index
        comps = [n for n in ast.walk(f) if isinstance(n, ast.ListComp) and len(n.generators) == 2]
        ok = len(comps) == 1 and [pyfe.src(g.iter) for g in comps[0].generators] == ["environments", "reactions"] and \
            not any(g.ifs for g in comps[0].generators)
    ctx.check(ok, R, f, f._qual, "km built by `for env: for r: append`", "[env][reaction]", "rate-constant table is not built "
              "environment-major")
    ap = [c for c in pyfe.calls_in(f) if pyfe.call_name(c) == "km.append"]
    entry, rv, ev = (ap[0].args[0], pyfe.src(loops[1].target), pyfe.src(loops[0].target)) if ap and len(loops) == 2 else (None, "r", "env")
    if not loops and ok:
        entry, ev, rv = comps[0].elt, pyfe.src(comps[0].generators[0].target), pyfe.src(comps[0].generators[1].target)
    s = pyfe.src(entry).replace(" ", "") if entry is not None else ""
    ctx.check(s.startswith("valproc.get_value_in_env(%s.kf,%s,UnitValue(0,Units(units_system,%s.kf_units_dimensions())))"
                           % (rv, ev, rv)) and
              s.endswith(".convert(units_system).value"), R, ap[0] if ap else f, f._qual, "entry = kf of r in env (0 with the right "
              "dimension when absent), converted", "", "entry is not the forward constant of reaction r in environment env")
    ctx.floor(R, 75)      # coverage guard: merged duplicate subscripts lower the count without losing a table


def two_phase_calls(body, first, second):
    """(ok, explanation): in `body` the member functions `first` and `second` are each called exactly once, outside every loop,
    `first` before `second` -- the whole first pass is finished before the second one starts"""
    sites = []

    def rec(n, depth):
        if n is None:
            return
        k = n.get("kind")
        if k == "CXXMemberCallExpr":
            cp = call_parts(n)
            if cp and cp[0] in (first, second):
                sites.append((cp[0], depth))
        d2 = depth + (1 if k in ("ForStmt", "WhileStmt", "DoStmt", "CXXForRangeStmt") else 0)
        for c in n.get("inner", []) or []:
            if c:
                rec(c, d2)
    rec(body, 0)
    names = [s_[0] for s_ in sites]
    if names.count(first) != 1 or names.count(second) != 1:
        return False, "%s is called %d times and %s %d times" % (first, names.count(first), second, names.count(second))
    if any(d for _, d in sites):
        return False, "the two passes are called inside a loop (interleaved over parts of the system)"
    if names.index(first) > names.index(second):
        return False, "%s is called after %s" % (first, second)
    return True, ""


def dir_skips(ctx, R, fn, sites, wr=lambda a: a, also=()):
    """every test that can skip one of `sites` (statement nodes) inside the innermost loop around it is `neighbour == -1` (or the
    cell itself), the entry's chemostat flag, or one of the patterns in `also`; conditions that yield no single flow fact
    (`if(a && b) continue;`) are judged on their atoms"""
    import re as _re2
    for lp in [x for x in walk(fn.body) if x.get("kind") in ("ForStmt", "WhileStmt")]:
        body_ = cxfe.raw_kids(lp)[-1]
        if not any(any(y is nd for y in walk(body_)) for nd in sites):
            continue
        if any(x.get("kind") in ("ForStmt", "WhileStmt") and any(any(y is nd for y in walk(x)) for nd in sites)
               for x in walk(body_) if x is not body_):
            continue          # not the innermost loop around the term
        for iff in [x for x in walk(body_) if x.get("kind") == "IfStmt"]:
            parts = cxfe.raw_kids(iff)
            skips = any(y.get("kind") in ("ContinueStmt", "BreakStmt", "ReturnStmt") for y in walk(parts[1])) or \
                any(any(y is nd for y in walk(iff)) for nd in sites)
            if not skips:
                continue
            # judged on the leaves of the condition (what && || ! combine), so that an opaque sub-condition is not overlooked
            def leaves(c_):
                c_ = strip(c_, casts=True)
                if c_.get("kind") == "BinaryOperator" and c_.get("opcode") in ("&&", "||"):
                    return leaves(kids(c_)[0]) + leaves(kids(c_)[1])
                if c_.get("kind") == "UnaryOperator" and c_.get("opcode") == "!":
                    return leaves(kids(c_)[0])
                return [c_]
            lv = [wr(cxa.canon(l_)) for l_ in leaves(parts[0])]
            lv = [a[1:-1] if a.startswith("(") and a.endswith(")") and a.count("(") == 1 else a for a in lv]
            okc = bool(lv) and all(_re2.match(r"^mesh_neighbors\[[^\]]*\] (==|!=) (-1|[a-z])$", a) or
                                   _re2.match(r"^(-1|[a-z]) (==|!=) mesh_neighbors\[[^\]]*\]$", a) or a.startswith("mesh_chstt[") or
                                   any(_re2.match(p_, a) for p_ in also) for a in lv)
            ctx.check(okc, R, iff, fn.qual, "test inside the direction loop: %s" % text(parts[0])[:60],
                      "`neighbour != -1` (or the cell itself)", "the exchange with a neighbour is skipped under `%s`: a face "
                      "between two cells is left out (two cells of a periodic axis of length 2 share two faces; the neighbour "
                      "table alone says which cells exchange)" % text(parts[0])[:70])


def nbr_locals(fn):
    """writes `int j = mesh_neighbors[..]` out in a fact text"""
    import re as _re2
    inits = {}
    for v_ in walk(fn.body):
        if v_.get("kind") == "VarDecl" and kids(v_) and "int" in v_.get("type", {}).get("qualType", ""):
            try:
                inits[str(uname(v_))] = cxa.canon(kids(v_)[-1])
            except Exception:
                pass
    return lambda a: _re2.sub(r"[A-Za-z_][A-Za-z_0-9']*", lambda m_: inits.get(m_.group(0), m_.group(0))
                              if m_.group(0) in inits and inits[m_.group(0)].startswith("mesh_neighbors[") else m_.group(0), a)


def rule_phase(ctx, tu, eff, R="C01.PHASE"):
    for cn in ("Euler3D", "EulerGraph"):
        c = tu.classes[cn]
        comp, app = c.methods.get("Compute_dxdt"), c.methods.get("Apply_dxdt")
        ctx.need(comp is not None, R, "%s::Compute_dxdt not found" % cn)
        w = eff.writes(comp.qual)
        ctx.check("f:mesh_x" not in w, R, comp.node, comp.qual, "Compute_dxdt and its callees do not write the state",
                  "every derivative is computed from the state of the previous step", "the derivative pass modifies the state "
                  "it reads: later entries see a partially updated state, what one cell loses is no longer what its neighbour "
                  "gains within the step")
        if app is None:
            ctx.violation(R, c.node, cn, "no separate update pass (Apply_dxdt)", "the explicit Euler step needs all derivatives of "
                          "the old state before any entry is updated")
            continue
        ups = upd.summaries(app, {"mesh_x"})
        ctx.need(len(ups) >= 1, R, "%s: the state update not found" % app.qual)
        # the update pass stores each entry once: a second store (a clamp, a correction) makes the step something other than
        # x + dt * f(x)
        for extra_ in ups[1:]:
            ctx.violation(R, extra_.node, app.qual, text(extra_.node)[:70], "the update pass writes the state a second time: one "
                          "step of the engine is no longer x + dt * f(x) (an entry is clamped / corrected after the update, "
                          "matter is created or removed)")
        u = ups[0]
        from ..poly import Rat
        from . import c02
        got = c02.expr_rat(u.rhs, {}) if u.rhs is not None else None
        want = Rat.sym("mesh_dxdt[%r]" % (u.index,)) * Rat.sym("dt")
        ctx.check(u.op == "+=" and got is not None and got.equals(want), R, u.node, app.qual, text(u.node), "x[I] += dxdt[I] * dt "
                  "with the identical index", "the Euler update is not x[I] += dxdt[I]*dt at one index")
        it = c.methods["Iterate"]
        calls = [call_parts(x)[0] for x in walk(it.body) if x.get("kind") == "CXXMemberCallExpr"]
        ok2, why2 = two_phase_calls(it.body, "Compute_dxdt", "Apply_dxdt")
        ctx.check(ok2, R, it.node, it.qual, "Compute_dxdt before Apply_dxdt", "all derivatives first, then the update",
                  "Iterate does not run the whole derivative pass before the update pass (%s)" % (why2 or calls))
        # the derivative: reactions  += sto[s,r] * rate(i,r) ; diffusion  -= flux difference(i,s,n)
        ds = upd.summaries(comp, {"mesh_dxdt"})
        kinds = sorted((u.op, (call_parts(u.rhs) or ("",))[0] if u.rhs is not None and call_parts(u.rhs) else
                        ("sto*rate" if u.rhs is not None and "sto" in cxa.canon(u.rhs) else cxa.canon(u.rhs) if u.rhs else ""))
                       for u in ds)
        ctx.check(kinds == [("+=", "sto*rate"), ("-=", "DiffusionRateDifference"), ("=", "0")], R, comp.node, comp.qual,
                  "dxdt = 0; += sto*rate; -= (outflow - inflow)", "signs of the reaction and diffusion terms",
                  "terms of the derivative changed: %s" % kinds)
        rr = [s for s in cxa.all_stores(comp.body) if s.base and s.base[1].startswith("rr")]
        ok = len(rr) == 1 and call_parts(rr[0].rhs) and call_parts(rr[0].rhs)[0] == "ReactionRate"
        ctx.check(ok, R, rr[0].node if rr else comp.node, comp.qual, "rr[r] = ReactionRate(i, r)", "rates of this cell", "")
        # every reaction's rate is evaluated in every cell: the store stands under the loop bounds only (a zero-order reaction
        # has a rate in an empty cell; a shortcut on the cell's content leaves it out)
        if rr:
            at = []

            def on_rate(node, facts, at=at):
                for s_ in cxa.stores_of_node(node):
                    if s_.base and s_.base[1].startswith("rr"):
                        at.append(set(facts))
            cxa.canon_facts(comp.body, on_atom=on_rate)
            import re as _re
            extra = sorted(str(a) for fs in at for a, pol in fs if isinstance(a, str) and
                           not _re.match(r"^(0 <= )?[A-Za-z_']+\d* (<|<=) (n_\w+|[A-Za-z_']+)$", a) and
                           not _re.match(r"^0 <= \w+", a))
            ctx.check(at and not extra, R, rr[0].node, comp.qual, "rates computed for every reaction of every cell",
                      "unconditional inside the cell / reaction loops", "the reaction rates of a cell are skipped under `%s`: "
                      "reactions whose rate does not vanish there (zero-order reactions in an empty cell) are left out of the "
                      "derivative" % (extra[0] if extra else "?"))
        # every face contributes: the diffusion term of (cell, species) is subtracted for every direction that has a neighbour.
        # The only conditions it may stand under are the loop bounds, this entry's chemostat flag and `neighbour != -1`; a test
        # that compares the neighbour with the cell or with another direction's neighbour drops one of the two faces a pair of
        # cells shares on a periodic axis of two cells
        at2 = []

        def on_diff(node, facts, at2=at2):
            for s_ in cxa.stores_of_node(node):
                if s_.op == "-=" and s_.base and s_.base[1].startswith("mesh_dxdt"):
                    at2.append((node, set(facts)))
        cxa.canon_facts(comp.body, on_atom=on_diff)
        import re as _re2
        inits = {}
        for v_ in walk(comp.body):
            if v_.get("kind") == "VarDecl" and kids(v_) and "int" in v_.get("type", {}).get("qualType", ""):
                try:
                    inits[str(uname(v_))] = cxa.canon(kids(v_)[-1])
                except Exception:
                    pass
        wr = lambda a: _re2.sub(r"[A-Za-z_][A-Za-z_0-9']*", lambda m_: inits.get(m_.group(0), m_.group(0))
                                if m_.group(0) in inits and inits[m_.group(0)].startswith("mesh_neighbors[") else m_.group(0), a)
        for node_, fs in at2:
            fs = {(wr(a) if isinstance(a, str) else a, pol) for a, pol in fs}      # `int j = mesh_neighbors[..]` written out
            extra = sorted(str(a) for a, pol in fs if isinstance(a, str) and
                           not _re2.match(r"^(0 <= )?[A-Za-z_']+\d* (<|<=) (n_\w+|\d+|mesh_neighbor_n\[\w+\]|[A-Za-z_']+)$", a) and
                           not _re2.match(r"^0 <= \w+", a) and not a.startswith("mesh_chstt[") and
                           not (_re2.match(r"^mesh_neighbors\[[^\]]*\] == (-1|[a-z])$", a) and pol is False))
            ctx.check(not extra, R, node_, comp.qual, "diffusion term applied for every direction with a neighbour",
                      "under the loop bounds, the chemostat flag and `neighbour != -1` only", "the exchange with a neighbour is "
                      "skipped under `%s`: a face between two cells is left out of the derivative (two cells of a periodic axis "
                      "of length 2 share two faces)" % (extra[0] if extra else "?"))
        ctx.need(at2, R, "%s: the diffusion term of the derivative not found" % comp.qual)
        dir_skips(ctx, R, comp, [nd for nd, _ in at2], wr)
    for b in ("SimulationAlgorithm3DBase", "SimulationAlgorithmGraphBase"):
        f = tu.fn(b + "::ReactionRate")
        ps = f.param_names()
        S = Poly.sym
        mul0 = [s_ for s_ in cxa.all_stores(f.body) if s_.op == "*="]
        accname = mul0[0].base[1] if mul0 and mul0[0].base else None
        init = ([n for n in walk(f.body) if n.get("kind") == "VarDecl" and kids(n) and uname(n) == accname] or
                [n for n in walk(f.body) if n.get("kind") == "VarDecl" and kids(n)])[0]     # the accumulator's declaration
        ctx.check(cxa.canon(kids(init)[-1]) == "mesh_kr[%r]" % (S(ps[0]) * S("n_reactions") + S(ps[1])), R, init, f.qual,
                  text(init)[:60], "volume-scaled constant of (cell, reaction)", "")
        mul = [s for s in cxa.all_stores(f.body) if s.op == "*="]
        loopv = [uname(strip(kids(strip(cxa.for_parts(n)[1]))[0], casts=True)) for n in walk(f.body) if n.get("kind") == "ForStmt"]
        ok = len(mul) == 1 and len(loopv) == 1
        if ok:
            sv = loopv[0]
            want = "pow(mesh_x[%r], sub[%r])" % (S(ps[0]) * S("n_species") + S(sv), S(sv) * S("n_reactions") + S(ps[1]))
            ok = cxa.canon(mul[0].rhs) == want
        ctx.check(ok, R, mul[0].node if mul else f.node, f.qual, text(mul[0].node)[:80] if mul else "?", "product over species of "
                  "amount ^ reactant coefficient of this reaction", "the mass-action product is not x[cell,s] ^ sub[s,reaction]")
        # every species contributes its factor: the only condition a factor may be skipped under is that its own exponent is 0
        if mul and len(loopv) == 1:
            recs = []

            def on_atom(node, facts, recs=recs):
                for s_ in cxa.stores_of_node(node):
                    if s_.op == "*=":
                        recs.append(facts)
            cxa.canon_facts(f.body, on_atom=on_atom)
            own = "sub[%r]" % (S(loopv[0]) * S("n_reactions") + S(ps[1]))
            extra = sorted(str(a) for fs in recs for a, pol in fs if isinstance(a, str) and not a.startswith(own) and
                           not a.startswith(loopv[0] + " <") and not a.startswith("0 <= " + loopv[0]))
            ctx.check(recs and not extra, R, mul[0].node, f.qual, "every species' factor is applied", "unconditional (or skipped "
                      "only where the reactant coefficient itself is 0)", "a species' factor is skipped under `%s`: a reactant "
                      "whose amount must enter the rate (for instance a catalyst with zero net change) is left out"
                      % (extra[0] if extra else "?"))
    ctx.floor(R, 14)


def rule_env(ctx, tu, py, I):
    R = "C01.ENV"
    # engine: k and D are subscripted with the environment *index* of the cell
    for r in I.subs:
        if r["table"] in ("k", "D") and r["layout"]:
            t = cxa.canon(r["node"])
            ctx.check("mesh_env[" in t, R, r["node"], r["fn"], r["text"], "environment index of the cell selects the row",
                      "the environment dimension is not addressed with mesh_env[cell]")
    # Python: get_value_in_env receives a label (an element of network.environments), never an index
    n = 0
    for f in py.all_funcs():
        for c in pyfe.calls_in(f):
            if pyfe.call_name(c).endswith("get_value_in_env"):
                e = pyfe.arg(c, 1, "environment")
                ok = False
                src = pyfe.src(e)
                if isinstance(e, ast.Name):
                    d = pykind.single_def(f, e.id)
                    lk = None
                    p = pyfe.parent(c)
                    while p is not None and p is not f:
                        if isinstance(p, ast.For) and pyfe.src(p.target) == e.id:
                            lk = pyfe.src(p.iter)
                        if isinstance(p, (ast.ListComp, ast.GeneratorExp, ast.SetComp, ast.DictComp)):
                            for g_ in p.generators:
                                if pyfe.src(g_.target) == e.id:
                                    lk = pyfe.src(g_.iter)
                        p = pyfe.parent(p)
                    if d is not None and ".environments[" in pyfe.src(d):
                        ok = True
                    elif lk in ("environments", "keys"):
                        ok = True
                    elif e.id == "environment" and "environment" in pyfe.params(f):
                        ok = True
                elif ".environments[" in src or src.startswith("environments["):
                    ok = True
                n += 1
                ctx.check(ok, R, c, f._qual, "get_value_in_env(..., %s, ...)" % src[:40], "an environment label",
                          "the per-environment dictionary is looked up with %s, which is not an environment label" % src)
    ctx.need(n >= 8, R, "only %d get_value_in_env calls found" % n)
    from . import c13
    n0 = len(ctx.insts)
    c13.rule_env(ctx, py)
    for i in ctx.insts[n0:]:
        i.rule = R
    ctx.floors.pop("C13.ENV", None)
    ctx.floor(R, 16)


def rule_py_siblings(ctx, py):
    """the Python siblings of the engine's law, compared as rational normal forms (locals inlined, + and * commutative)"""
    R = "C01.PY"
    from .. import pysym
    from ..poly import Rat
    P = lambda t: ast.parse(t, mode="eval").body
    f = py.fn("kinetics.compute_reaction_rates")
    loops = [n for n in ast.walk(f) if isinstance(n, ast.For)]
    ctx.need(len(loops) == 1 and pysym.isrc(loops[0].iter, f) == "range(system.network.nspecies())", R,
             "compute_reaction_rates: species loop not found")
    iv = pyfe.src(loops[0].target)
    for side, v, k, sto in (("forward", "rf", "kf", "ssto"), ("reverse", "rr", "kr", "psto")):
        init = [st for st in f.body if isinstance(st, ast.Assign) and pyfe.src(st.targets[0]) == v]
        ctx.need(len(init) == 1, R, "compute_reaction_rates: initial value of %s not found" % v)
        got0 = pysym.frat(init[0].value, f, stop={v})
        want0 = pysym.frat(P("valproc.get_value_in_env(reaction.%s, environment_label, UnitValue(0, Units(units_system, "
                             "reaction.%s_units_dimensions()))) * volume" % (k, k)), f)
        ctx.check(got0.equals(want0), R, init[0], f._qual, "%s starts as k%s[environment of the cell] * volume of the cell" %
                  (v, "+" if k == "kf" else "-"), "", "the %s rate does not start from the constant of the cell's environment "
                  "times the cell volume (%r)" % (side, got0))
        try:
            step = pysym.one_iteration(loops[0].body, f, v)
        except pysym.NotModelled as e:
            ctx.error(R, "compute_reaction_rates: %s" % e)
        wants = pysym.frat(P("(state.get_at(system.get_state_index(species=%s, position=position_index)) / volume) ** "
                             "reaction.%s(system.network.species_labels())[%s]" % (iv, sto, iv)), f)
        ctx.check(step.equals(Rat.sym("ACC") * wants), R, loops[0], f._qual, "%s *= (x_i / V) ** %s[i] for every species" % (v, sto),
                  "mass action on concentrations", "per species the %s rate is multiplied by %r, expected (amount / volume) ** "
                  "coefficient of that species" % (side, step))
    ctx.check(pysym.isrc(P("volume"), f) == "system.space.get_cell_vol_array().get_at(system.get_cell_index(position))" and
              pysym.isrc(P("environment_label"), f) ==
              "system.network.environments[system.space.get_cell_env_array()[system.get_cell_index(position)]]", R, f, f._qual,
              "volume and environment of the same cell", "", "volume / environment taken from another cell")
    for q in ("kinetics._compute_dspeciesdt_grid", "kinetics._compute_dspeciesdt_graph"):
        g = py.fn(q)
        incs = pysym.increments(g, "d")
        calls = {}
        for c in ast.walk(g):
            if isinstance(c, ast.Call) and pyfe.src(c.func) in ("compute_reaction_rates", "compute_diffusion_rates"):
                calls.setdefault(pyfe.src(c.func), []).append(c)
        ctx.need(all(len(calls.get(k, ())) == 1 for k in ("compute_reaction_rates", "compute_diffusion_rates")), R,
                 "%s: the calls of compute_reaction_rates / compute_diffusion_rates not found once each" % q)
        cr, cd = pyfe.src(calls["compute_reaction_rates"][0]), pyfe.src(calls["compute_diffusion_rates"][0])
        # the pair each call returns is followed through whatever locals hold it (rates[0], or rf, rr = ...)
        w1 = pysym.frat(P("((%s)[0] - (%s)[1]) * (reaction.get_product_stoichiometry(species_label) - "
                          "reaction.get_substrate_stoichiometry(species_label))" % (cr, cr)), g, stop={"d"})
        w2 = pysym.frat(P("(%s)[1] - (%s)[0]" % (cd, cd)), g, stop={"d"})
        got = [v for _, v in [(st, pysym.frat(st.value, g, stop={"d"})) for st, _ in incs
                              if isinstance(st, ast.AugAssign)]] + \
              [v for st, v in incs if not isinstance(st, ast.AugAssign)]
        ok1 = any(v.equals(w1) for v in got)
        ok2 = any(v.equals(w2) for v in got)
        ctx.check(ok1 and len(got) == 2, R, g, q, "reactions: d += (forward - reverse) * (products - reactants)", "",
                  "net reaction term changed: %s" % [repr(v)[:80] for v in got])
        ctx.check(ok2 and len(got) == 2, R, g, q, "diffusion: d += inflow - outflow per neighbour", "", "diffusion term changed: %s"
                  % [repr(v)[:80] for v in got])
    h = py.fn("kinetics.compute_diffusion_rates")
    rets = [r for r in ast.walk(h) if isinstance(r, ast.Return) and isinstance(r.value, ast.Tuple)]
    ctx.need(len(rets) == 2, R, "compute_diffusion_rates: the two returning branches not found")
    for r, (kf_, kr_) in zip(rets, (("kf", "kr"), ("k", "k"))):
        e0, e1 = r.value.elts
        import re as _re

        class _Keep(set):           # a helper's local renamed at inlining (`x__h2`) is that local
            def __contains__(self_, k_):
                return set.__contains__(self_, _re.sub(r"__h\d+$", "", k_))
        keep = _Keep({"kf", "kr", "k", "state", "src_state_index", "dst_state_index", "units_system"})
        s0, s1 = (_re.sub(r"__h\d+", "", pyfe.src(pysym.reach(e_, r, h, stop=keep))).replace(" ", "")
                  for e_ in (e0, e1))                                                          # named results written out
        ok = s0 in ("(%s*state.get_at(src_state_index)).convert(units_system)" % kf_,
                    "(state.get_at(src_state_index)*%s).convert(units_system)" % kf_) and \
            s1 in ("(%s*state.get_at(dst_state_index)).convert(units_system)" % kr_,
                   "(state.get_at(dst_state_index)*%s).convert(units_system)" % kr_)
        ctx.check(ok, R, r, h._qual, "(forward, reverse) = (%s * x_src, %s * x_dst)" % (kf_, kr_), "first-order in the source / "
                  "destination amounts", "the diffusion rates are not constant x amount of the respective cell")
    # exported ODE right-hand side
    m = py.fn("rdsystem.RDSystem.make_dxdtf")
    from .. import pynorm
    m = pynorm.renamed(m, pynorm.dxdtf_roles(m))     # locals identified by what they are defined as
    # the constants: one per split reaction, as an append loop or as a comprehension over `reactions`
    rl = [n for n in m.body if isinstance(n, ast.For) and pyfe.src(n.iter) == "reactions"]
    kc = [n for n in m.body if isinstance(n, ast.Assign) and pyfe.src(n.targets[0]) == "k" and isinstance(n.value, ast.ListComp)
          and len(n.value.generators) == 1 and pyfe.src(n.value.generators[0].iter) == "reactions" and
          not n.value.generators[0].ifs]
    ctx.need(len(rl) + len(kc) == 1, R, "make_dxdtf: loop over the split reactions not found")
    if rl:
        rvar = pyfe.src(rl[0].target)
        try:
            app = pysym.appended(rl[0].body, m, "k")
        except pysym.NotModelled as e:
            ctx.error(R, "make_dxdtf: %s" % e)
        ctx.need(len(app) == 1, R, "make_dxdtf: appended rate constant not found")
        knode, kval = app[0]
    else:
        rvar = pyfe.src(kc[0].value.generators[0].target)
        knode, kval = kc[0], pysym.frat(kc[0].value.elt, m, stop={rvar})
    wantk = pysym.frat(P("valproc.get_value_in_env(%s.kf, env, UnitValue(0, Units(units_system, %s.kf_units_dimensions())))"
                         ".convert(units_system).value * vol ** (1 - %s.order())" % (rvar, rvar, rvar)), m, stop={rvar})
    ctx.check(kval.equals(wantk), R, knode, m._qual, "k_r = k[env] * V ** (1 - order)", "same scaling as the engine's "
              "mesh_kr", "the constant of the exported ODE is %r, expected k * vol**(1 - order)" % (kval,))
    inner = [n for n in ast.walk(m) if isinstance(n, ast.FunctionDef) and n is not m]
    ctx.need(len(inner) == 1, R, "make_dxdtf: inner function not found")
    d = inner[0]
    xv = pyfe.params(d)[1] if len(pyfe.params(d)) > 1 else "x"

    def loopvars(node):
        out, p_ = [], pyfe.parent(node)
        while p_ is not None and p_ is not d:
            if isinstance(p_, ast.For) and isinstance(p_.target, ast.Name):
                out.append(p_.target.id)
            p_ = pyfe.parent(p_)
        return out
    mul = [n for n in ast.walk(d) if isinstance(n, ast.AugAssign) and isinstance(n.op, ast.Mult) and
           isinstance(n.target, ast.Subscript) and pyfe.src(n.target.value) == "rates"]
    add = [n for n in ast.walk(d) if isinstance(n, ast.AugAssign) and isinstance(n.op, ast.Add) and
           isinstance(n.target, ast.Subscript) and pyfe.src(n.target.value) == "dxdt"]
    ok = len(mul) == 1 and len(add) == 1
    if ok:
        a_ = pyfe.src(mul[0].target.slice)
        others = [v for v in loopvars(mul[0]) if v != a_]
        ok = len(others) == 1 and pysym.frat(mul[0].value, d, stop=set(loopvars(mul[0]))).equals(
            pysym.frat(P("%s[%s] ** sub[%s][%s]" % (xv, others[0], a_, others[0])), d, stop=set(loopvars(mul[0]))))
    if ok:
        b_ = pyfe.src(add[0].target.slice)
        others = [v for v in loopvars(add[0]) if v != b_]
        ok = len(others) == 1 and pysym.frat(add[0].value, d, stop=set(loopvars(add[0]))).equals(
            pysym.frat(P("rates[%s] * sto[%s][%s]" % (others[0], others[0], b_)), d, stop=set(loopvars(add[0]))))
    # rates starts as a copy of k, dxdt as zeros
    init = {pyfe.src(n.targets[0]): n.value for n in d.body if isinstance(n, ast.Assign) and len(n.targets) == 1}

    def is_copy_of_k(e):
        t = pyfe.src(e).replace(" ", "")
        if t in ("list(k)", "k.copy()", "k[:]", "k+[]"):
            return True
        return isinstance(e, ast.ListComp) and len(e.generators) == 1 and not e.generators[0].ifs and \
            pyfe.src(e.elt).replace(" ", "") == "k[%s]" % pyfe.src(e.generators[0].target)

    def is_zeros(e):
        if isinstance(e, ast.ListComp):
            return isinstance(e.elt, ast.Constant) and e.elt.value == 0 and len(e.generators) == 1 and not e.generators[0].ifs
        return isinstance(e, ast.BinOp) and isinstance(e.op, ast.Mult) and any(
            isinstance(x_, ast.List) and len(x_.elts) == 1 and isinstance(x_.elts[0], ast.Constant) and x_.elts[0].value == 0
            for x_ in (e.left, e.right))
    ok = ok and "rates" in init and is_copy_of_k(init["rates"]) and "dxdt" in init and is_zeros(init["dxdt"])
    ms = pyfe.src(m).replace(" ", "")
    ok = ok and "sub=[list(r.ssto(sl))forrinreactions]" in ms and "sto=[list(r.dsto(sl))forrinreactions]" in ms
    ctx.check(ok, R, d, m._qual, "rate_r = k_r * prod x_s ^ sub[r][s];  dxdt_s = sum_r rate_r * sto[r][s]", "", "the exported "
              "right-hand side is not the mass-action law")
    okl = ("r1,r2=r.split()" in ms and ms.index("reactions.append(r1)") < ms.index("reactions.append(r2)")) or \
        "reactions.extend(r.split())" in ms
    ctx.check(okl, R, m, m._qual, "forward and reverse halves of every reaction", "", "")
    from . import c04
    for v in c04.value_loads(m):
        cv = c04.is_convert_value(v)
        ctx.check(cv is not None and pyfe.src(cv[1]) == "units_system", R, v, m._qual, pyfe.src(v)[:80],
                  "number taken after conversion to the requested units system",
                  "a number enters the exported right-hand side without conversion to the requested units system: "
                  "the law is evaluated with a volume / constant in other units")
    ctx.floor(R, 15)


def _bool_eval(e, truth):
    """evaluate a boolean expression over comparison atoms; truth: normalised atom text -> bool; None if an atom is unknown"""
    if isinstance(e, ast.BoolOp):
        vs = [_bool_eval(v, truth) for v in e.values]
        if any(v is None for v in vs):
            return None
        return all(vs) if isinstance(e.op, ast.And) else any(vs)
    if isinstance(e, ast.UnaryOp) and isinstance(e.op, ast.Not):
        v = _bool_eval(e.operand, truth)
        return None if v is None else not v
    if isinstance(e, ast.Compare) and len(e.ops) == 1 and isinstance(e.ops[0], (ast.Eq, ast.NotEq)):
        a, b = pyfe.src(e.left), pyfe.src(e.comparators[0])
        v = truth.get((a, b), truth.get((b, a)))
        if v is None:
            return None
        return v if isinstance(e.ops[0], ast.Eq) else not v
    return None


def rule_graph_neighbours(ctx, py):
    """C01.NEIGH -- the graph is undirected: an edge (a, b) makes b a neighbour of a and a a neighbour of b, in the lookup
    `get_edge` and in the neighbour enumeration of the graph kinetics."""
    R = "C01.NEIGH"
    g = py.fn("rdgraphspace.RDGraphSpace.get_edge")
    pi, pj = [p for p in pyfe.params(g) if p != "self"][:2]
    from .. import pysym
    rets = [(r, pyfe.parent(r)) for r in ast.walk(g) if isinstance(r, ast.Return) and r.value is not None and
            not (isinstance(r.value, ast.Constant) and r.value.value is None)]
    test = ev = None
    if len(rets) == 1 and isinstance(rets[0][1], ast.If):
        test, ev = rets[0][1].test, pyfe.src(rets[0][0].value)
    elif len(rets) == 1:
        v_ = pysym.inline(rets[0][0].value, g)
        # first match of a filtered generator: next((e for e in self.edges if COND), None)
        if isinstance(v_, ast.Call) and pyfe.call_name(v_) == "next" and v_.args and \
                isinstance(v_.args[0], (ast.GeneratorExp, ast.ListComp)) and len(v_.args[0].generators) == 1 and \
                len(v_.args[0].generators[0].ifs) == 1 and pyfe.src(v_.args[0].elt) == pyfe.src(v_.args[0].generators[0].target):
            test, ev = v_.args[0].generators[0].ifs[0], pyfe.src(v_.args[0].elt)
        # table lookup: the key the edge is stored under must be the key it is looked up with
        look = v_
        if isinstance(look, ast.Call) and isinstance(look.func, ast.Attribute) and look.func.attr == "get" and look.args:
            tab, key = pyfe.src(look.func.value), look.args[0]
        elif isinstance(look, ast.Subscript):
            tab, key = pyfe.src(look.value), look.slice
        else:
            tab = key = None
        if test is None and tab is not None and tab.startswith("self."):
            kq = pyfe.src(key).replace(" ", "")
            import re as _re
            kq = _re.sub(r"\b%s\b" % pi, "A", kq)
            kq = _re.sub(r"\b%s\b" % pj, "B", kq)
            stored = []
            for m_ in [x for x in ast.walk(g._cls) if isinstance(x, ast.FunctionDef)] if getattr(g, "_cls", None) is not None else []:
                for c_ in pyfe.calls_in(m_):
                    if isinstance(c_.func, ast.Attribute) and c_.func.attr == "setdefault" and pyfe.src(c_.func.value) == tab and c_.args:
                        stored.append((c_, c_.args[0]))
                for st_ in ast.walk(m_):
                    if isinstance(st_, ast.Assign) and isinstance(st_.targets[0], ast.Subscript) and \
                            pyfe.src(st_.targets[0].value) == tab:
                        stored.append((st_, st_.targets[0].slice))
            ctx.need(stored, R, "get_edge: the table %s it looks edges up in is filled nowhere in the class" % tab)
            keys = set()
            for node_, k_ in stored:
                t_ = pyfe.src(k_).replace(" ", "")
                t_ = _re.sub(r"\b\w+\.i\b", "A", t_)
                t_ = _re.sub(r"\b\w+\.j\b", "B", t_)
                keys.add(t_)
            swapped = kq.replace("A", "#").replace("B", "A").replace("#", "B")
            sym = kq == swapped or ("min(A,B)" in kq and "max(A,B)" in kq) or "frozenset" in kq
            okk = (kq in keys and sym) or (kq in keys and swapped in keys)
            ctx.check(okk, R, rets[0][0], g._qual, "edges looked up under %s, stored under %s" % (kq, sorted(keys)),
                      "the same orientation-free key on both sides", "get_edge looks an edge up under `%s` but the table is filled "
                      "under %s: an edge listed as (j, i) with j > i is not found from either end, the graph loses the adjacency "
                      "(periodic wrap edges of a converted grid, user edges listed high-to-low)" % (kq, sorted(keys)))
            test = False
    ctx.need(test is not None, R, "get_edge: neither a guarded `return edge`, a filtered first match nor a table lookup found")
    ev = ev or "edge"
    fwd = {(ev + ".i", pi): True, (ev + ".j", pj): True, (ev + ".i", pj): False, (ev + ".j", pi): False}
    bwd = {(ev + ".i", pi): False, (ev + ".j", pj): False, (ev + ".i", pj): True, (ev + ".j", pi): True}
    none = {(ev + ".i", pi): True, (ev + ".j", pj): False, (ev + ".i", pj): False, (ev + ".j", pi): False}
    if test is not False:
        ctx.check(_bool_eval(test, fwd) is True and _bool_eval(test, bwd) is True and _bool_eval(test, none) is False, R, rets[0][0],
                  g._qual, "if " + pyfe.src(test)[:90], "matches the edge in both orientations and nothing else",
                  "get_edge does not match an edge exactly when its end points are {i, j} in either order")
    f = py.fn("kinetics._compute_dspeciesdt_graph")
    # the loop that adds the diffusion terms: for j in <L>: ... compute_diffusion_rates(system, species, position, j, ...)
    loops = [n for n in ast.walk(f) if isinstance(n, ast.For) and any(
        pyfe.call_name(c).endswith("compute_diffusion_rates") for c in pyfe.calls_in(n))]
    ctx.need(len(loops) == 1 and isinstance(loops[0].target, ast.Name), R, "_compute_dspeciesdt_graph: diffusion loop not found")
    it = loops[0].iter
    pos = "position"
    size_ok = lambda e: norm(pyfe.src(e)) in ("range(system.space.size())", "range(space.size())", "range(len(system.space.nodes))")
    norm = lambda t: t.replace(" ", "")

    def edge_test(t, var):
        """does test t require get_edge(position, var) (either argument order) to exist?"""
        for a_, pol in pya.atoms(t, True):
            m = norm(a_)
            for x, y in ((pos, var), (var, pos)):
                for pre in ("system.space.get_edge(%s,%s)" % (x, y), "space.get_edge(%s,%s)" % (x, y)):
                    if (m in (pre + "isNone", pre + "==None") and pol is False) or (m == pre and pol is True):
                        return True
        return False
    sources = []     # (node, kind, detail)
    if isinstance(it, ast.Name):
        L = pyfe.src(it)
        for n in ast.walk(f):
            if isinstance(n, ast.Assign) and len(n.targets) == 1 and pyfe.src(n.targets[0]) == L and \
                    isinstance(n.value, ast.ListComp):
                sources.append((n, "comp", n.value))
            elif isinstance(n, ast.Call) and isinstance(n.func, ast.Attribute) and n.func.attr == "append" and \
                    pyfe.src(n.func.value) == L:
                sources.append((n, "append", n))
    elif isinstance(it, ast.ListComp):
        sources.append((it, "comp", it))
    ctx.need(sources, R, "_compute_dspeciesdt_graph: the neighbour list is not built by a comprehension or by append")
    orient = set()
    for node, kind, d in sources:
        if kind == "comp":
            gen = d.generators[0]
            var = pyfe.src(gen.target)
            okk = len(d.generators) == 1 and size_ok(gen.iter) and pyfe.src(d.elt) == var and \
                any(edge_test(c, var) for c in gen.ifs)
            extra = [c for c in gen.ifs if not edge_test(c, var) and norm(pyfe.src(c)) not in (
                "%s!=%s" % (var, pos), "%s!=%s" % (pos, var))]
            ctx.check(okk and not extra, R, node, f._qual, pyfe.src(d)[:100], "every j with an edge {position, j}",
                      "the neighbour list is not `all j of the space with get_edge(position, j)`" +
                      (": extra filter " + pyfe.src(extra[0]) if extra else ""))
            if okk:
                orient |= {"ij", "ji"}
            continue
        # append under guards inside a loop
        lp = pyfe.parent(node)
        guards = []
        while lp is not None and lp is not f and not isinstance(lp, ast.For):
            if isinstance(lp, ast.If):
                guards.append(lp.test)
            lp = pyfe.parent(lp)
        ctx.need(isinstance(lp, ast.For), R, "_compute_dspeciesdt_graph: append to the neighbour list outside a loop")
        var = pyfe.src(lp.target)
        app = pyfe.src(d.args[0])
        if size_ok(lp.iter):
            okk = app == var and any(edge_test(t, var) for t in guards)
            extra = [t for t in guards if not edge_test(t, var) and norm(pyfe.src(t)) not in ("%s!=%s" % (var, pos),
                                                                                           "%s!=%s" % (pos, var))]
            ctx.check(okk and not extra, R, node, f._qual, "append(%s) if %s" % (app, " and ".join(pyfe.src(t) for t in guards)),
                      "every j with an edge {position, j}", "the neighbour list is not `all j with get_edge(position, j)`")
            if okk and not extra:
                orient |= {"ij", "ji"}
        elif norm(pyfe.src(lp.iter)) in ("system.space.edges", "space.edges"):
            facts = [norm(a_) for t in guards for a_, pol in pya.atoms(t, True) if pol]
            if "%s.i==%s" % (var, pos) in facts or "%s==%s.i" % (pos, var) in facts:
                if app == var + ".j":
                    orient.add("ij")
            if "%s.j==%s" % (var, pos) in facts or "%s==%s.j" % (pos, var) in facts:
                if app == var + ".i":
                    orient.add("ji")
            ctx.ok(R, node, f._qual, "append(%s) if %s" % (app, " and ".join(pyfe.src(t) for t in guards))[:110],
                   "one orientation of the edge list", nontrivial=False)
        else:
            ctx.error(R, "_compute_dspeciesdt_graph: neighbour enumeration over `%s` not recognised" % pyfe.src(lp.iter)[:60])
    ctx.check(orient == {"ij", "ji"}, R, loops[0], f._qual, "neighbours of `position`", "edges are followed from both end points",
              "only the edges written with `position` %s are followed: diffusion towards the other neighbours is dropped and "
              "totals are no longer conserved" % ("first" if orient == {"ij"} else "second" if orient == {"ji"} else "?"))
    ctx.floor(R, 3)


def run(ctx):
    tu, py = ctx.cx, ctx.py
    I = idxmod.Idx(tu)
    eff = cxa.Effects(tu)
    ffi.rule_sig(ctx, "C01.FFI-SIG")
    ptr_req = {}
    for r in I.subs:
        if r.get("table_extent") is None and r.get("index_extent") is not None and "lit" not in r and r["status"] == "ok":
            ptr_req.setdefault((r["fn"], r["table"]), set()).add(r["index_extent"])
    ffi.rule_extent(ctx, "C01.FFI-EXTENT", I, ptr_req)
    rule_layout(ctx, tu, I, py)
    dim.rule_euler(ctx, tu, "C01.DIM")
    ctx.floor("C01.DIM", 8)
    for okk, node, fn, what, good, bad in sib.check_sib(ctx, tu, py):
        ctx.check(okk, "C01.SIB", node, fn, what, good, bad)
    ctx.floor("C01.SIB", 11)
    rule_phase(ctx, tu, eff)
    from . import c02, c04
    c02.flux_rule(ctx, tu, "C01.FLUX")
    ctx.floor("C01.FLUX", 3)
    rule_env(ctx, tu, py, I)
    rule_py_siblings(ctx, py)
    rule_graph_neighbours(ctx, py)
    # shared clause: GetNeighborIndex itself (directions, periodic wrap, range test) -- the symmetric neighbour relation
    from ..core import borrow
    from . import c15
    borrow(ctx, "C01", c15.rule_cx, ctx.cx)
    # shared clause: each axis's boundary mode reaches the engine's slot of that axis -- otherwise the Euler step exchanges
    # matter with other neighbours than the kinetics functions do
    borrow(ctx, "C01", c15.rule_axis_table, py, tu)
    # shared clause: per-environment constants and coefficients written under grouped keys reach every listed environment (C13.GROUPKEY)
    from . import c13 as _c13
    borrow(ctx, "C01", _c13.rule_groupkey, py)
    from .. import lints
    # shared clause: every conversion factor the quantities of the rate law go through is taken from the converted object's own
    # system to the destination (C06.ARGS)
    from . import c06 as _c06
    borrow(ctx, "C01", _c06.rule_convert_args, py, "C06.ARGS-CONV")
    lints.run(ctx, "C01", ctx.py, ["kinetics", "rdsystem", "librdengine", "value_processing", "rdnetwork", "rdgraphspace", "rdgridspace", "units"])
    ctx.assume("agreement to rounding is not decided; that the mean is harmonic is decided only relatively (all four "
               "implementations are the same symmetric rational function of the right dimension)")
    ctx.assume("RDSystem size invariant (state / chemostat map have space.size()*nspecies() entries) for the FFI extents")
