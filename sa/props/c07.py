"""C07 -- stochastic steps, the structure of a legal step: at most one event per Gillespie step, unit moves, the
decremented entry is the propensity's source, partial sums and searches range over the same channels, the
propensity has the falling-factorial form, Poisson means are propensity x dt stored and applied at one index.
Does NOT decide the statistics (waiting-time / choice distributions, Poisson law), non-negativity, or strict
increase of time."""
from .. import cxfe, cxa, ir, upd, idx as idxmod
from ..cxfe import kids, strip, walk, text, subscript, uname, call_parts, name_of
from ..core import AnalysisError
from ..poly import Poly

GILL = ("Gillespie3D", "GillespieGraph")
TAU = ("TauLeap3D", "TauLeapGraph")
BASES = ("SimulationAlgorithm3DBase", "SimulationAlgorithmGraphBase")


def rule_one_event(ctx, tu):
    R = "C07.ONE-EVENT"
    for cn in GILL:
        f = tu.fn(cn + "::DrawAndApplyEvent")
        flags = {uname(n) for n in walk(f.body) if n.get("kind") == "VarDecl" and
                 n.get("type", {}).get("qualType") == "bool"}
        second = []
        applies = []

        class C(ir.Client):
            def atom(self, node, cfg):
                for x in walk(node):
                    if x.get("kind") == "VarDecl" and uname(x) in flags and kids(x):
                        v = strip(kids(x)[-1], casts=True)
                        if v.get("kind") == "CXXBoolLiteralExpr":
                            cfg = frozenset(c for c in cfg if not (isinstance(c, tuple) and c[0] == uname(x))) | \
                                {(uname(x), bool(v.get("value")))}
                    for s in cxa.stores_of_node(x):
                        if s.base and s.base[0] == "var" and s.base[1] in flags and s.op == "=":
                            v = strip(s.rhs, casts=True)
                            cfg = frozenset(c for c in cfg if not (isinstance(c, tuple) and c[0] == s.base[1]))
                            if v.get("kind") == "CXXBoolLiteralExpr":
                                cfg = cfg | {(s.base[1], bool(v.get("value")))}
                    cp = call_parts(x) if x.get("kind") == "CXXMemberCallExpr" else None
                    if cp and cp[0] in ("ApplyReaction", "ApplyDiffusion"):
                        if self.record:
                            applies.append(x)
                        if "applied" in cfg:
                            if self.record:
                                second.append(x)
                        cfg = cfg | {"applied"}
                return cfg

            def assume(self, cond, positive, cfg):
                c = strip(cond) if not isinstance(cond, tuple) else None
                if c is not None and c.get("kind") == "DeclRefExpr" and uname(c) in flags:
                    if (uname(c), not positive) in cfg:
                        return None          # infeasible branch
                    return cfg | {(uname(c), positive)}
                if c is not None and c.get("kind") == "UnaryOperator" and c.get("opcode") == "!":
                    i = strip(kids(c)[0])
                    if i.get("kind") == "DeclRefExpr" and uname(i) in flags:
                        if (uname(i), positive) in cfg:
                            return None
                        return cfg | {(uname(i), not positive)}
                return cfg
        ir.Engine(C(), "paths").run(ir.cx_to_ir(f.body))
        ids = {id(a): a for a in applies}
        ctx.need(len(ids) >= 2, R, "%s: apply calls not found" % f.qual)
        bad = {id(a) for a in second}
        for i_, a in ids.items():
            ctx.check(i_ not in bad, R, a, f.qual, text(a), "no path reaches this call after another event was applied",
                      "a path through DrawAndApplyEvent applies a second event in the same step")
    ctx.floor(R, 4)


def rule_unit_move(ctx, tu):
    R = "C07.UNIT-MOVE"
    for cn in GILL:
        f = tu.fn(cn + "::ApplyDiffusion")
        ups = upd.summaries(f, {"mesh_x"})
        ctx.need(len(ups) == 2, R, "%s: expected two stores" % f.qual)
        for u in ups:
            ctx.check(cxa.const_int(u.rhs) == 1 and u.op in ("+=", "-="), R, u.node, f.qual, text(u.node)[:70],
                      "one molecule moves", "a diffusion event changes an entry by %s" % text(u.rhs))
        g = tu.fn(cn + "::ApplyReaction")
        ups = upd.summaries(g, {"mesh_x"})
        ctx.need(len(ups) == 1, R, "%s: expected one store" % g.qual)
        u = ups[0]
        sub = subscript(strip(u.rhs, casts=True)) if u.rhs else None
        ok = u.op == "+=" and sub is not None and cxa.lvalue_base(sub[0]) == ("field", "sto")
        ps = g.param_names()
        if ok:
            sp = upd.split_index(u.index)
            want = (sp[1] * Poly.sym("n_reactions") + Poly.sym(ps[1])) if sp else None
            ok = sp is not None and cxa.poly(sub[1]) == want and sp[0] == Poly.sym(ps[0])
        ctx.check(ok, R, u.node, g.qual, text(u.node)[:80], "one firing: += sto[species, this reaction] in this cell",
                  "a reaction event does not change each species by its net stoichiometry in the selected cell")
    ctx.floor(R, 6)


def rule_src_dec(ctx, tu):
    R = "C07.SRC-DEC"
    for b, cn in zip(BASES, GILL):
        prop = tu.fn(b + "::DiffusionProp")
        r = strip(kids(kids(prop.body)[0])[0], casts=True)
        ps = prop.param_names()
        ok = r.get("kind") == "BinaryOperator" and r.get("opcode") == "*"
        ctx.need(ok, R, "%s: not a product" % prop.qual)
        facs = [strip(x, casts=True) for x in kids(r)]
        xs = [x for x in facs if subscript(x) and cxa.lvalue_base(subscript(x)[0]) == ("field", "mesh_x")]
        ctx.need(len(xs) == 1, R, "%s: amount factor not found" % prop.qual)
        want = Poly.sym(ps[0]) * Poly.sym("n_species") + Poly.sym(ps[1])
        ctx.check(cxa.poly(subscript(xs[0])[1]) == want, R, xs[0], prop.qual, text(xs[0]), "amount of (this cell, this species): "
                  "first-order in the source", "the diffusion propensity is not proportional to the source amount")
        kd = [x for x in facs if x is not xs[0]][0]
        ctx.check(ps[2] in cxa.canon(kd) and ps[0] in cxa.canon(kd) and ps[1] in cxa.canon(kd), R, kd, prop.qual, text(kd)[:80],
                  "constant of the same (cell, species, direction)", "constant of another channel")
        # the entry decremented by ApplyDiffusion(cell, species, direction) is that same source entry
        ap = tu.fn(cn + "::ApplyDiffusion")
        aps = ap.param_names()
        dec = [u for u in upd.summaries(ap, {"mesh_x"}) if u.op == "-="]
        ctx.need(len(dec) == 1, R, "%s: decrement not found" % ap.qual)
        ctx.check(dec[0].index == Poly.sym(aps[0]) * Poly.sym("n_species") + Poly.sym(aps[1]), R, dec[0].node, ap.qual,
                  text(dec[0].node)[:70], "the source entry of the selected channel loses the molecule",
                  "the molecule is taken from another entry than the one whose amount gave the propensity")
        # DrawAndApplyEvent passes the (cell, species, direction) of the propensity it just accumulated
        f = tu.fn(cn + "::DrawAndApplyEvent")
        for x in walk(f.body):
            cp = call_parts(x) if x.get("kind") == "CXXMemberCallExpr" else None
            if cp and cp[0] in ("ApplyDiffusion", "ApplyReaction"):
                args = [uname(strip(a, casts=True)) for a in cp[2]]
                tab = "mesh_ad" if cp[0] == "ApplyDiffusion" else "mesh_ar"
                # nearest preceding accumulation  a_cumul += T[...]
                acc = None
                par = x
                for y in walk(f.body):
                    for s in cxa.stores_of_node(y):
                        if s.op == "+=" and s.rhs is not None and subscript(strip(s.rhs, casts=True)) is not None:
                            sb = strip(s.rhs, casts=True)
                            base = subscript(sb)[0]
                            inner = subscript(base)
                            bb = cxa.lvalue_base(inner[0] if inner else base)
                            if bb == ("field", tab) and cxfe.line(y) is not None and cxfe.line(y) <= cxfe.line(x) and \
                                    cxfe.line(x) - cxfe.line(y) <= 4:
                                acc = sb
                ctx.need(acc is not None, R, "%s: accumulation before %s not found" % (f.qual, cp[0]))
                atoms = set()
                sub = subscript(acc)
                for p_ in ([cxa.poly(subscript(sub[0])[1])] if subscript(sub[0]) else []) + [cxa.poly(sub[1])]:
                    atoms |= {a for m in p_.t for a, _ in m}
                ctx.check(set(args) <= atoms, R, x, f.qual, "%s(%s) after += %s" % (cp[0], ", ".join(args), text(acc)[:50]),
                          "the event applied is the channel whose propensity closed the search",
                          "the applied channel (%s) is not the one just accumulated (%s)" % (args, text(acc)))
    ctx.floor(R, 10)


def rule_prop(ctx, tu):
    """ReactionProp: k[cell, r] * prod_s x(x-1)...(x-c+1) with c = sub[s, r], and 0 when x < c for some s"""
    R = "C07.PROP"
    for b in BASES:
        f = tu.fn(b + "::ReactionProp")
        ps = f.param_names()
        S = Poly.sym
        loops = [n for n in walk(f.body) if n.get("kind") == "ForStmt"]
        ctx.need(len(loops) == 2, R, "%s: species loop and product loop not found" % f.qual)
        outer, inner = loops
        sv = uname(strip(kids(strip(cxa.for_parts(outer)[1]))[0], casts=True))
        sub_t = "sub[%r]" % (S(sv) * S("n_reactions") + S(ps[1]))
        x_t = "mesh_x[%r]" % (S(ps[0]) * S("n_species") + S(sv))
        # (i) the product loop runs only where x >= c; (ii) where x < c the result is 0
        prod_facts, zero_sites = [], []

        def on_atom(node, facts):
            for x in walk(node):
                for s_ in cxa.stores_of_node(x):
                    if s_.op == "*=":
                        prod_facts.append((s_, frozenset(facts)))
                    if s_.op == "=" and s_.base and s_.base[0] == "var" and cxa.const_int(s_.rhs) == 0 and \
                            s_.how == "assign":
                        zero_sites.append((x, frozenset(facts)))

        class C(cxa.CanonFacts):
            def ret(self, s_, cfg):
                if s_.a is not None and cxa.const_int(s_.a) == 0:
                    zero_sites.append((s_.src, frozenset(cfg)))
        cl = C(on_atom, None, None)
        from .. import ir as ir_
        ir_.Engine(cl, "must").run(ir_.cx_to_ir(f.body))
        suff = ("%s <= %s" % (sub_t, x_t), True)
        ctx.need(len(prod_facts) >= 1, R, "%s: product accumulation not found" % f.qual)
        if len(prod_facts) > 1:
            # several accumulation forms: each factor of the propensity must be the falling factorial one; anything else (a power of
            # the amount, a different form under some flag) makes the propensity something else than the number of combinations
            for mul_, pf_ in prod_facts:
                ctx.check(cxa.canon(mul_.rhs).startswith("(" + x_t + " - "), R, mul_.node, f.qual, text(mul_.node)[:80],
                          "a factor (x - q) of the falling factorial", "the propensity also accumulates `%s`, which is not a factor "
                          "(x - q) of the falling factorial: for some entries it is not the number of distinct reactant "
                          "combinations" % text(mul_.rhs)[:60])
            prod_facts = [pp for pp in prod_facts if cxa.canon(pp[0].rhs).startswith("(" + x_t + " - ")]
            ctx.need(prod_facts, R, "%s: no falling-factorial accumulation" % f.qual)
        mul, pf = prod_facts[0]
        ctx.check(suff in pf, R, mul.node, f.qual, text(mul.node), "multiplied only where species s has enough molecules "
                  "(x >= sub[s, r])", "the combinatorial factor is accumulated without the sufficiency test on the amount of "
                  "species s against its own coefficient in this reaction")
        zs = [z for z in zero_sites if (suff[0], False) in z[1]]
        ctx.check(len(zs) >= 1, R, f.node, f.qual, "insufficient reactants: propensity 0", "impossible reactions have zero "
                  "propensity", "a reaction without enough reactant molecules keeps a non-zero propensity")
        init, cond, inc, body = cxa.for_parts(inner)
        cf = cxa.cfacts(cond, True)
        qv = uname(strip(kids(strip(cond))[0], casts=True))
        ctx.check(("%s < %s" % (qv, sub_t), True) in cf, R, inner, f.qual, text(inner),
                  "one factor per required molecule (trip count = the same coefficient)", "trip count is not sub[s, r]")
        want = "(%s - %s)" % (x_t, qv)
        ctx.check(cxa.canon(mul.rhs) == want, R, mul.node, f.qual, text(mul.node),
                  "falling factorial x (x-1) ... (x-c+1)", "the multiplicand is %s, not (x - q): the propensity is not the "
                  "number of distinct reactant combinations" % cxa.canon(mul.rhs))
        a0 = [n for n in walk(f.body) if n.get("kind") == "VarDecl" and kids(n) and
              n.get("id") not in cxfe.CONST_INLINE and n.get("id") not in cxfe.INLINE][0]
        ctx.check(cxa.canon(kids(a0)[-1]) == "mesh_kr[%r]" % (S(ps[0]) * S("n_reactions") + S(ps[1])), R, a0, f.qual, text(a0)[:70],
                  "starts from the volume-scaled constant of (cell, reaction)", "starts from another constant")
    ctx.floor(R, 10)


def rule_partition(ctx, tu):
    R = "C07.PARTITION"
    for cn in GILL:
        f = tu.fn(cn + "::ComputePropensities")
        ups = upd.summaries(f)
        stores = {}
        adds = {}
        for s in cxa.all_stores(f.body):
            if s.op == "+=" and s.rhs is not None:
                tgt = cxa.canon(s.target)
                adds.setdefault(tgt.split("[")[0], []).append(cxa.canon(s.rhs))
        for u in ups:
            if u.table in ("mesh_ar", "mesh_ad") and u.op == "=":
                stores.setdefault(u.table, []).append(cxa.canon(u.store.target))
        for tab, part in (("mesh_ar", "mesh_a0r"), ("mesh_ad", "mesh_a0d")):
            tg = set(stores.get(tab, []))
            ctx.need(tg, R, "%s: stores to %s not found" % (f.qual, tab))
            for t in tg:
                ctx.check(adds.get(part, []).count(t) == 1 and adds.get("a0", []).count(t) == 1, R, f.node, f.qual,
                          "%s added once to %s and once to a0" % (t[:50], part), "every propensity is counted exactly once "
                          "in its cell's partial sum and in the total",
                          "a propensity is missing from (or doubled in) %s / a0: the event draw uses the wrong total" % part)
        # partial sums and the total are reset at the right level
        resets = [cxa.canon(s.target).split("[")[0] for s in cxa.all_stores(f.body) if s.op == "=" and cxa.const_int(s.rhs) == 0]
        ctx.check({"a0", "mesh_a0d", "mesh_a0r"} <= set(resets), R, f.node, f.qual, "a0 and the per-cell sums are reset", "", "a sum "
                  "is not reset before accumulation")
        # the searches enumerate the index sets that were summed
        g = tu.fn(cn + "::DrawAndApplyEvent")
        walked = {}
        for s in cxa.all_stores(g.body):
            if s.op == "+=" and s.rhs is not None and subscript(strip(s.rhs, casts=True)) is not None:
                sb = strip(s.rhs, casts=True)
                base = subscript(sb)[0]
                inner = subscript(base)
                bb = cxa.lvalue_base(inner[0] if inner else base)
                if bb and bb[0] == "field":
                    walked.setdefault(bb[1], []).append((s, sb))
        loops_of = {}
        for n in walk(g.body):
            if n.get("kind") == "ForStmt":
                lv = n.get("_loopvar")
                for x in walk(cxa.for_parts(n)[3]):
                    loops_of.setdefault(id(x), []).append((uname(strip(kids(strip(cxa.for_parts(n)[1]))[0], casts=True)),
                                                           text(kids(strip(cxa.for_parts(n)[1]))[1])))
        floops = {}
        for n in walk(f.body):
            if n.get("kind") == "ForStmt":
                for x in walk(cxa.for_parts(n)[3]):
                    floops.setdefault(id(x), []).append(text(kids(strip(cxa.for_parts(n)[1]))[1]))
        for tab, cum in (("mesh_ar", "mesh_a0r"), ("mesh_ad", "mesh_a0d"), ("mesh_a0r", None), ("mesh_a0d", None)):
            w = walked.get(tab, [])
            ctx.check(len(w) == 1, R, g.node, g.qual, "search accumulates %s" % tab, "", "%s is not walked by the search" % tab)
            if len(w) != 1:
                continue
            s, sb = w[0]
            bounds = sorted(b for v, b in loops_of.get(id(s.node), []))
            # the same table was summed under loops with the same bounds in ComputePropensities
            fs = [u for u in ups if u.table == tab and u.op in ("=", "+=")]
            fb = sorted(floops.get(id(fs[0].node), [])) if fs else None
            ctx.check(bounds == fb, R, s.node, g.qual, "%s walked under loops %s" % (tab, bounds), "the index set that was "
                      "summed (%s)" % fb, "the search walks %s under loops %s but it was summed under %s" % (tab, bounds, fb))
    ctx.floor(R, 14)


def rule_tau(ctx, tu):
    R = "C07.TAU"
    for b, cn in zip(BASES, TAU):
        f = tu.fn(cn + "::Compute_nevt")
        g = tu.fn(cn + "::Apply_nevt")
        for tab, prop in (("mesh_nr", "ReactionProp"), ("mesh_nd", "DiffusionProp")):
            st = [u for u in upd.summaries(f, {tab}) if cxa.const_int(u.rhs) != 0]
            ctx.need(len(st) == 1, R, "%s: non-zero store to %s not found" % (f.qual, tab))
            u = st[0]
            cp = call_parts(u.rhs)
            ok = cp is not None and cp[0] == "Poisson"
            arg = strip(cp[2][0], casts=True) if ok else None
            ok = ok and arg.get("kind") == "BinaryOperator" and arg.get("opcode") == "*"
            if ok:
                a, c = [strip(x, casts=True) for x in kids(arg)]
                pc = call_parts(a) or call_parts(c)
                other = c if call_parts(a) else a
                ok = pc is not None and pc[0] == prop and uname(other) == "dt"
                if ok:
                    atoms = {x for m in u.index.t for x, _ in m}
                    if subscript(u.store.target) and subscript(subscript(u.store.target)[0]):
                        atoms |= {x for m in cxa.poly(subscript(subscript(u.store.target)[0])[1]).t for x, _ in m}
                    args = [uname(strip(x, casts=True)) for x in pc[2]]
                    ok = set(args) <= atoms
            ctx.check(ok, R, u.node, f.qual, text(u.node)[:100], "count = Poisson(propensity of this channel x dt), stored at "
                      "the channel's own index", "the number of firings of a channel is not Poisson(propensity x dt) of that "
                      "same channel")
            # applied at the same index form
            used = [cxa.canon(x) for x in walk(g.body) if subscript(x) is not None and x.get("kind") == "CXXOperatorCallExpr"
                    and cxa.lvalue_base(subscript(x)[0] if not subscript(subscript(x)[0]) else subscript(subscript(x)[0])[0])
                    == ("field", tab) and (subscript(subscript(x)[0]) is not None or "mesh_n" in cxa.canon(x)) and
                    cxa.canon(x).count("[") == cxa.canon(u.store.target).count("[")]
            tgt = cxa.canon(u.store.target)
            # rename the species loop variable of Apply_nevt (j) to that of Compute_nevt where they differ
            same = [x for x in used if x == tgt or x.replace("j", "s") == tgt.replace("j", "s")]
            ctx.check(used and len(same) == len(used), R, g.node, g.qual, "%s applied as %s" % (tab, sorted(set(used))[:2]),
                      "read back at the index it was stored at (%s)" % tgt, "counts are applied at another index than they were "
                      "drawn at")
    # all counts of a step are drawn from the state before the step: the whole drawing pass, then the whole applying pass
    from .c01 import two_phase_calls
    for cn in TAU:
        it = tu.fn(cn + "::Iterate")
        ok2, why2 = two_phase_calls(it.body, "Compute_nevt", "Apply_nevt")
        ctx.check(ok2, R, it.node, it.qual, "Compute_nevt for every cell, then Apply_nevt", "every count is Poisson(propensity in "
                  "the state before the step x dt)", "the counts are not all drawn before the first one is applied (%s): channels "
                  "drawn later see a partly updated state" % why2)
        comp = tu.fn(cn + "::Compute_nevt")
        w_ = cxa.Effects(tu).writes(comp.qual)
        ctx.check("f:mesh_x" not in w_, R, comp.node, comp.qual, "Compute_nevt does not write the state", "", "the drawing pass "
                  "modifies the state it draws from")
    # the time a step accounts for is the time the counts were drawn for: Iterate advances the clock by that same dt
    for cn in TAU:
        it = tu.fn(cn + "::Iterate")
        adv = [s_ for s_ in cxa.all_stores(it.body) if s_.base == ("field", "t")]
        ctx.need(adv, R, "%s: no clock update" % it.qual)
        for s_ in adv:
            rhs = uname(strip(s_.rhs, casts=True)) if s_.rhs is not None else None
            ctx.check(s_.op == "+=" and rhs == "dt", R, s_.node, it.qual, text(s_.node)[:60], "the clock advances by the dt of "
                      "Poisson(propensity x dt)", "the step advances the clock by `%s` while the firings were drawn for `dt`: over "
                      "such a step the counts are not Poisson with mean propensity x elapsed time" % (rhs or text(s_.node)[:30]))
    # the sampler behind Poisson(lambda): every value it returns is 0 (for a non-positive mean) or one draw of
    # std::poisson_distribution constructed with that very mean, from the engine's generator
    for b in BASES:
        f = tu.fn(b + "::Poisson")
        lam = f.param_names()[0]
        rets = [n for n in walk(f.body) if n.get("kind") == "ReturnStmt" and kids(n)]
        ctx.need(rets, R, "%s: no return" % f.qual)
        for r in rets:
            v = strip(kids(r)[0], casts=True)
            if cxa.const_int(v) == 0:
                ctx.ok(R, r, f.qual, text(r)[:60], "no firing for a non-positive mean (guard order: C11.POISSON)", nontrivial=False)
                continue
            okk = False
            if v.get("kind") == "CXXOperatorCallExpr" and name_of(kids(v)[0]) == "operator()":
                obj, args = strip(kids(v)[1], casts=True), kids(v)[2:]
                ty = obj.get("type", {}).get("qualType", "")
                ctor_args = [strip(a, casts=True) for a in kids(obj)] if obj.get("kind") in (
                    "CXXTemporaryObjectExpr", "CXXConstructExpr", "CXXFunctionalCastExpr") else []
                while len(ctor_args) == 1 and ctor_args[0].get("kind") in ("CXXConstructExpr", "CXXTemporaryObjectExpr"):
                    ctor_args = [strip(a, casts=True) for a in kids(ctor_args[0])]
                okk = "poisson_distribution" in ty and len(ctor_args) == 1 and uname(ctor_args[0]) == lam and \
                    len(args) == 1 and name_of(strip(args[0], casts=True)) == "rng"
            ctx.check(okk, R, r, f.qual, text(r)[:100], "one draw of std::poisson_distribution(%s) from rng" % lam,
                      "a value returned by Poisson(%s) is not a draw of std::poisson_distribution(%s)(rng): the number of "
                      "firings of a channel over a step is no longer Poisson with mean propensity x dt" % (lam, lam))
    ctx.floor(R, 14)


def rule_draws(ctx, tu):
    """C07.DRAWS -- event choice and waiting time are independent: the selection threshold (r = U * a0) and the waiting time
    (dt = log(1/U') / a0) are each computed from their own call of the uniform generator; one draw stored in a variable (or
    passed as a parameter) and used for both makes long waits go with the first channels of the list"""
    R = "C07.DRAWS"

    def is_draw(x):
        x = strip(x)
        return x.get("kind") == "CXXOperatorCallExpr" and name_of(kids(x)[0]) == "operator()" and \
            name_of(strip(kids(x)[1], casts=True)) == "uiud"
    def draws_in(e, f):
        """generator calls feeding expression e: written in place, or parked in a local that is read exactly once"""
        out = [y for y in walk(e) if is_draw(y)]
        for y in walk(e):
            if y.get("kind") == "DeclRefExpr":
                did = y.get("referencedDecl", {}).get("id")
                decl = [d for d in walk(f.body) if d.get("kind") == "VarDecl" and d.get("id") == did and kids(d)]
                if len(decl) == 1 and is_draw(kids(decl[0])[-1]):
                    uses = [z for z in walk(f.body) if z.get("kind") == "DeclRefExpr" and z.get("referencedDecl", {}).get("id") == did]
                    if len(uses) == 1:
                        out.append(kids(decl[0])[-1])
        return out
    for cn in GILL:
        it, dr = tu.fn(cn + "::Iterate"), tu.fn(cn + "::DrawAndApplyEvent")
        roles = {}
        # the threshold
        thr = [n for n in walk(dr.body) if n.get("kind") == "VarDecl" and kids(n) and any(name_of(y) == "a0" for y in walk(n))
               and not any(name_of(y) in ("mesh_a0r", "mesh_a0d") for y in walk(n))]
        ctx.need(len(thr) >= 1, R, "%s: selection threshold (U * a0) not found" % dr.qual)
        d1 = draws_in(kids(thr[0])[-1], dr)
        ctx.check(len(d1) == 1, R, thr[0], dr.qual, text(thr[0])[:70], "threshold = its own uniform draw x a0",
                  "the selection threshold is not computed from a generator call of its own (it takes %s): the draw is shared with "
                  "another use" % sorted({uname(y) for y in walk(kids(thr[0])[-1]) if y.get("kind") == "DeclRefExpr"}))
        # the waiting time
        st = [s_ for s_ in cxa.all_stores(it.body) if s_.base and s_.base[1] == "dt" and s_.op == "="]
        ctx.need(len(st) == 1, R, "%s: waiting-time assignment not found" % it.qual)
        d2 = draws_in(st[0].rhs, it)
        ctx.check(len(d2) == 1 and any(call_parts(y) and call_parts(y)[0] == "log" for y in walk(st[0].rhs)), R, st[0].node, it.qual,
                  text(st[0].node)[:70], "dt = log(1/U)/a0 with its own uniform draw",
                  "the waiting time is not computed from a generator call of its own: it re-uses a value drawn for something else")
        # no draw is parked in a variable that is read more than once
        for f in (it, dr):
            for n in walk(f.body):
                if n.get("kind") == "VarDecl" and kids(n) and is_draw(kids(n)[-1]):
                    uses = [y for y in walk(f.body) if y.get("kind") == "DeclRefExpr" and
                            y.get("referencedDecl", {}).get("id") == n.get("id")]
                    ctx.check(len(uses) <= 1, R, n, f.qual, text(n)[:60], "a draw feeds one quantity",
                              "one uniform draw is used %d times" % len(uses))
    ctx.floor(R, 4)


def rule_all_channels(ctx, tu):
    """C07.ALL-CHANNELS -- the propensity of every channel of every cell is (re)computed on every step: the stores into the
    propensity tables and into a0 depend on nothing but the loop ranges and the existence of the neighbour.  A shortcut that
    skips cells by their content (an `empty` cell still hosts zero-order reactions and receives molecules) leaves stale or
    missing propensities, so a0 is not the total rate."""
    R = "C07.ALL-CHANNELS"
    import re
    n = 0
    for cn in GILL + TAU:
        for fname in ("ComputePropensities", "Compute_nevt"):
            c = tu.classes[cn]
            if fname not in c.methods:
                continue
            f = c.methods[fname]
            recs = []

            def on_atom(node, facts, recs=recs):
                for x in walk(node):
                    for s_ in cxa.stores_of_node(x):
                        if s_.base and s_.base[0] == "field" and s_.base[1] != "mesh_x":
                            recs.append((s_, frozenset(facts)))
            cxa.canon_facts(f.body, on_atom=on_atom)
            for s_, facts in recs:
                extra = []
                for t, pol in facts:
                    if not isinstance(t, str):
                        continue
                    if re.match(r"^[A-Za-z_][A-Za-z_0-9']* < ", t) or re.match(r"^0 <= ", t):
                        continue                      # loop ranges
                    if t.startswith(("mesh_neighbors[", "mesh_neighbor_index[")) and t.endswith("== -1"):
                        continue                      # the neighbour exists
                    extra.append(("" if pol else "!") + "(" + t + ")")
                n += 1
                ctx.check(not extra, R, s_.node, f.qual, text(s_.node)[:70], "computed for every cell and channel",
                          "the entry is written only under %s: cells / channels excluded by that test keep a stale or missing "
                          "propensity (zero-order sources, molecules that have just arrived)" % ", ".join(sorted(extra))[:140],
                          nontrivial=False)
    ctx.floor(R, 20)


def rule_molecules(ctx, py, R="C07.UNITS"):
    """the stochastic engines count molecules: every LibRDEngine built for the option "gillespie" or "tauleap" is built with
    requires_molecules=True (the flag that forces the engine's quantity unit to the molecule); with the script's own quantity
    unit (mol, nmol) the integer counts of the propensities and of the Poisson draws are counts of something else"""
    import ast
    from .. import pyfe, pysym
    m = py.mods.get("engine_collection")
    ctx.need(m is not None, R, "module engine_collection not found")
    n = 0
    for f in m.funcs.values():
        for c in pyfe.calls_in(f):
            if pyfe.call_name(c).split(".")[-1] != "LibRDEngine":
                continue
            opt = pyfe.arg(c, 1, "option")
            req = pyfe.arg(c, 3, "requires_molecules")
            opt = pysym.inline(opt, f) if opt is not None else None
            req = pysym.inline(req, f) if req is not None else None
            if not (isinstance(opt, ast.Constant) and isinstance(opt.value, str)):
                continue                 # a generic builder: judged where it is called with a literal option (helpers are inlined)
            n += 1
            if opt.value in ("gillespie", "tauleap"):
                ok = isinstance(req, ast.Constant) and req.value is True
                ctx.check(ok, R, c, f._qual, "LibRDEngine(option=%r, requires_molecules=%s)" % (opt.value, pyfe.src(req) if req is not None
                          else "<default>"), "stochastic engines run in molecules", "the %s engine is built without "
                          "requires_molecules=True: it counts in the script's quantity unit, propensities and Poisson means are not "
                          "those of molecule numbers" % opt.value)
            else:
                ctx.ok(R, c, f._qual, "LibRDEngine(option=%r)" % opt.value, "deterministic engine: any quantity unit")
    ctx.need(n >= 3, R, "engine_collection: the three engine constructions with a literal option are not found (%d)" % n)


def run(ctx):
    tu = ctx.cx
    rule_one_event(ctx, tu)
    rule_unit_move(ctx, tu)
    rule_src_dec(ctx, tu)
    rule_prop(ctx, tu)
    rule_partition(ctx, tu)
    rule_tau(ctx, tu)
    rule_draws(ctx, tu)
    rule_all_channels(ctx, tu)
    # a diffusion event is one molecule leaving the source and entering the direction's neighbour, each half suppressed only
    # by the chemostat flag of its own entry (otherwise a selected event is a no-op or half an event)
    from . import c02
    c02.rule_pair(ctx, tu, "C07.PAIR")
    # propensities count molecules: every number the stochastic engines receive is converted to the engine's units system, whose
    # amount unit was forced to `molecule` beforehand (shared with C04.BOUNDARY)
    from . import c04
    c04.rule_boundary(ctx, ctx.py, tu, "C07.UNITS")
    rule_molecules(ctx, ctx.py)
    from .. import dim
    dim.rule_stochastic(ctx, tu, "C07.DIM")
    from .. import argorder
    argorder.rule(ctx, "C07.ARGS", py_modules=(), cx=True)
    from .. import lints
    lints.unused(ctx, "C07.PARAMS", ctx.py, (), ctx.cx)
    from .. import ffi
    ffi.rule_sig(ctx, "C07.FFI")
    from ..core import borrow
    from . import c01 as _c01
    from .. import idx as _idx
    # shared clause: every engine table is addressed in its one layout (C01.LAYOUT): the propensities read the constants and the
    # reactant coefficients of their own (cell, reaction, species)
    borrow(ctx, "C07", _c01.rule_layout, tu, _idx.Idx(tu), ctx.py)
    from .. import lints as _l
    # shared clause: every direction of the neighbour table is scanned where diffusion events are listed and drawn (C15.NBR-USE)
    from . import c15 as _c15
    borrow(ctx, "C07", _c15.rule_nbr_use, tu)
    _l.run(ctx, "C07", ctx.py, ["librdengine"])
    ctx.assume("NOT decided: that waiting times and event choices follow the master-equation distribution, the Poisson "
               "law of tau-leap counts, non-negativity of states, strict increase of time (distributional / value-level)")
    ctx.assume("chemostat exemption is C03.GUARD-ID; the pairing rule is shared with C02.PAIR")
