"""Package-wide disciplines that today's tree follows without exception (confirmed by reading; the exceptions are named
below with their reason).  Each is a necessary-condition lint in the sense of Engler et al.: the code base itself states the
belief (0 deviations in 413 functions), a deviation contradicts it.

  LOSSY   the package never rounds, truncates, floor-divides, formats with a fixed precision or compares with a tolerance:
          amounts, times and coordinates travel as Python floats and are printed with str().  Any such operation loses
          digits somewhere between input, engine and output (round trips, conservation, exact comparisons).
  PURE    no function modifies an object it received as an argument (setters modify `self`, nothing else): a caller's
          script, system, array or dictionary is the same after the call as before.
(TRUTH, the truthiness discipline, lives in sa/truth.py.)"""
import ast

from . import pyfe

LOSSY_CALLS = {"round", "floor", "ceil", "trunc", "rint", "around", "round_", "fix", "isclose", "allclose", "format_float_positional",
               "format_float_scientific", "array2string", "set_printoptions", "nextafter", "float32", "float16", "half", "single",
               "quantize", "nan_to_num"}
LOSSY_METHODS = {"round", "astype"}      # x.round(n) ; x.astype(int / float32)


def _fmt_spec(node):
    """a %-format or format-spec that fixes the number of digits of a float"""
    if isinstance(node, ast.BinOp) and isinstance(node.op, ast.Mod) and isinstance(node.left, ast.Constant) and \
            isinstance(node.left.value, str):
        import re
        return bool(re.search(r"%[-+ #0]*\d*(\.\d+)?[eEfFgG]", node.left.value))
    if isinstance(node, ast.JoinedStr):
        for v in node.values:
            if isinstance(v, ast.FormattedValue) and v.format_spec is not None:
                return True
    if isinstance(node, ast.Call) and isinstance(node.func, ast.Attribute) and node.func.attr == "format" and \
            isinstance(node.func.value, ast.Constant) and isinstance(node.func.value.value, str):
        import re
        return bool(re.search(r"\{[^}]*:[^}]*[eEfFgG%]\}", node.func.value.value))
    if isinstance(node, ast.Call) and isinstance(node.func, ast.Name) and node.func.id == "format" and len(node.args) == 2:
        return True
    return False


LOSSY_OK = {"simulate._print_progress": "console progress display only, never stored or parsed"}


def lossy(ctx, R, py, modules):
    n = 0
    for mn in modules:
        m = py.mods.get(mn)
        ctx.need(m is not None, R, "module %s not found" % mn)
        for f in m.funcs.values():
            bad = []
            if f._qual in LOSSY_OK:
                continue
            for x in ast.walk(f):
                if isinstance(x, (ast.BinOp, ast.AugAssign)) and isinstance(x.op, ast.FloorDiv):
                    bad.append((x, "floor division"))
                elif isinstance(x, ast.Call):
                    nm = pyfe.call_name(x).split(".")[-1]
                    if isinstance(x.func, ast.Name) and nm in LOSSY_CALLS or \
                            (isinstance(x.func, ast.Attribute) and nm in LOSSY_CALLS and pyfe.src(x.func.value) in
                             ("np", "numpy", "math", "decimal", "Decimal")):
                        bad.append((x, "%s(...)" % nm))
                    elif isinstance(x.func, ast.Attribute) and nm == "round":
                        bad.append((x, ".round(...)"))
                    elif isinstance(x.func, ast.Attribute) and nm == "astype" and x.args and \
                            pyfe.src(x.args[0]).split(".")[-1] in ("int", "int32", "int64", "float32", "float16", "intc", "uint8"):
                        bad.append((x, ".astype(%s)" % pyfe.src(x.args[0])))
                    elif _fmt_spec(x):
                        bad.append((x, "fixed-precision formatting"))
                    for k_ in x.keywords:
                        if k_.arg == "dtype" and pyfe.src(k_.value).replace("'", "").replace('"', "").split(".")[-1] in (
                                "float32", "float16", "half", "single", "f4", "f2", "float_", "longdouble", "int8", "int16", "uint8"):
                            bad.append((x, "narrow element type %s" % pyfe.src(k_.value)))
                        elif k_.arg == "dtype" and not isinstance(k_.value, (ast.Name, ast.Attribute, ast.Constant)):
                            # every array of the package is created with a literal element type (float / int); a computed one
                            # makes the precision of the stored numbers depend on what the caller happened to pass
                            bad.append((x, "element type computed at run time (%s)" % pyfe.src(k_.value)[:40]))
                elif _fmt_spec(x):
                    bad.append((x, "fixed-precision formatting"))
            n += 1
            if bad:
                for x, what in bad[:3]:
                    ctx.violation(R, x, f._qual, pyfe.src(x)[:70], "%s: the package carries amounts, times and coordinates as exact "
                                  "floats everywhere else; this operation drops digits (round trips, totals and exact comparisons "
                                  "no longer hold for the values it touches)" % what)
            else:
                ctx.ok(R, f, f._qual, "no rounding / truncation / tolerance / fixed-precision text", "exact floats", nontrivial=False)
    return n


# named exceptions of PURE (one reason each)
PURE_OK = {
    ("librdengine.LibRDEngine.__init__", "lib"): "the freshly loaded ctypes library object: declaring restype is its configuration",
    ("rdspace.rdspace_from_dict", "d"): "adds the default 'type' to the caller's dictionary (pinned behaviour; harmless on re-read)",
}
MUTATORS = ("append", "extend", "insert", "pop", "remove", "clear", "sort", "reverse", "update", "setdefault", "fill", "resize",
            "popitem", "put", "itemset")


def pure(ctx, R, py, modules):
    n = 0
    for mn in modules:
        m = py.mods.get(mn)
        ctx.need(m is not None, R, "module %s not found" % mn)
        for f in m.funcs.values():
            ps = set(pyfe.params(f)) - {"self", "cls"}
            if not ps:
                continue
            rebound = {t.id for x in ast.walk(f) if isinstance(x, ast.Assign) for t in x.targets if isinstance(t, ast.Name)}
            rebound |= {x.target.id for x in ast.walk(f) if isinstance(x, ast.For) and isinstance(x.target, ast.Name)}
            bad = []
            for x in ast.walk(f):
                tg = []
                if isinstance(x, ast.Assign):
                    tg = x.targets
                elif isinstance(x, ast.AugAssign):
                    tg = [x.target]
                elif isinstance(x, ast.Delete):
                    tg = x.targets
                for t in tg:
                    b = t
                    while isinstance(b, (ast.Attribute, ast.Subscript)):
                        b = b.value
                    if not (isinstance(b, ast.Name) and b.id in ps):
                        continue
                    if t is b and not isinstance(x, ast.AugAssign):
                        continue          # plain rebinding of the local name
                    if b.id in rebound and not (t is b):
                        continue          # the name was rebound (to a copy, typically) before: not the caller's object any more
                    if t is b and isinstance(x, ast.AugAssign) and b.id in rebound:
                        continue
                    if (f._qual, b.id) in PURE_OK:
                        continue
                    bad.append((x, "`%s` is %s" % (pyfe.src(t)[:40], "updated in place (an ndarray argument is modified for the "
                                "caller too)" if t is b else "written")))
                if isinstance(x, ast.Call) and isinstance(x.func, ast.Attribute) and x.func.attr in MUTATORS:
                    b = x.func.value
                    while isinstance(b, (ast.Attribute, ast.Subscript)):
                        b = b.value
                    if isinstance(b, ast.Name) and b.id in ps and b.id not in rebound and (f._qual, b.id) not in PURE_OK:
                        bad.append((x, "`%s` is modified in place" % pyfe.src(x.func.value)[:40]))
            n += 1
            if bad:
                x, why = bad[0]
                ctx.violation(R, x, f._qual, pyfe.src(x)[:70], "%s: the function changes an object its caller passed in; every other "
                              "function of the package leaves its arguments untouched, and callers rely on it (a script / array / "
                              "quantity used twice gives the same result twice)" % why)
            else:
                ctx.ok(R, f, f._qual, "arguments %s only read" % sorted(ps)[:4], "", nontrivial=False)
    return n


_KNOWN_ATTRS = None


def _known_attrs(py):
    """every attribute name a method call can legitimately use: names defined anywhere in the package (functions, classes,
    attributes stored into objects, module-level names), the methods of the builtin types, and the public names of the libraries
    the package imports (their own dir(); nothing of the package itself is imported or run)"""
    global _KNOWN_ATTRS
    if _KNOWN_ATTRS is not None:
        return _KNOWN_ATTRS
    pkg = set()
    for m in py.mods.values():
        for n in ast.walk(m.tree):
            if isinstance(n, (ast.FunctionDef, ast.ClassDef)):
                pkg.add(n.name)
            elif isinstance(n, ast.Attribute) and isinstance(n.ctx, ast.Store):
                pkg.add(n.attr)
            elif isinstance(n, ast.Assign):
                for t in n.targets:
                    if isinstance(t, ast.Name):
                        pkg.add(t.id)
    for t in (str, list, dict, set, tuple, int, float, bytes, frozenset, complex, object, type(None), BaseException):
        pkg |= set(dir(t))
    import importlib
    for modname in ("numpy", "numpy.random", "ctypes", "json", "pathlib", "copy", "random", "math", "os", "os.path", "io", "functools",
                    "itertools", "re", "sys", "warnings", "time"):
        try:
            mod = importlib.import_module(modname)
            pkg |= set(dir(mod))
        except Exception:
            pass
    try:
        import numpy, pathlib, ctypes, io
        pkg |= set(dir(numpy.ndarray)) | set(dir(pathlib.Path)) | set(dir(ctypes.CDLL)) | set(dir(io.TextIOWrapper)) | \
            set(dir(numpy.random.RandomState))
    except Exception:
        pass
    _KNOWN_ATTRS = pkg
    return pkg


def names(ctx, R, py, modules):
    """every name and every self-attribute used in the module's functions resolves (parameter, local, enclosing function,
    module binding incl. star imports, builtin; attribute / method / property of the class or its bases): otherwise reaching
    the line raises NameError / AttributeError instead of doing what the property describes"""
    from . import res
    n = 0
    for mn in modules:
        m = py.mods.get(mn)
        ctx.need(m is not None, R, "module %s not found" % mn)
        for f in m.funcs.values():
            bad = res.unresolved_names(py, f)
            battr = res.unresolved_self_attrs(py, f)
            n += 1
            if not bad and not battr:
                ctx.ok(R, f, f._qual, "names of %s resolve" % f.name, "", nontrivial=False)
            for x in bad:
                ctx.violation(R, x, f._qual, "name `%s`" % x.id, "`%s` is not a parameter, local, module-level binding or builtin: "
                              "reaching this line raises NameError" % x.id)
            for x in battr:
                ctx.violation(R, x, f._qual, "self.%s" % x.attr, "no such attribute, method or property in the class: reaching "
                              "this line raises AttributeError")
            known = _known_attrs(py)
            for c in pyfe.calls_in(f):
                if isinstance(c.func, ast.Attribute) and c.func.attr not in known and not c.func.attr.startswith("engineexport_"):
                    ctx.violation(R, c, f._qual, pyfe.src(c)[:70], "a method named `%s` is defined nowhere (not in the package, not on "
                                  "the builtin types, not in the libraries it uses): reaching this call raises AttributeError" %
                                  c.func.attr)
    return n


QTY_ATTRS = {"convert", "value", "units", "get_at", "set_at", "copy"}


def acc(ctx, R, py, modules):
    """ACC -- an accumulator that starts as a bare number (`d = 0`) and is used as a quantity afterwards (`d.convert(..)`,
    `d.value`) must be given a quantity on *every* path: if all its updates sit inside loops or branches, the empty loop (a
    network without reactions, a cell without neighbours) leaves the bare number and the call raises AttributeError."""
    n = 0
    for mn in modules:
        m = py.mods.get(mn)
        ctx.need(m is not None, R, "module %s not found" % mn)
        for f in m.funcs.values():
            inits = {}
            for st in f.body:
                if isinstance(st, ast.Assign) and len(st.targets) == 1 and isinstance(st.targets[0], ast.Name) and \
                        isinstance(st.value, ast.Constant) and isinstance(st.value.value, (int, float)) and \
                        not isinstance(st.value.value, bool):
                    inits[st.targets[0].id] = st
            if not inits:
                continue
            for name, init in inits.items():
                uses = [x for x in ast.walk(f) if isinstance(x, ast.Attribute) and isinstance(x.value, ast.Name) and
                        x.value.id == name and x.attr in QTY_ATTRS]
                if not uses:
                    continue
                n += 1
                # unconditional re-definitions at the function's top level, after the initialisation
                top = [st for st in f.body if st is not init and isinstance(st, (ast.Assign, ast.AugAssign)) and any(
                    isinstance(t, ast.Name) and t.id == name for t in (st.targets if isinstance(st, ast.Assign) else [st.target]))]
                guarded = [u for u in uses if _guarded_by_type(u, name)]
                ok = bool(top) or len(guarded) == len(uses)
                ctx.check(ok, R, uses[0], f._qual, "`%s = %s` then `%s`" % (name, pyfe.src(init.value), pyfe.src(uses[0])[:40]),
                          "a quantity on every path", "`%s` starts as the bare number %s and is only updated inside loops / branches; "
                          "when those do not run (no reaction, no neighbour) `%s` is applied to a number and raises AttributeError"
                          % (name, pyfe.src(init.value), pyfe.src(uses[0])[:40]))
    return n


def _guarded_by_type(use, name):
    p_ = pyfe.parent(use)
    while p_ is not None and not isinstance(p_, ast.FunctionDef):
        if isinstance(p_, ast.If):
            t = pyfe.src(p_.test)
            if name in t and ("type(" in t or "isinstance(" in t or "isnumber(" in t or "isunit" in t):
                return True
        p_ = pyfe.parent(p_)
    return False


def copies(ctx, R, py, modules):
    """COPY -- `x.copy()` returns an object equal to x in every field: the package's copy methods deep-copy `self`; a copy built
    through the constructor must pass every constructor parameter from the matching attribute of self (a forgotten one
    silently reverts to its default: RDScript / RDTrajectory / simulate() all work on copies)"""
    n = 0
    for mn in modules:
        m = py.mods.get(mn)
        ctx.need(m is not None, R, "module %s not found" % mn)
        for f in m.funcs.values():
            if f.name != "copy" or getattr(f, "_cls", None) is None:
                continue
            rets = [r for r in ast.walk(f) if isinstance(r, ast.Return) and r.value is not None]
            n += 1
            if len(rets) != 1:
                ctx.violation(R, f, f._qual, "copy()", "copy() does not end in a single `return <copy of self>`")
                continue
            from . import pysym
            v = pysym.inline(rets[0].value, f)
            t = pyfe.src(v).replace(" ", "")
            if t in ("cpy.deepcopy(self)", "copy.deepcopy(self)", "deepcopy(self)"):
                ctx.ok(R, rets[0], f._qual, "return %s" % t, "deep copy of every attribute")
                continue
            cname = f._cls.name
            if isinstance(v, ast.Call) and pyfe.call_name(v).split(".")[-1] in (cname, "type(self)", "__class__"):
                init = py.lookup_method(f._cls, "__init__")
                ps = [p for p in pyfe.params(init) if p != "self"] if init is not None else []
                kw = {k.arg: k.value for k in v.keywords}
                for i, a in enumerate(v.args):
                    if i < len(ps):
                        kw[ps[i]] = a
                missing = [p for p in ps if p not in kw]
                wrong = [p for p in ps if p in kw and not any(pyfe.src(kw[p]).replace(" ", "").startswith(x) for x in (
                    "self.%s" % p, "self._%s" % p, "cpy.deepcopy(self.%s" % p, "copy.deepcopy(self.%s" % p, "cpy.deepcopy(self._%s" % p))]
                ctx.check(not missing and not wrong, R, rets[0], f._qual, "return %s(...)" % cname, "every constructor parameter from "
                          "the matching attribute of self", "the copy is built without %s%s: that field of the copy is the "
                          "constructor's default (or another attribute), not the original's" % (
                              ", ".join("`%s`" % p for p in missing), (" and with a mismatched " + ", ".join(wrong)) if wrong else ""))
            else:
                ctx.violation(R, rets[0], f._qual, "return %s" % pyfe.src(v)[:60], "copy() neither deep-copies self nor rebuilds it "
                              "through its own constructor")
    return n


MUTATOR_NAMES = {"__init__", "__setitem__", "_fromstring", "apply_reaction", "setup", "run", "iterate", "iterate_n", "sample",
                 "finalize", "is_valid"}     # is_valid stores its error message


def query(ctx, R, py, modules):
    """QUERY -- objects change only through constructors, setters and the named mutators (set_* / reset_* / _set_*, the engine's
    setup / run / iterate, ...): every other method is a query and stores nothing in `self`.  A query that memoises (a cached
    view of the data, a remembered count) answers from the cache after the object was changed through its public setters."""
    n = 0
    for mn in modules:
        m = py.mods.get(mn)
        ctx.need(m is not None, R, "module %s not found" % mn)
        for f in m.funcs.values():
            if getattr(f, "_cls", None) is None or "self" not in pyfe.params(f):
                continue
            nm = f.name
            if getattr(f, "_role", "") == "setter" or nm in MUTATOR_NAMES or nm.startswith(("set_", "reset_", "_set_", "_setup")):
                continue
            st = []
            for x in ast.walk(f):
                tg = x.targets if isinstance(x, ast.Assign) else [x.target] if isinstance(x, (ast.AugAssign, ast.AnnAssign)) else []
                for t in tg:
                    b = t
                    while isinstance(b, (ast.Attribute, ast.Subscript)):
                        b = b.value
                    if isinstance(b, ast.Name) and b.id == "self" and t is not b:
                        st.append(x)
            n += 1
            ctx.check(not st, R, st[0] if st else f, f._qual, "query %s stores nothing in self" % nm if not st else pyfe.src(st[0])[:70],
                      "", "`%s` is not a constructor, a setter or a named mutator, yet it writes `%s`: state kept by a query goes stale "
                      "when the object is modified through its setters, later queries answer from it" % (
                          nm, pyfe.src(st[0].targets[0] if isinstance(st[0], ast.Assign) else st[0].target)[:40]) if st else "",
                      nontrivial=False)
    return n


CX_PROPS = {"C01", "C02", "C03", "C09", "C10", "C14", "C15"}


def memo(ctx, R, py, modules):
    """MEMO -- nothing in the package is memoised: every function recomputes its result from its arguments and from the current
    state of the objects it is given.  A cache decorator (functools.lru_cache / cache / cached_property) or a module-level
    dictionary filled by a function hands out one shared mutable object to every caller and keeps answering for a model that
    has been edited since (species, environments, files re-written under the same name)."""
    n = 0
    for mn in modules:
        m = py.mods.get(mn)
        ctx.need(m is not None, R, "module %s not found" % mn)
        fns = []
        for f in m.funcs.values():
            fns.append(f)
            fns += [x for x in ast.walk(f) if isinstance(x, ast.FunctionDef) and x is not f]
        # module-level names (tables, constants): read-only for every function
        glob = set()
        for st in m.tree.body:
            tg = st.targets if isinstance(st, ast.Assign) else [st.target] if isinstance(st, (ast.AnnAssign, ast.AugAssign)) else []
            for t in tg:
                glob |= {x.id for x in ast.walk(t) if isinstance(x, ast.Name)}
        for f in fns:
            if not glob:
                break
            declared = set()
            for x in ast.walk(f):
                if isinstance(x, ast.Global):
                    declared |= set(x.names)
            local = set(pyfe.params(f)) | {a.arg for a in ast.walk(f.args) if isinstance(a, ast.arg)}
            for x in ast.walk(f):
                if isinstance(x, ast.Name) and isinstance(x.ctx, ast.Store) and x.id not in declared:
                    local.add(x.id)
            wr = []
            for x in ast.walk(f):
                tg = x.targets if isinstance(x, ast.Assign) else [x.target] if isinstance(x, (ast.AugAssign, ast.AnnAssign)) else \
                    x.targets if isinstance(x, ast.Delete) else []
                for t in tg:
                    b = t
                    while isinstance(b, (ast.Attribute, ast.Subscript)):
                        b = b.value
                    if isinstance(b, ast.Name) and b.id in glob and b.id not in local and (t is not b or b.id in declared):
                        wr.append((x, b.id))
                if isinstance(x, ast.Call) and isinstance(x.func, ast.Attribute) and isinstance(x.func.value, ast.Name) and \
                        x.func.value.id in glob and x.func.value.id not in local and \
                        x.func.attr in ("append", "add", "update", "setdefault", "extend", "insert", "pop", "popitem", "clear",
                                        "remove", "discard", "sort", "reverse", "fill", "put", "resize"):
                    wr.append((x, x.func.value.id))
            q = getattr(f, "_qual", mn + "." + f.name)
            n += 1
            ctx.check(not wr, R, wr[0][0] if wr else f, q, "%s writes no module-level object" % f.name if not wr else
                      pyfe.src(wr[0][0])[:70], "", "`%s` stores into the module-level object `%s`: what the function returns then "
                      "depends on the calls made earlier in the process (another model, another script, the same labels with "
                      "other content)" % (f.name, wr[0][1] if wr else ""), nontrivial=False)
        for f in fns:
            n += 1
            decs = [pyfe.src(d) for d in f.decorator_list]
            bad = [d for d in decs if any(k in d for k in ("lru_cache", "functools.cache", "cached_property", "memoize", "memoise"))
                   or d in ("cache",)]
            q = getattr(f, "_qual", mn + "." + f.name)
            ctx.check(not bad, R, f, q, "decorators of %s: %s" % (f.name, decs or "none"), "no memoisation",
                      "`@%s`: the function's results are cached and shared; a caller that edits the returned object, or a model / "
                      "file that changes between two calls, silently gets the old answer" % (bad[0] if bad else ""), nontrivial=False)
    return n


def copyout(ctx, R, py, modules):
    """COPYOUT -- a getter that promises a copy (its docstring says so) or that hands out a copy today returns a fresh object:
    `.copy()`, dict(..) / list(..), deepcopy(..).  Returning the internal container itself lets a caller's edit change the
    object behind its setters' back (stoichiometry that no longer matches the equation, rate constants of the wrong dimension)."""
    n = 0
    for mn in modules:
        m = py.mods.get(mn)
        ctx.need(m is not None, R, "module %s not found" % mn)
        for f in m.funcs.values():
            if getattr(f, "_role", "") != "getter":
                continue
            doc = (ast.get_docstring(f) or "").lower()
            if "copy of" not in doc and "a copy" not in doc:
                continue
            for r in [x for x in ast.walk(f) if isinstance(x, ast.Return) and x.value is not None]:
                v = r.value
                fresh = isinstance(v, ast.Call) and (
                    (isinstance(v.func, ast.Attribute) and v.func.attr in ("copy", "deepcopy")) or
                    (isinstance(v.func, ast.Name) and v.func.id in ("dict", "list", "tuple", "deepcopy", "UnitValue", "UnitArray")))
                n += 1
                ctx.check(fresh, R, r, f._qual, "return " + pyfe.src(v)[:60], "a fresh copy, as documented",
                          "the getter is documented to return a copy but returns `%s` itself: editing the returned object edits the "
                          "instance without its setters' checks" % pyfe.src(v)[:50])
    return n


UNUSED_OK = {("rdgraphspace.rdgraphspace_from_dict", "base_path"): "graph spaces reference no files: accepted for a uniform reader signature",
             ("rdnetwork.rdnetwork_from_dict", "base_path"): "networks reference no files: accepted for a uniform reader signature",
             ("value_processing.format_unitvar_for_save", "units_system"): "kept for a uniform signature; the value is printed with its own units"}


def unused(ctx, R, py, modules, cx=None):
    """PARAMS -- every parameter is used by its function (three named exceptions keep a uniform signature).  A parameter that is
    accepted and then ignored is the shape of `position ignored`, `units_system ignored`, `policy ignored`: the caller's value
    silently has no effect."""
    n = 0
    for mn in modules:
        m = py.mods.get(mn)
        ctx.need(m is not None, R, "module %s not found" % mn)
        for f in m.funcs.values():
            ps = [p for p in pyfe.params(f) if p not in ("self", "cls")]
            if not ps:
                continue
            body = [st for st in f.body if not (isinstance(st, ast.Expr) and isinstance(st.value, ast.Constant))]
            trivial = lambda st: isinstance(st, ast.Assign) and isinstance(st.value, ast.Constant) and \
                all(isinstance(t_, ast.Name) for t_ in st.targets)
            if all(isinstance(st, (ast.Pass, ast.Raise)) or trivial(st) or (isinstance(st, ast.Return) and (
                    st.value is None or isinstance(st.value, ast.Constant))) for st in body):
                continue        # abstract / stub (constant assignments aside)
            used = {x.id for x in ast.walk(f) if isinstance(x, ast.Name) and isinstance(x.ctx, (ast.Load, ast.Del))}
            used |= {x.id for x in ast.walk(f) if isinstance(x, ast.Name) and isinstance(x.ctx, ast.Store) and False}
            n += 1
            dead = [p for p in ps if p not in used and (f._qual, p) not in UNUSED_OK]
            ctx.check(not dead, R, f, f._qual, "parameters %s" % ps[:6], "all used", "parameter `%s` is never read: whatever the caller "
                      "passes for it has no effect" % (dead[0] if dead else ""), nontrivial=False)
    if cx is not None:
        from .cxfe import walk as cwalk
        for f in cx.all_fns():
            if f.body is None or not f.params:
                continue
            used = {x.get("referencedDecl", {}).get("id") for x in cwalk(f.body) if x.get("kind") == "DeclRefExpr"}
            dead = [p.get("name") for p in f.params if p.get("name") and p.get("id") not in used]
            n += 1
            ctx.check(not dead, R, f.node, f.qual, "parameters %s" % f.param_names()[:6], "all used", "parameter `%s` is never read: the "
                      "value handed over by the caller has no effect" % (dead[0] if dead else ""), nontrivial=False)
    return n


def member(ctx, R, py, modules):
    """MEMBER -- `x in c` asks whether x is one of the elements of c.  When c has been turned into one string (", ".join(labels),
    str(list)) the same expression asks whether x occurs somewhere inside that text: 'E' is found in 'S, ES, P', an undeclared
    label passes a check that was written for a list."""
    n = 0
    for mn in modules:
        m = py.mods.get(mn)
        ctx.need(m is not None, R, "module %s not found" % mn)
        for f in m.funcs.values():
            tests = [c for c in ast.walk(f) if isinstance(c, ast.Compare) and len(c.ops) == 1 and
                     isinstance(c.ops[0], (ast.In, ast.NotIn)) and isinstance(c.comparators[0], ast.Name)]
            if not tests:
                continue
            defs = {}
            for st in ast.walk(f):
                if isinstance(st, ast.Assign) and len(st.targets) == 1 and isinstance(st.targets[0], ast.Name):
                    defs.setdefault(st.targets[0].id, []).append(st.value)
            for c in tests:
                nm = c.comparators[0].id
                ds = defs.get(nm, [])
                if not ds:
                    continue

                def texty(v):
                    if isinstance(v, ast.JoinedStr):
                        return True
                    if isinstance(v, ast.Call) and isinstance(v.func, ast.Attribute) and v.func.attr in ("join", "format"):
                        return True
                    if isinstance(v, ast.Call) and isinstance(v.func, ast.Name) and v.func.id in ("str", "repr"):
                        return True
                    if isinstance(v, ast.BinOp) and isinstance(v.op, (ast.Add, ast.Mod)):
                        return texty(v.left) or texty(v.right) or (isinstance(v.left, ast.Constant) and isinstance(v.left.value, str))
                    return False
                bad = [v for v in ds if texty(v)]
                n += 1
                ctx.check(not bad, R, c, f._qual, pyfe.src(c)[:60], "membership in a collection",
                          "`%s` is text here (`%s = %s`): the test is a substring search, so a value that merely occurs inside "
                          "another element (or inside the separator) counts as present" % (nm, nm, pyfe.src(bad[0])[:50] if bad else ""),
                          nontrivial=False)
    return n


NOCOPY_CALLS = ("asarray", "asanyarray", "ascontiguousarray", "asfarray", "frombuffer", "atleast_1d", "memoryview")
NORMALISERS = ("lower", "upper", "casefold", "title", "capitalize", "swapcase", "strip", "lstrip", "rstrip", "replace")


def exact_labels(ctx, R, py, modules):
    """LABEL -- a label names one object: where an argument is compared with the `.label` of species / reactions (or with the
    environment names) the comparison is on the text as given.  Folding case or trimming either side ("atp " finds "ATP")
    makes two different labels of one network answer to the same name, and the accessor returns the data of whichever comes
    first."""
    from . import pysym
    n = 0
    for mn in modules:
        m = py.mods.get(mn)
        ctx.need(m is not None, R, "module %s not found" % mn)
        for f in m.funcs.values():
            for c in ast.walk(f):
                if not (isinstance(c, ast.Compare) and len(c.ops) == 1 and isinstance(c.ops[0], (ast.Eq, ast.NotEq, ast.In, ast.NotIn))):
                    continue
                sides = [c.left, c.comparators[0]]
                txt = [pyfe.src(x) for x in sides]
                if not any(t.endswith(".label") or ".label." in t or "environments" in t or "labels" in t for t in txt):
                    continue
                if any(isinstance(x, ast.Constant) for x in sides):
                    continue                     # a fixed word ('default') is not a lookup
                n += 1
                full = [pysym.inline(x, f) for x in sides]
                norm = [k.func.attr for x in full for k in ast.walk(x) if isinstance(k, ast.Call) and isinstance(k.func, ast.Attribute)
                        and k.func.attr in NORMALISERS]
                ctx.check(not norm, R, c, f._qual, pyfe.src(c)[:70], "labels compared as given",
                          "the label is compared after `.%s()`: labels that differ only in case / blanks are one name for this "
                          "lookup, and the first of them is returned for both" % (norm[0] if norm else ""), nontrivial=False)
    return n


NOCOPY_METHODS = ("ravel", "reshape", "view", "squeeze", "swapaxes", "transpose")
COPY_CALLS = ("array", "copy", "deepcopy", "list", "tuple", "UnitArray", "UnitValue", "flatten", "tolist", "astype")


def alias(ctx, R, py, modules):
    """ALIAS -- an object keeps its own arrays: what a setter or constructor stores into `self` from an array argument is a copy
    (`np.array(v)`, `v.copy()`), not a view of the caller's buffer (`np.asarray(v)`, `.ravel()`, `.reshape()`): the per-entry
    setters write in place, and a shared buffer makes such a write show up in the caller's array and in every other object built
    from it."""
    from . import pysym
    n = 0
    for mn in modules:
        m = py.mods.get(mn)
        ctx.need(m is not None, R, "module %s not found" % mn)
        for f in m.funcs.values():
            if getattr(f, "_cls", None) is None or not (getattr(f, "_role", "") == "setter" or f.name == "__init__"):
                continue
            ps = set(pyfe.params(f)) - {"self"}
            for st in ast.walk(f):
                if not (isinstance(st, ast.Assign) and len(st.targets) == 1 and isinstance(st.targets[0], ast.Attribute) and
                        isinstance(st.targets[0].value, ast.Name) and st.targets[0].value.id == "self"):
                    continue
                # the stored expression with the re-bindings of the parameter written out (v = np.asarray(v) ; self._x = v)
                chain = [st.value]
                if isinstance(st.value, ast.Name):
                    chain += [a.value for a in ast.walk(f) if isinstance(a, ast.Assign) and len(a.targets) == 1 and
                              isinstance(a.targets[0], ast.Name) and a.targets[0].id == st.value.id and a.lineno < st.lineno]
                view = None
                for e in chain:
                    outer = e
                    # peel the outermost calls: a copying call anywhere outside the view makes the result fresh
                    while isinstance(outer, ast.Call):
                        nm = pyfe.call_name(outer).split(".")[-1]
                        if nm in COPY_CALLS:
                            outer = None
                            break
                        if nm in NOCOPY_CALLS or nm in NOCOPY_METHODS:
                            arg = outer.args[0] if nm in NOCOPY_CALLS and outer.args else \
                                outer.func.value if isinstance(outer.func, ast.Attribute) else None
                            if arg is not None and {x.id for x in ast.walk(arg) if isinstance(x, ast.Name)} & ps:
                                inner_copy = any(isinstance(c_, ast.Call) and pyfe.call_name(c_).split(".")[-1] in COPY_CALLS
                                                 for c_ in ast.walk(arg))
                                if not inner_copy:
                                    view = e
                            outer = arg
                            continue
                        break
                n += 1
                ctx.check(view is None, R, st, f._qual, pyfe.src(st)[:70], "a copy of the argument (or not an array conversion)",
                          "`%s` is a view of the caller's array (no copy is made when the argument already is an int / float "
                          "ndarray): in-place writes through this object's setters change the caller's array and every other "
                          "object sharing it" % (pyfe.src(view)[:50] if view is not None else ""), nontrivial=False)
    return n


def run(ctx, pid, py, modules, truth_floor=1):
    from . import truth
    truth.rule(ctx, pid + ".TRUTH", py, modules, floor=truth_floor)
    nl = lossy(ctx, pid + ".LOSSY", py, modules)
    npu = pure(ctx, pid + ".PURE", py, modules)
    acc(ctx, pid + ".ACC", py, modules)
    copies(ctx, pid + ".COPY", py, modules)
    query(ctx, pid + ".QUERY", py, modules)
    memo(ctx, pid + ".MEMO", py, modules)
    copyout(ctx, pid + ".COPYOUT", py, modules)
    member(ctx, pid + ".MEMBER", py, modules)
    alias(ctx, pid + ".ALIAS", py, modules)
    exact_labels(ctx, pid + ".LABEL", py, modules)
    unused(ctx, pid + ".PARAMS", py, modules, ctx.cx if pid in CX_PROPS else None)
    if pid in CX_PROPS or pid in ("C07", "C16"):
        from . import cxacc
        cxacc.rule(ctx, pid + ".RUNSUM", ctx.cx)
    from . import argorder
    argorder.rule(ctx, pid + ".ARGS", py_modules=modules, cx=pid in CX_PROPS)
    nn = names(ctx, pid + ".NAMES", py, modules)
    ctx.floor(pid + ".NAMES", max(1, nn // 2))
    ctx.floor(pid + ".LOSSY", max(1, nl // 2))
    ctx.floor(pid + ".PURE", max(1, npu // 2))
