"""Package-wide disciplines that today's tree follows without exception (confirmed by reading; the exceptions are named
below with their reason).  Each is a necessary-condition lint in the sense of Engler et al.: the code base itself states the
belief (0 deviations in 413 functions), a deviation contradicts it.

  LOSSY   the package never rounds, truncates, floor-divides, formats with a fixed precision or compares with a tolerance:
          amounts, times and coordinates travel as Python floats and are printed with str().  Any such operation loses
          digits somewhere between input, engine and output (round trips, conservation, exact comparisons).
  PURE    no function modifies an object it received as an argument (setters modify `self`, nothing else): a caller's
          script, system, array or dictionary is the same after the call as before.
(TRUTH, the truthiness discipline, lives in sa/truth.py.)"""
import ast

from . import pyfe

LOSSY_CALLS = {"round", "floor", "ceil", "trunc", "rint", "around", "round_", "fix", "isclose", "allclose", "format_float_positional",
               "format_float_scientific", "array2string", "set_printoptions", "nextafter", "float32", "float16", "half", "single",
               "quantize", "nan_to_num"}
LOSSY_METHODS = {"round", "astype"}      # x.round(n) ; x.astype(int / float32)


def _fmt_spec(node):
    """a %-format or format-spec that fixes the number of digits of a float"""
    if isinstance(node, ast.BinOp) and isinstance(node.op, ast.Mod) and isinstance(node.left, ast.Constant) and \
            isinstance(node.left.value, str):
        import re
        return bool(re.search(r"%[-+ #0]*\d*(\.\d+)?[eEfFgG]", node.left.value))
    if isinstance(node, ast.JoinedStr):
        for v in node.values:
            if isinstance(v, ast.FormattedValue) and v.format_spec is not None:
                return True
    if isinstance(node, ast.Call) and isinstance(node.func, ast.Attribute) and node.func.attr == "format" and \
            isinstance(node.func.value, ast.Constant) and isinstance(node.func.value.value, str):
        import re
        return bool(re.search(r"\{[^}]*:[^}]*[eEfFgG%]\}", node.func.value.value))
    if isinstance(node, ast.Call) and isinstance(node.func, ast.Name) and node.func.id == "format" and len(node.args) == 2:
        return True
    return False


LOSSY_OK = {"simulate._print_progress": "console progress display only, never stored or parsed"}


def lossy(ctx, R, py, modules):
    n = 0
    for mn in modules:
        m = py.mods.get(mn)
        ctx.need(m is not None, R, "module %s not found" % mn)
        for f in m.funcs.values():
            bad = []
            if f._qual in LOSSY_OK:
                continue
            for x in ast.walk(f):
                if isinstance(x, (ast.BinOp, ast.AugAssign)) and isinstance(x.op, ast.FloorDiv):
                    bad.append((x, "floor division"))
                elif isinstance(x, ast.Call):
                    nm = pyfe.call_name(x).split(".")[-1]
                    if isinstance(x.func, ast.Name) and nm in LOSSY_CALLS or \
                            (isinstance(x.func, ast.Attribute) and nm in LOSSY_CALLS and pyfe.src(x.func.value) in
                             ("np", "numpy", "math", "decimal", "Decimal")):
                        bad.append((x, "%s(...)" % nm))
                    elif isinstance(x.func, ast.Attribute) and nm == "round":
                        bad.append((x, ".round(...)"))
                    elif isinstance(x.func, ast.Attribute) and nm == "astype" and x.args and \
                            pyfe.src(x.args[0]).split(".")[-1] in ("int", "int32", "int64", "float32", "float16", "intc", "uint8"):
                        bad.append((x, ".astype(%s)" % pyfe.src(x.args[0])))
                    elif _fmt_spec(x):
                        bad.append((x, "fixed-precision formatting"))
                elif _fmt_spec(x):
                    bad.append((x, "fixed-precision formatting"))
            n += 1
            if bad:
                for x, what in bad[:3]:
                    ctx.violation(R, x, f._qual, pyfe.src(x)[:70], "%s: the package carries amounts, times and coordinates as exact "
                                  "floats everywhere else; this operation drops digits (round trips, totals and exact comparisons "
                                  "no longer hold for the values it touches)" % what)
            else:
                ctx.ok(R, f, f._qual, "no rounding / truncation / tolerance / fixed-precision text", "exact floats", nontrivial=False)
    return n


# named exceptions of PURE (one reason each)
PURE_OK = {
    ("librdengine.LibRDEngine.__init__", "lib"): "the freshly loaded ctypes library object: declaring restype is its configuration",
    ("rdspace.rdspace_from_dict", "d"): "adds the default 'type' to the caller's dictionary (pinned behaviour; harmless on re-read)",
}
MUTATORS = ("append", "extend", "insert", "pop", "remove", "clear", "sort", "reverse", "update", "setdefault", "fill", "resize",
            "popitem", "put", "itemset")


def pure(ctx, R, py, modules):
    n = 0
    for mn in modules:
        m = py.mods.get(mn)
        ctx.need(m is not None, R, "module %s not found" % mn)
        for f in m.funcs.values():
            ps = set(pyfe.params(f)) - {"self", "cls"}
            if not ps:
                continue
            rebound = {t.id for x in ast.walk(f) if isinstance(x, ast.Assign) for t in x.targets if isinstance(t, ast.Name)}
            rebound |= {x.target.id for x in ast.walk(f) if isinstance(x, ast.For) and isinstance(x.target, ast.Name)}
            bad = []
            for x in ast.walk(f):
                tg = []
                if isinstance(x, ast.Assign):
                    tg = x.targets
                elif isinstance(x, ast.AugAssign):
                    tg = [x.target]
                elif isinstance(x, ast.Delete):
                    tg = x.targets
                for t in tg:
                    b = t
                    while isinstance(b, (ast.Attribute, ast.Subscript)):
                        b = b.value
                    if not (isinstance(b, ast.Name) and b.id in ps):
                        continue
                    if t is b and not isinstance(x, ast.AugAssign):
                        continue          # plain rebinding of the local name
                    if b.id in rebound and not (t is b):
                        continue          # the name was rebound (to a copy, typically) before: not the caller's object any more
                    if t is b and isinstance(x, ast.AugAssign) and b.id in rebound:
                        continue
                    if (f._qual, b.id) in PURE_OK:
                        continue
                    bad.append((x, "`%s` is %s" % (pyfe.src(t)[:40], "updated in place (an ndarray argument is modified for the "
                                "caller too)" if t is b else "written")))
                if isinstance(x, ast.Call) and isinstance(x.func, ast.Attribute) and x.func.attr in MUTATORS:
                    b = x.func.value
                    while isinstance(b, (ast.Attribute, ast.Subscript)):
                        b = b.value
                    if isinstance(b, ast.Name) and b.id in ps and b.id not in rebound and (f._qual, b.id) not in PURE_OK:
                        bad.append((x, "`%s` is modified in place" % pyfe.src(x.func.value)[:40]))
            n += 1
            if bad:
                x, why = bad[0]
                ctx.violation(R, x, f._qual, pyfe.src(x)[:70], "%s: the function changes an object its caller passed in; every other "
                              "function of the package leaves its arguments untouched, and callers rely on it (a script / array / "
                              "quantity used twice gives the same result twice)" % why)
            else:
                ctx.ok(R, f, f._qual, "arguments %s only read" % sorted(ps)[:4], "", nontrivial=False)
    return n


def run(ctx, pid, py, modules, truth_floor=1):
    from . import truth
    truth.rule(ctx, pid + ".TRUTH", py, modules, floor=truth_floor)
    nl = lossy(ctx, pid + ".LOSSY", py, modules)
    npu = pure(ctx, pid + ".PURE", py, modules)
    ctx.floor(pid + ".LOSSY", max(1, nl // 2))
    ctx.floor(pid + ".PURE", max(1, npu // 2))
