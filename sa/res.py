"""RES -- Python name / attribute / call-arity resolution over the package (no import, no execution).

  * every Name load resolves to a local, an enclosing-function local, a module-level binding (with star-import
    closure) or a builtin;
  * every `self.attr` load in a class resolves to a method, property, class attribute or an attribute stored
    somewhere in the class, its bases or (for bases never instantiated on their own) its subclasses;
  * calls to standard-library functions match `inspect.signature` (positional count, keyword names).
"""
import ast, builtins, inspect, importlib

from . import pyfe


def function_locals(fn):
    names = set(pyfe.params(fn))
    a = fn.args
    if a.vararg:
        names.add(a.vararg.arg)
    if a.kwarg:
        names.add(a.kwarg.arg)

    def visit(n, top=True):
        for c in ast.iter_child_nodes(n):
            if isinstance(c, (ast.FunctionDef, ast.AsyncFunctionDef, ast.ClassDef)):
                names.add(c.name)
                continue            # nested scope: its own locals
            if isinstance(c, ast.Lambda):
                continue
            if isinstance(c, ast.Name) and isinstance(c.ctx, (ast.Store, ast.Del)):
                names.add(c.id)
            elif isinstance(c, (ast.Import, ast.ImportFrom)):
                for al in c.names:
                    names.add((al.asname or al.name).split(".")[0])
            elif isinstance(c, ast.ExceptHandler) and c.name:
                names.add(c.name)
            visit(c, False)
    visit(fn)
    return names


def comprehension_scopes(fn):
    """map id(Name node) -> True for loads bound by an enclosing comprehension / lambda"""
    bound = set()

    def rec(n, env):
        if isinstance(n, (ast.ListComp, ast.SetComp, ast.GeneratorExp, ast.DictComp)):
            e2 = set(env)
            for g in n.generators:
                for x in ast.walk(g.target):
                    if isinstance(x, ast.Name):
                        e2.add(x.id)
            for c in ast.iter_child_nodes(n):
                rec(c, e2)
            return
        if isinstance(n, ast.Lambda):
            e2 = set(env) | {a.arg for a in n.args.args + n.args.kwonlyargs + n.args.posonlyargs}
            rec(n.body, e2)
            return
        if isinstance(n, ast.Name) and isinstance(n.ctx, ast.Load) and n.id in env:
            bound.add(id(n))
        for c in ast.iter_child_nodes(n):
            rec(c, env)
    rec(fn, set())
    return bound


def unresolved_names(py, fn):
    """[(Name node)] loads in fn that resolve nowhere"""
    loc = function_locals(fn)
    enc = set()
    p = pyfe.parent(fn)
    while p is not None:
        if isinstance(p, ast.FunctionDef):
            enc |= function_locals(p)
        p = pyfe.parent(p)
    comp = comprehension_scopes(fn)
    out = []
    nested = set()
    for c in ast.walk(fn):
        if c is not fn and isinstance(c, (ast.FunctionDef, ast.ClassDef)):
            for x in ast.walk(c):
                if x is not c:
                    nested.add(id(x))
    mod = fn._mod
    # decorators are evaluated in the enclosing (class) scope: `@volume.setter` names the property defined just above
    for d in fn.decorator_list:
        for x in ast.walk(d):
            nested.add(id(x))
    for n in ast.walk(fn):
        if id(n) in nested:
            continue
        if isinstance(n, ast.Name) and isinstance(n.ctx, ast.Load):
            if n.id in loc or n.id in enc or id(n) in comp:
                continue
            if n.id in mod.bind or hasattr(builtins, n.id):
                continue
            out.append(n)
    return out


def unresolved_self_attrs(py, fn):
    c = getattr(fn, "_cls", None)
    if c is None or "self" not in pyfe.params(fn):
        return []
    members = py.class_members(c)
    for k in py.subclasses(c):
        members |= py.class_members(k)
    for k in [c] + py.bases(c):
        if any(isinstance(n, ast.FunctionDef) and n.name == "__getattr__" for n in k.body):
            return []
    out = []
    for n in ast.walk(fn):
        if isinstance(n, ast.Attribute) and isinstance(n.ctx, ast.Load) and isinstance(n.value, ast.Name) \
                and n.value.id == "self" and n.attr not in members and not n.attr.startswith("__"):
            out.append(n)
    return out


STDLIB = {"json", "copy", "os", "random", "string", "math", "pathlib", "platform"}


def stdlib_arity_problems(py, fn):
    """[(Call node, message)] for calls to standard-library functions that cannot bind their arguments"""
    out = []
    mod = fn._mod
    for call in pyfe.calls_in(fn):
        f = call.func
        if not (isinstance(f, ast.Attribute) and isinstance(f.value, ast.Name)):
            continue
        o = py.resolve(mod.name, f.value.id)
        if not o or o[0] != "ext":
            continue
        top = o[1].split(".")[0]
        if top not in STDLIB:
            continue
        try:
            m = importlib.import_module(o[1])
            target = getattr(m, f.attr)
            sig = inspect.signature(target)
        except Exception:
            continue
        if any(isinstance(a, ast.Starred) for a in call.args) or any(k.arg is None for k in call.keywords):
            continue
        try:
            sig.bind(*[None] * len(call.args), **{k.arg: None for k in call.keywords})
        except TypeError as e:
            out.append((call, "%s.%s%s cannot bind %d positional / %s keyword arguments: %s"
                        % (o[1], f.attr, sig, len(call.args), [k.arg for k in call.keywords], e)))
    return out
