"""ARGS -- swapped-argument lint (both languages).  At a call of a function of the code base, an argument that is a plain
variable named exactly like one of the callee's parameters is expected at that parameter's position.  `f(a, n_species,
n_meshes)` against `f(x, n_meshes, n_species)` passes each count where the other is expected: the names say so.  Reported only
when two arguments are *mutually* exchanged (each carries the other's parameter name), which is never a coincidence of naming."""
import ast

from . import pyfe
from .cxfe import kids, strip, walk, call_parts, name_of, text


def py_swaps(py, modules):
    out = []
    n = 0
    for mn in modules:
        m = py.mods.get(mn)
        if m is None:
            continue
        for f in m.funcs.values():
            for c in pyfe.calls_in(f):
                targets = [t for t in py.resolve_call(f, c) if isinstance(t, ast.FunctionDef)]
                if len(targets) != 1:
                    continue
                t = targets[0]
                ps = [p for p in pyfe.params(t)]
                if ps and ps[0] in ("self", "cls") and isinstance(c.func, ast.Attribute):
                    ps = ps[1:]
                n += 1
                names = [a.id if isinstance(a, ast.Name) else None for a in c.args]
                for i, ni in enumerate(names):
                    if ni is None or i >= len(ps) or ni == ps[i] or ni not in ps:
                        continue
                    j = ps.index(ni)
                    if j < len(names) and names[j] == ps[i]:
                        out.append((c, f._qual, t.name, ni, ps[i], i, j))
                for k in c.keywords:
                    if isinstance(k.value, ast.Name) and k.arg in ps and k.value.id in ps and k.value.id != k.arg:
                        other = [k2 for k2 in c.keywords if k2.arg == k.value.id and isinstance(k2.value, ast.Name) and
                                 k2.value.id == k.arg]
                        if other:
                            out.append((c, f._qual, t.name, k.value.id, k.arg, k.arg, k.value.id))
    return n, out


def cx_swaps(tu):
    out = []
    n = 0
    for f in tu.all_fns():
        if f.body is None:
            continue
        for c in walk(f.body):
            if c.get("kind") not in ("CallExpr", "CXXMemberCallExpr"):
                continue
            cp = call_parts(c)
            if cp is None:
                continue
            callees = tu.resolve_calls(f, c)
            if len({tuple(x.param_names()) for x in callees}) != 1:
                continue
            ps = callees[0].param_names()
            n += 1
            names = []
            for a in cp[2]:
                a_ = strip(a, casts=True)
                names.append(name_of(a_) if a_.get("kind") in ("DeclRefExpr", "MemberExpr") else None)
            for i, ni in enumerate(names):
                if ni is None or i >= len(ps) or ni == ps[i] or ni not in ps:
                    continue
                j = ps.index(ni)
                if j < len(names) and names[j] == ps[i] and i < j:
                    out.append((c, f.qual, callees[0].qual, ni, ps[i], i, j))
    return n, out


def rule(ctx, R, py_modules=(), cx=True):
    total = 0
    if py_modules:
        n, sw = py_swaps(ctx.py, py_modules)
        total += n
        for c, fq, callee, a, p, i, j in sw:
            ctx.violation(R, c, fq, pyfe.src(c)[:80], "`%s` is passed where %s expects `%s`, and `%s` where it expects `%s`: the two "
                          "arguments are exchanged" % (a, callee, p, p, a))
    if cx:
        n, sw = cx_swaps(ctx.cx)
        total += n
        for c, fq, callee, a, p, i, j in sw:
            ctx.violation(R, c, fq, text(c)[:80], "`%s` is passed where %s expects `%s`, and `%s` where it expects `%s`: the two "
                          "arguments are exchanged" % (a, callee, p, p, a))
    ctx.ok(R, None, "package / engine", "%d resolved calls: no pair of arguments carries each other's parameter name" % total,
           nontrivial=False)
    ctx.floor(R, 1)
    return total
