"""C++ locals written back to the reference spelling (the engine's counterpart of sa/pynames.py).

Per function of the engine, sa/cxlocalnames.json holds the names of its local variable declarations in source order on the
reference tree.  Before helper inlining and normalisation, the declarations of each function are aligned with that list
(difflib on the two name sequences): a run of k declarations with unknown names facing a run of k missing reference names is
renamed pairwise -- the VarDecl and, through the declaration id, every reference to it.  A consistent renaming of block-scoped
locals to names the function does not otherwise use is an alpha-conversion: the program analysed is equivalent to the one given."""
import difflib
import json
import os

from .cxfe import walk

TABLE = os.path.join(os.path.dirname(os.path.abspath(__file__)), "cxlocalnames.json")
_table = None


def table():
    global _table
    if _table is None:
        try:
            _table = json.load(open(TABLE))
        except Exception:
            _table = {}
    return _table


def decls(f):
    return [n for n in walk(f.body) if n.get("kind") == "VarDecl" and n.get("name")]


def align(tu, log=None):
    ref = table()
    if not ref:
        return 0
    done = 0
    for f in tu.all_fns():
        if f.body is None:
            continue
        R = ref.get(f.qual)
        if not R:
            continue
        ds = decls(f)
        C = [d.get("name") for d in ds]
        if C == R or not C:
            continue
        used = set(C) | {p.get("name") for p in f.params}
        for n in walk(f.body):
            if n.get("kind") == "DeclRefExpr":
                used.add(n.get("referencedDecl", {}).get("name"))
            elif n.get("kind") == "MemberExpr":
                used.add(n.get("name"))
        Rset = set(R)
        m = {}           # decl id -> new name
        byname = {}      # current name -> new name (all declarations of one name move together)
        for tag, i1, i2, j1, j2 in difflib.SequenceMatcher(a=R, b=C, autojunk=False).get_opcodes():
            if tag == "replace" and (i2 - i1) == (j2 - j1):
                for r_, d_ in zip(R[i1:i2], ds[j1:j2]):
                    c_ = d_.get("name")
                    if c_ in Rset or r_ in used:
                        continue
                    if byname.get(c_, r_) != r_:
                        continue
                    byname[c_] = r_
                    m[d_.get("id")] = r_
        if not m:
            continue
        for n in walk(f.body):
            if n.get("kind") == "VarDecl" and n.get("id") in m:
                n["name"] = m[n["id"]]
            elif n.get("kind") == "DeclRefExpr":
                rd = n.get("referencedDecl", {})
                if rd.get("id") in m:
                    rd["name"] = m[rd["id"]]
        done += len(m)
        if log is not None:
            log.append((f.qual, "locals renamed to the reference spelling: %s" % ", ".join(
                "%s<-%s" % (v, k) for k, v in sorted(byname.items()))))
    return done


def freeze(tu):
    out = {}
    for f in tu.all_fns():
        if f.body is None:
            continue
        names = [d.get("name") for d in decls(f)]
        if names:
            out[f.qual] = names
    json.dump(out, open(TABLE, "w"), indent=0, sort_keys=True)
    return len(out)
