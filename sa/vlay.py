"""VLAY -- layout (species-major 'SM' / cell-major 'CM') of whole state-shaped vectors flowing through the two
initialize exports: which definitions of the initial state / chemostat map pass through the transposition.

SM: index = species*|cell| + cell (the Python RDSystem layout, C13.INDEX);  CM: index = cell*|species| + species
(the layout of every engine subscript of mesh_x / mesh_chstt, from IDX)."""
from . import cxfe, cxa, ir, idx as idxmod
from .cxfe import kids, strip, text, walk, name_of, call_parts, subscript, uname
from .core import AnalysisError


def lay_name(lay):
    ks = [k[0] for k in lay] if lay else None
    if ks == ["species", "cell"]:
        return "CM"
    if ks == ["cell", "species"]:
        return "SM"
    return None


class VLay:
    def __init__(self, tu, I, ctx):
        self.tu, self.I, self.ctx = tu, I, ctx
        self.summ = {}
        for f in tu.funcs.values():
            if f.body is not None and idxmod.is_vec(f.ret):
                self.summ[f.name] = self._summary(f)

    def table_layout(self, root, table):
        """the one non-flat layout of a table's subscripts (None if it has none)"""
        out = set()
        for r in self.I.subs:
            if r["root"] == root and r["table"] == table and not r["inner"] and r["layout"]:
                n = lay_name(r["layout"])
                if n:
                    out.add(n)
        return out

    def _summary(self, f):
        """(param index, required param layout or None, result layout or 'same')"""
        vec_params = [i for i, p in enumerate(f.params) if idxmod.is_vec(f.param_type(i)) or "*" in f.param_type(i)]
        if not vec_params:
            return None
        pi = vec_params[0]
        pname = f.param_names()[pi]
        pl = self.table_layout(f.qual, pname)
        ret = None
        for n in walk(f.body):
            if n.get("kind") == "ReturnStmt" and kids(n):
                r = strip(kids(n)[0], casts=True)
                while r.get("kind") == "CXXConstructExpr" and kids(r):
                    r = strip(kids(r)[0], casts=True)
                ret = uname(r)
        rl = self.table_layout(f.qual, ret) if ret else set()
        if not pl and not rl:
            return (pi, None, "same")          # elementwise copy (MkVec)
        if len(pl) == 1 and len(rl) == 1:
            return (pi, list(pl)[0], list(rl)[0])
        return (pi, "?", "?")

    def value_layout(self, n, env):
        """layout of a vector-valued expression given env: var -> layout"""
        n = strip(n, casts=True)
        k = n.get("kind")
        if k in ("CXXConstructExpr", "CXXTemporaryObjectExpr") and kids(n):
            a0 = strip(kids(n)[0], casts=True)
            if idxmod.is_vec(idxmod.tstr(a0)):
                return self.value_layout(a0, env)
            return None
        if k == "CallExpr":
            nm, _, args = call_parts(n)
            s = self.summ.get(nm)
            if s is None:
                return None
            pi, need, res = s
            al = self.value_layout(args[pi], env)
            if res == "same":
                return al
            if need == "?" or al is None:
                return "?"
            if al != need:
                return "MISMATCH:%s expects %s, receives %s" % (nm, need, al)
            return res
        b = cxa.lvalue_base(n)
        if b is not None:
            return env.get(b[1])
        return None


def check_init_layouts(ctx, R, tu, I, what=("mesh_x0", "mesh_chstt")):
    """every definition reaching the Init call of both initialize exports has the layout Init's fields use"""
    from . import ffi
    V = VLay(tu, I, ctx)
    # the Python side hands the state / chemostat map over species-major (C13.INDEX): find the FFI positions
    sm_params = {}
    for fn, call, name in ffi.call_sites(ctx.py):
        f = tu.funcs.get(name)
        if f is None or not name.startswith("engineexport_initialize"):
            continue
        for a, p in zip(call.args, f.params):
            src = ffi.pyfe.src(a)
            if ".system.state" in src or ".system.chemostats" in src:
                sm_params.setdefault(name, set()).add(p.get("name"))
    n_inst = 0
    # the counts handed to the transposition (and to any helper taking counts) have the kind their parameter names:
    # SpeciesFirstToMeshFirstArray(a, n_species, n_meshes) called with (a, n_meshes, n_species) transposes with the wrong strides
    for n_, fq, whatc, want, got in I.extent_checks:
        if fq.startswith("engineexport_initialize"):
            ctx.check(want == got, R, n_, fq, whatc, "a count of kind %r" % (want,), "a count parameter of kind %r receives %r: the "
                      "species-major input is re-laid out (or redistributed) with the two extents exchanged, entries land on "
                      "other (species, cell) pairs" % (want, got), nontrivial=False)
    for name in ("engineexport_initialize_grid", "engineexport_initialize_graph"):
        f = tu.fn(name)
        ctx.need(len(sm_params.get(name, ())) == 2, R, "%s: state / chemostat FFI positions not found" % name)
        init_env = frozenset(("lay", p, "SM", "species-major buffer from Python") for p in sm_params[name])
        results = []

        class C(ir.Client):
            def _env(self, cfg):
                return {v: l for (t, v, l, w) in cfg if t == "lay"}

            def _src(self, cfg):
                return {v: w for (t, v, l, w) in cfg if t == "lay"}

            def atom(self, node, cfg):
                env = self._env(cfg)
                # elementwise loops are handled at loop level (see loop_elementwise); plain assignments here
                for x in walk(node):
                    if x.get("kind") == "VarDecl" and kids(x) and idxmod.is_vec(idxmod.tstr(x)):
                        l = V.value_layout(kids(x)[-1], env)
                        cfg = frozenset(c for c in cfg if c[1] != uname(x)) | \
                            ({("lay", uname(x), l, text(x)[:90])} if l else set())
                    for s in cxa.stores_of_node(x):
                        if s.base is None or s.base[0] != "var":
                            continue
                        sub = subscript(s.target)
                        if sub is None and s.how == "assign" and s.op == "=" and \
                                idxmod.is_vec(idxmod.tstr(strip(s.target, casts=True))):
                            l = V.value_layout(s.rhs, env)
                            cfg = frozenset(c for c in cfg if c[1] != s.base[1]) | \
                                ({("lay", s.base[1], l, text(s.node)[:90])} if l else set())
                        elif sub is not None and s.how == "assign":
                            # X[i] = g(Y[i]) with the same flat index: X takes Y's layout
                            ip = repr(cxa.poly(sub[1]))
                            for y in walk(s.rhs):
                                ys = subscript(y) if y.get("kind") in ("CXXOperatorCallExpr", "ArraySubscriptExpr") \
                                    else None
                                if ys is not None and repr(cxa.poly(ys[1])) == ip:
                                    yb = cxa.lvalue_base(ys[0])
                                    if yb and yb[1] in env:
                                        cfg = frozenset(c for c in cfg if c[1] != s.base[1]) | \
                                            {("lay", s.base[1], env[yb[1]], text(s.node)[:90])}
                    cp = call_parts(x) if x.get("kind") == "CXXMemberCallExpr" else None
                    if cp and cp[0] == "Init":
                        for callee in tu.resolve_calls(f, x):
                            for pn, a in zip(callee.param_names(), cp[2]):
                                if pn in what:
                                    fld = "mesh_x" if pn == "mesh_x0" else pn
                                    need = V.table_layout(callee.cls.name, fld)
                                    aa = strip(a, casts=True)
                                    while aa.get("kind") == "CXXConstructExpr" and len(kids(aa)) == 1:
                                        aa = strip(kids(aa)[0], casts=True)
                                    ab = cxa.lvalue_base(aa)
                                    src = self._src(cfg).get(ab[1]) if ab else None
                                    results.append((x, pn, a, V.value_layout(a, env), need, callee, src))
                return cfg

        ir.Engine(C(), "paths").run(ir.cx_to_ir(f.body), init_env)
        ctx.need(results, R, "%s: no Init call reached" % name)
        seen = set()
        for x, pn, a, got, need, callee, src in results:
            key = (pn, got, src)
            if key in seen:
                continue
            seen.add(key)
            needs = "/".join(sorted(need))
            if got is None:
                # e.g. the zero-iteration path of an element-wise fill: no element, no layout
                ctx.info(R, a, name, "Init(%s = %s) [untracked]" % (pn, text(a)[:60]),
                         "a path on which no element-wise definition was seen (empty loop)")
                continue
            n_inst += 1
            ok = {got} == need
            ctx.check(ok, R, a, name, "Init(%s = %s) defined by `%s`" % (pn, text(a)[:40], src or text(a)[:60]),
                      "reaches Init as %s, the layout every subscript of the field uses" % got,
                      "a definition of this argument reaches Init with layout %s but %s addresses it as %s: the "
                      "species-major input was not passed through SpeciesFirstToMeshFirstArray on that path"
                      % (got, callee.cls.name, needs))
    return n_inst
