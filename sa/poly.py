"""Exact multivariate polynomial / rational-function normal form over opaque atoms (Fraction coefficients).
Used by IDX (index forms), GVN (sibling formula equality, symmetry), UPD (index identity)."""
from fractions import Fraction


class Poly:
    __slots__ = ("t",)

    def __init__(self, t=None):
        self.t = {m: c for m, c in (t or {}).items() if c != 0}

    @staticmethod
    def const(c):
        return Poly({(): Fraction(c)})

    @staticmethod
    def sym(s):
        return Poly({((s, 1),): Fraction(1)})

    def __add__(a, b):
        r = dict(a.t)
        for m, c in b.t.items():
            r[m] = r.get(m, 0) + c
        return Poly(r)

    def __neg__(a):
        return Poly({m: -c for m, c in a.t.items()})

    def __sub__(a, b):
        return a + (-b)

    def __mul__(a, b):
        r = {}
        for m1, c1 in a.t.items():
            for m2, c2 in b.t.items():
                d = dict(m1)
                for s, e in m2:
                    d[s] = d.get(s, 0) + e
                m = tuple(sorted((s, e) for s, e in d.items() if e != 0))
                r[m] = r.get(m, 0) + c1 * c2
        return Poly(r)

    def __eq__(a, b):
        return isinstance(b, Poly) and a.t == b.t

    def __hash__(a):
        return hash(tuple(sorted(a.t.items())))

    def iszero(a):
        return not a.t

    def isconst(a):
        return all(m == () for m in a.t)

    def constval(a):
        return a.t.get((), Fraction(0))

    def syms(a):
        return {s for m in a.t for s, _ in m}

    def subs(a, mp):
        """mp: symbol -> Poly"""
        out = Poly()
        for m, c in a.t.items():
            term = Poly.const(c)
            for s, e in m:
                base = mp.get(s)
                if base is None:
                    base = Poly.sym(s)
                for _ in range(e):
                    term = term * base
            out = out + term
        return out

    def rsubs(a, mp):
        """mp: symbol -> Rat"""
        out = Rat(Poly.const(0))
        for m, c in a.t.items():
            term = Rat(Poly.const(c))
            for s, e in m:
                base = mp.get(s, None)
                if base is None:
                    base = Rat(Poly.sym(s))
                for _ in range(e):
                    term = term * base
            out = out + term
        return out

    def coeff_of(a, sym):
        """(q, r) with a = q*sym + r and r free of sym, if a is affine in sym; else None"""
        q, r = {}, {}
        for m, c in a.t.items():
            d = dict(m)
            e = d.get(sym, 0)
            if e == 0:
                r[m] = c
            elif e == 1:
                del d[sym]
                q[tuple(sorted(d.items()))] = c
            else:
                return None
        return Poly(q), Poly(r)

    def __repr__(a):
        if not a.t:
            return "0"
        out = []
        for m, c in sorted(a.t.items(), key=lambda kv: (len(kv[0]), str(kv[0]))):
            f = "*".join(str(s) + ("^%d" % e if e != 1 else "") for s, e in m)
            if not m:
                out.append(str(c))
            elif c == 1:
                out.append(f)
            else:
                out.append("%s*%s" % (c, f))
        return " + ".join(out)


class Rat:
    __slots__ = ("n", "d")

    def __init__(self, n, d=None):
        self.n = n
        self.d = d if d is not None else Poly.const(1)

    @staticmethod
    def sym(s):
        return Rat(Poly.sym(s))

    @staticmethod
    def const(c):
        return Rat(Poly.const(c))

    def __add__(a, b):
        return Rat(a.n * b.d + b.n * a.d, a.d * b.d)

    def __sub__(a, b):
        return Rat(a.n * b.d - b.n * a.d, a.d * b.d)

    def __mul__(a, b):
        return Rat(a.n * b.n, a.d * b.d)

    def __truediv__(a, b):
        return Rat(a.n * b.d, a.d * b.n)

    def __neg__(a):
        return Rat(-a.n, a.d)

    def equals(a, b):
        return (a.n * b.d - b.n * a.d).iszero()

    def iszero(a):
        return a.n.iszero()

    def subs(a, mp):
        return a.n.rsubs(mp) / a.d.rsubs(mp)

    def syms(a):
        return a.n.syms() | a.d.syms()

    def __repr__(a):
        if a.d == Poly.const(1):
            return "(%r)" % (a.n,)
        return "(%r)/(%r)" % (a.n, a.d)
