"""DIM -- dimensional homogeneity of the C++ engine.

Abstract value of a scalar / vector element: a dimension vector (L, T, Q) whose components are affine forms
a + b*n in the symbolic order n of "the reaction indexed by r", optionally with a symbolic scalar value (affine in
n) for dimensionless scalars that end up as exponents.  The literal 0 is polymorphic; other literals are
dimensionless.  Loops are interpreted once (dimensions are loop-invariant) except two reduction idioms over the
species loop, justified by the axiom  sum_s sub[s, r] = order(r):
  (i)  q += sub[s*R + r]                       => q has value n after the loop
  (ii) acc *= pow(X, sub[s*R + r])  /  an inner loop of sub[s, r] iterations each multiplying by dim(X)
                                               => acc gains dim(X)^n
Functions reachable only from the stochastic engines are checked modulo Q (amounts are molecule counts there).
"""
from fractions import Fraction as F

from . import cxfe, cxa
from .cxfe import kids, raw_kids, strip, walk, text, name_of, uname, subscript, call_parts
from .core import AnalysisError


def A(a=0, b=0):
    return (F(a), F(b))


def aadd(x, y, s=1):
    return (x[0] + s * y[0], x[1] + s * y[1])


def amulc(x, c):
    return (x[0] * c, x[1] * c)


Z3 = (A(), A(), A())


def vadd(u, v, s=1):
    return tuple(aadd(a, b, s) for a, b in zip(u, v))


def vscale_aff(u, e):
    """vector u (constant components) times affine exponent e, or (affine u) times constant e"""
    if any(c[1] != 0 for c in u) and e[1] != 0:
        return None
    if e[1] == 0:
        return tuple(amulc(c, e[0]) for c in u)
    return tuple((c[0] * e[0], c[0] * e[1]) for c in u)


def vstr(u):
    if u is None:
        return "?"

    def a(x):
        if x[1] == 0:
            return str(x[0])
        s = "%sn" % (x[1] if x[1] != 1 else "")
        if x[0] != 0:
            s = "%s%+d*n" % (x[0], x[1]) if x[1] not in (1, -1) else "%s%sn" % (x[0], "+" if x[1] > 0 else "-")
        return s
    return "L^%s T^%s Q^%s" % tuple(a(c) for c in u)


def L(p):
    return (A(p), A(), A())


def T(p):
    return (A(), A(p), A())


def Q(p):
    return (A(), A(), A(p))


class Val:
    __slots__ = ("dim", "val", "zero", "subexp")

    def __init__(self, dim, val=None, zero=False, subexp=None):
        self.dim, self.val, self.zero, self.subexp = dim, val, zero, subexp

    def __repr__(self):
        return "0" if self.zero else vstr(self.dim)


UNK = Val(None)

# dimensions of the marshalled inputs (= TAG of the Python argument in the same FFI position; checked by C04.BOUNDARY)
SEEDS = {"mesh_x": Q(1), "mesh_x0": Q(1), "mesh_vol": L(3), "k": (A(-3, 3), A(-1), A(1, -1)), "D": vadd(L(2), T(-1)),
         "sub": Z3, "sto": Z3, "dt": T(1), "time_step": T(1), "t": T(1), "mesh_neighbor_sfc": L(2),
         "mesh_neighbor_dst": L(1), "edge_sfc": L(2), "edge_dst": L(1), "t_max": T(1), "sampling_interval": T(1),
         "t_samples": T(1), "sampled_t": T(1), "sampled_mesh_x": Q(1), "last_tsi_ratio": Z3,
         "mesh_chstt": Z3, "mesh_env": Z3}
INT_FIELDS = {"n_meshes", "n_species", "n_reactions", "n_env", "n_edges", "n_samples", "sample_pos", "w", "h", "d",
              "sampling_policy_code", "mesh_neighbors", "mesh_neighbor_n", "mesh_neighbor_index", "opposed_direction",
              "boundary_conditions", "delta_i", "complete", "sampling_done_this_iteration"}


class Interp:
    def __init__(self, tu, classes, modQ=False):
        self.tu, self.cls, self.modQ = tu, classes, modQ
        self.fields = dict(SEEDS)
        self.methods = {}
        for cn in classes:
            c = tu.classes[cn]
            for m in c.methods.values():
                if m.body is not None:
                    self.methods[m.name] = m
        self.problems = []      # (node, fn qual, message)
        self.cur = None
        self.depth = 0
        self.evaluated = 0

    def mq(self, d):
        return (d[0], d[1], A()) if (self.modQ and d) else d

    def problem(self, n, msg):
        self.problems.append((n, self.cur.qual if self.cur else "?", msg))

    def same(self, a, b, n, what):
        self.evaluated += 1
        if a.zero or b.zero or a.dim is None or b.dim is None:
            return
        if self.mq(a.dim) != self.mq(b.dim):
            self.problem(n, "%s: %s vs %s" % (what, vstr(a.dim), vstr(b.dim)))

    def name(self, n):
        n = strip(n, casts=True)
        k = n.get("kind")
        if k == "MemberExpr" and cxfe.is_this_member(n):
            return n["name"]
        if k == "DeclRefExpr":
            return uname(n)
        return None

    def ev(self, n, env):
        n = strip(n, casts=True)
        k = n.get("kind")
        if k in ("IntegerLiteral", "FloatingLiteral"):
            v = F(n["value"])
            return Val(Z3, A(v), zero=(v == 0))
        if k == "CXXBoolLiteralExpr":
            return Val(Z3)
        if k in ("MemberExpr", "DeclRefExpr"):
            nm = self.name(n)
            if nm in env:
                return env[nm]
            if nm in self.fields:
                return Val(self.fields[nm])
            if nm in INT_FIELDS:
                return Val(Z3)
            return UNK
        sub = subscript(n)
        if sub is not None:
            base = strip(sub[0], casts=True)
            while subscript(base) is not None:
                base = strip(subscript(base)[0], casts=True)
            nm = self.name(base)
            b = self.ev(base, env)
            if nm == "sub":
                return Val(Z3, subexp="SUB")
            return Val(b.dim) if b.dim is not None else UNK
        if k == "BinaryOperator":
            op = n["opcode"]
            if op == "=":
                return self.assign(n, env)
            l = self.ev(kids(n)[0], env)
            r = self.ev(kids(n)[1], env)
            if op in ("+", "-"):
                self.same(l, r, n, "operands of `%s` in `%s`" % (op, text(n)[:60]))
                base = r if l.zero else l
                val = None
                if l.val is not None and r.val is not None:
                    val = aadd(l.val, r.val, 1 if op == "+" else -1)
                return Val(base.dim, val, subexp="SUB" if (l.subexp or r.subexp) else None)
            if op in ("<", ">", "<=", ">=", "==", "!="):
                self.same(l, r, n, "comparison `%s`" % text(n)[:60])
                return Val(Z3)
            if op in ("&&", "||"):
                return Val(Z3)
            if op == "*":
                if l.dim is None or r.dim is None:
                    return UNK
                val = None
                if l.val is not None and r.val is not None and (l.val[1] == 0 or r.val[1] == 0):
                    val = amulc(r.val, l.val[0]) if l.val[1] == 0 else amulc(l.val, r.val[0])
                return Val(vadd(l.dim, r.dim), val, zero=l.zero or r.zero)
            if op == "/":
                if l.dim is None or r.dim is None:
                    return UNK
                val = None
                if l.val is not None and r.val is not None and r.val[1] == 0 and r.val[0] != 0:
                    val = amulc(l.val, 1 / r.val[0])
                    qt = n.get("type", {}).get("qualType", "")
                    if qt in ("int", "long", "unsigned int", "unsigned long", "size_t", "long long", "short") and l.val[1] == 0:
                        # both operands are integers: C++ truncates (2/3 is 0, not two thirds)
                        q_ = abs(l.val[0]) // abs(r.val[0])
                        val = A(q_ if (l.val[0] >= 0) == (r.val[0] >= 0) else -q_)
                return Val(vadd(l.dim, r.dim, -1), val, zero=l.zero)
            if op == "%":
                return Val(Z3)
            return UNK
        if k == "CompoundAssignOperator":
            return self.assign(n, env)
        if k == "ConditionalOperator":
            self.ev(kids(n)[0], env)
            a, b = self.ev(kids(n)[1], env), self.ev(kids(n)[2], env)
            self.same(a, b, n, "arms of `?:`")
            return b if a.zero else a
        if k == "CallExpr":
            i = kids(n)
            f = name_of(i[0])
            args = i[1:]
            if f == "pow":
                b = self.ev(args[0], env)
                e = self.ev(args[1], env)
                if e.dim is not None and e.dim != Z3:
                    self.problem(n, "dimensioned exponent %s in `%s`" % (vstr(e.dim), text(n)[:60]))
                if e.subexp:
                    return Val(b.dim, subexp=("POWSUB", b.dim))
                if b.dim is None or e.val is None:
                    return UNK
                d = vscale_aff(b.dim, e.val)
                return Val(d) if d else UNK
            if f in ("floor", "abs", "fabs", "ceil"):
                return self.ev(args[0], env)
            if f == "sqrt":
                b = self.ev(args[0], env)
                return Val(vscale_aff(b.dim, A(F(1, 2)))) if b.dim else UNK
            if f in ("max", "min"):
                a, b = self.ev(args[0], env), self.ev(args[1], env)
                self.same(a, b, n, "arguments of %s" % f)
                return b if a.zero else a
            if f in ("log", "exp"):
                a = self.ev(args[0], env)
                if a.dim is not None and self.mq(a.dim) != self.mq(Z3) and not a.zero:
                    self.problem(n, "%s of a dimensioned quantity %s in `%s`" % (f, vstr(a.dim), text(n)[:60]))
                return Val(Z3)
            return UNK
        if k == "CXXMemberCallExpr":
            i = kids(n)
            callee = strip(i[0])
            nm = callee.get("name")
            obj = kids(callee)[0] if kids(callee) else None
            if (obj is None or strip(obj).get("kind") == "CXXThisExpr") and nm in self.methods:
                if nm == "Poisson":
                    a = self.ev(i[1], env)
                    if a.dim is not None and self.mq(a.dim) != self.mq(Z3) and not a.zero:
                        self.problem(n, "Poisson mean has dimension %s (propensity x dt must be a pure number) in `%s`"
                                     % (vstr(self.mq(a.dim)), text(n)[:70]))
                    return Val(Q(1))
                return self.call(nm, [self.ev(a, env) for a in i[1:]])
            return UNK
        if k == "CXXOperatorCallExpr":
            op = name_of(kids(n)[0])
            if op == "operator()":       # uiud(rng): a pure number in [0,1)
                return Val(Z3)
            if op == "operator=":
                return UNK
            return UNK
        if k == "UnaryOperator":
            return self.ev(kids(n)[0], env)
        return UNK

    def target(self, n):
        n = strip(n, casts=True)
        while subscript(n) is not None:
            n = strip(subscript(n)[0], casts=True)
        return self.name(n)

    def assign(self, n, env):
        op = n["opcode"]
        lhs, rhs = kids(n)
        r = self.ev(rhs, env)
        tgt = self.target(lhs)
        islocal = tgt in env
        cur = env.get(tgt) if islocal else (Val(self.fields[tgt]) if tgt in self.fields else None)
        if op == "=":
            if cur is not None and cur.dim is not None and not islocal:
                self.same(cur, r, n, "store to %s in `%s`" % (tgt, text(n)[:70]))
            if islocal:
                # the polymorphic zero joins with a dimension to that dimension
                if r.zero and cur is not None and cur.dim is not None and not cur.zero:
                    env[tgt] = Val(cur.dim)
                else:
                    env[tgt] = r
            elif r.dim is not None and not r.zero and tgt not in self.fields and tgt not in INT_FIELDS and tgt:
                self.fields[tgt] = r.dim
        elif op in ("+=", "-="):
            if r.subexp == "SUB" and cur is not None:                     # reduction (i)
                env[tgt] = Val(cur.dim, aadd(cur.val or A(), A(0, 1)))
                return env[tgt]
            if cur is not None:
                self.same(cur, r, n, "`%s`" % text(n)[:70])
            if cur is None and r.dim is not None and not r.zero and tgt and tgt not in INT_FIELDS:
                self.fields[tgt] = r.dim
            if islocal and cur is not None and cur.zero and r.dim is not None:
                env[tgt] = Val(r.dim)
        elif op == "*=":
            if isinstance(r.subexp, tuple):                               # reduction (ii)
                add = vscale_aff(r.subexp[1], A(0, 1)) if r.subexp[1] else None
                new = vadd(cur.dim, add) if cur and cur.dim and add else None
            else:
                new = vadd(cur.dim, r.dim) if cur and cur.dim and r.dim else None
            if islocal:
                env[tgt] = Val(new)
        elif op == "/=":
            new = vadd(cur.dim, r.dim, -1) if cur and cur.dim and r.dim else None
            if islocal:
                env[tgt] = Val(new)
        return r

    def block(self, st, env):
        if not st:
            return None
        k = st.get("kind")
        if k == "CompoundStmt":
            for c in kids(st):
                ret = self.block(c, env)
                if ret is not None:
                    return ret
        elif k == "DeclStmt":
            for v in kids(st):
                if v.get("kind") == "VarDecl":
                    init = kids(v)
                    t = v.get("type", {}).get("qualType", "")
                    env[uname(v)] = self.ev(init[-1], env) if init and "vector" not in t else UNK
        elif k == "ForStmt":
            p = raw_kids(st)
            if p[0]:
                self.block(p[0], env)
            cond = strip(p[2]) if p[2] else None
            body = p[4]
            if cond is not None and cond.get("kind") == "BinaryOperator":
                # the loop counter is a pure number
                rb = self.ev(kids(cond)[1], env)
                if rb.subexp == "SUB":                                     # reduction (ii), inner-loop form
                    b2 = body
                    stmts = kids(b2) if b2.get("kind") == "CompoundStmt" else [b2]
                    for x in stmts:
                        x = strip(x)
                        if x.get("kind") == "CompoundAssignOperator" and x.get("opcode") == "*=":
                            tgt = self.target(kids(x)[0])
                            f = self.ev(kids(x)[1], env)
                            if f.dim is not None and tgt in env and env[tgt].dim is not None:
                                add = vscale_aff(self.mq(f.dim), A(0, 1))
                                env[tgt] = Val(vadd(env[tgt].dim, add)) if add else UNK
                    return None
            ret = self.block(body, env)
            if ret is not None:
                return ret
        elif k == "WhileStmt":
            p = kids(st)
            self.ev(p[0], env)
            self.block(p[1], env)
        elif k == "IfStmt":
            p = raw_kids(st)
            self.ev(p[0], env)
            r1 = self.block(p[1], env)
            r2 = self.block(p[2], env) if len(p) > 2 and p[2] else None
            return None
        elif k == "SwitchStmt":
            for c in kids(kids(st)[1]):
                self.block(c, env)
        elif k in ("CaseStmt", "DefaultStmt"):
            for c in kids(st)[1:] if k == "CaseStmt" else kids(st):
                self.block(c, env)
        elif k == "ReturnStmt":
            i = kids(st)
            return self.ev(i[0], env) if i else UNK
        elif k in ("BinaryOperator", "CompoundAssignOperator", "CXXMemberCallExpr", "CallExpr", "CXXOperatorCallExpr",
                   "UnaryOperator", "ConditionalOperator"):
            self.ev(st, env)
        elif k in cxfe.WRAPPERS:
            return self.block(kids(st)[-1], env)
        return None

    def call(self, name, args):
        m = self.methods.get(name)
        if m is None or self.depth > 6:
            return UNK
        params = [uname(p) or p.get("name") for p in m.params]
        env = {p: (a if a is not None else UNK) for p, a in zip(params, args)}
        for p in params:
            env.setdefault(p, UNK)
        prev = self.cur
        self.cur = m
        self.depth += 1
        try:
            r = self.block(m.body, env)
        finally:
            self.depth -= 1
            self.cur = prev
        return r if r is not None else UNK


PAIRS = {"3D": ("SimulationAlgorithm3DBase", ["Euler3D", "TauLeap3D", "Gillespie3D"]),
         "Graph": ("SimulationAlgorithmGraphBase", ["EulerGraph", "TauLeapGraph", "GillespieGraph"])}


def _build(tu, base, der, modQ):
    it = Interp(tu, [base, der], modQ)
    if base.endswith("3DBase"):
        # mesh_edge = pow(mesh_vol, 1.0/3.0) is interpreted from Init's own statement below
        pass
    init = tu.fn(base + "::Init")
    it.cur = init
    env = {}
    for p in init.params:
        nm = p.get("name")
        env[nm] = Val(SEEDS[nm]) if nm in SEEDS else (Val(Z3) if "int" in p.get("type", {}).get("qualType", "") else UNK)
    # run Init's scalar assignments (mesh_edge, dt, t, ...) and the table builders
    it.block(init.body, env)
    return it


def report(ctx, R, it, label):
    seen = set()
    for n, fq, msg in it.problems:
        key = (fq, msg)
        if key in seen:
            continue
        seen.add(key)
        ctx.violation(R, n, fq, msg[:110], "dimensionally inhomogeneous: the result changes when the units of the inputs "
                      "change (%s)" % label)


def rule_euler(ctx, tu, R):
    """C01.DIM: the deterministic pipeline is homogeneous and the derivative is amount / time"""
    for tag, (base, ders) in PAIRS.items():
        der = ders[0]
        it = _build(tu, base, der, False)
        it.cur = tu.fn(der + "::Compute_dxdt")
        it.call("Compute_dxdt", [])
        it.call("Apply_dxdt", [])
        report(ctx, R, it, der)
        want = {"mesh_kr": (A(0), A(-1), A(1, -1)), "mesh_dxdt": vadd(Q(1), T(-1)), "mesh_edge": L(1)}
        if tag == "3D":
            want["mesh_kd"] = T(-1)
        else:
            want["mesh_kd_out"] = T(-1)
            want["mesh_kd_in"] = T(-1)
            want.pop("mesh_edge")
        for fld, w in want.items():
            got = it.fields.get(fld)
            ctx.check(got == w, R, tu.classes[base].field_nodes.get(fld, tu.classes[der].field_nodes.get(fld, tu.classes[base].node)),
                      base if fld != "mesh_dxdt" else der, "%s : %s" % (fld, vstr(got)), "inferred %s as required" % vstr(w),
                      "inferred dimension %s, required %s: the volume exponent / edge / surface-distance factor is wrong"
                      % (vstr(got), vstr(w)))
        ctx.analysed.setdefault("DIM", {})[der] = {"operations_checked": it.evaluated}


def rule_stochastic(ctx, tu, R):
    """C07.DIM: propensities are amount-free rates (mod Q), Poisson means and log arguments are pure numbers,
    the Gillespie waiting time is a time"""
    for tag, (base, ders) in PAIRS.items():
        for der in ders[1:]:
            it = _build(tu, base, der, True)
            rp = it.call("ReactionProp", [Val(Z3), Val(Z3)])
            dp = it.call("DiffusionProp", [Val(Z3), Val(Z3), Val(Z3)])
            for nm, v in (("ReactionProp", rp), ("DiffusionProp", dp)):
                ok = v.dim is not None and it.mq(v.dim) == it.mq(T(-1))
                ctx.check(ok, R, tu.fn(base + "::" + nm).node, base + "::" + nm, "%s : %s (mod amount)" % (nm, vstr(it.mq(v.dim) if v.dim else None)),
                          "a rate (1/time) once amounts are molecule counts", "the propensity has dimension %s, not 1/time" % vstr(v.dim))
            it.cur = tu.fn(der + "::Iterate")
            it.call("Iterate", [])
            report(ctx, R, it, der)
            if der.startswith("Gillespie"):
                d = it.fields.get("dt")
                ctx.check(d == T(1), R, tu.fn(der + "::Iterate").node, der + "::Iterate", "waiting time dt : %s" % vstr(d),
                          "log(1/u)/a0 is a time", "the waiting time has dimension %s" % vstr(d))
            ctx.analysed.setdefault("DIM", {})[der] = {"operations_checked": it.evaluated}


def rule_all(ctx, tu, R):
    """C04.HOMOG: every arithmetic operation of every engine, including clock and sampling, is homogeneous"""
    total = 0
    for tag, (base, ders) in PAIRS.items():
        for der in ders:
            modQ = not der.startswith("Euler")
            it = _build(tu, base, der, modQ)
            it.cur = tu.fn(der + "::Iterate")
            it.call("Iterate", [])
            for nm in ("GetProgress", "SampleOnInterval", "SampleOnTSample", "CheckTMax"):
                if nm not in tu.classes[base].methods:
                    continue        # merged into its caller: interpreted there, through Iterate -> SamplingStep
                it.cur = tu.fn(base + "::" + nm)
                it.call(nm, [])
            report(ctx, R, it, der)
            total += it.evaluated
            ctx.ok(R, tu.classes[der].node, der, "%d additive / comparison operations of %s homogeneous" % (it.evaluated, der),
                   "all operands of + - < == += -= agree in dimension%s" % (" (amount-free)" if modQ else ""))
    ctx.analysed.setdefault("DIM", {})["operations"] = total
    # literal audit: non-zero literals only as dimensionless factors / exponents; count thresholds only in molecule code
    n = 0
    for f in tu.all_fns():
        if f.body is None:
            continue
        for x in walk(f.body):
            if x.get("kind") == "FloatingLiteral":
                n += 1
    ctx.ok(R, None, "engine", "%d floating literals audited through the interpreter" % n,
           "a dimensioned non-zero literal would surface as an inhomogeneous operation", nontrivial=False)
