"""PYSYM -- a small symbolic evaluator for straight-line Python arithmetic, so that structural rules compare
*values* (exact rational normal forms over leaves) instead of source text.

  * single-assignment locals are inlined (hoisting a sub-expression into a temporary changes nothing);
  * `x op= e` and `x = x op e` are the same update; + and * are commutative / associative by normal form;
  * `a ** b` is an opaque atom pow(<normal form of a>, <normal form of b>); everything that is not arithmetic is a
    leaf keyed by its (recursively inlined) source text;
  * one iteration of a loop body is executed symbolically to obtain "value after" as a function of "value before".
"""
import ast
from fractions import Fraction

from . import pyfe
from .poly import Rat, Poly


class NotModelled(Exception):
    pass


def local_defs(fn):
    """name -> defining expression, for names bound exactly once by a plain assignment (never augmented, never a
    loop / comprehension target, never a parameter)"""
    count, defs = {}, {}
    params = set(pyfe.params(fn))
    for n in ast.walk(fn):
        if isinstance(n, ast.Assign):
            for t in n.targets:
                if isinstance(t, ast.Name):
                    count[t.id] = count.get(t.id, 0) + 1
                    defs[t.id] = n.value
                elif isinstance(t, ast.Tuple):
                    simple = len(n.targets) == 1 and all(isinstance(e, ast.Name) for e in t.elts)
                    for i, e in enumerate(t.elts):
                        if isinstance(e, ast.Name) and simple:
                            # a, b = E   ->   a is E[0], b is E[1]  (element i of a literal tuple of the same length)
                            count[e.id] = count.get(e.id, 0) + 1
                            if isinstance(n.value, (ast.Tuple, ast.List)) and len(n.value.elts) == len(t.elts) and \
                                    not any(isinstance(x, ast.Starred) for x in n.value.elts):
                                defs[e.id] = n.value.elts[i]
                            else:
                                defs[e.id] = ast.Subscript(value=n.value, slice=ast.Constant(value=i), ctx=ast.Load())
                        else:
                            for x in ast.walk(e):
                                if isinstance(x, ast.Name):
                                    count[x.id] = count.get(x.id, 0) + 2
        elif isinstance(n, (ast.AugAssign, ast.AnnAssign)) and isinstance(n.target, ast.Name):
            count[n.target.id] = count.get(n.target.id, 0) + 2
        elif isinstance(n, (ast.For, ast.comprehension)):
            for x in ast.walk(n.target):
                if isinstance(x, ast.Name):
                    count[x.id] = count.get(x.id, 0) + 2
        elif isinstance(n, (ast.FunctionDef, ast.Lambda)) and n is not fn:
            pass
    return {k: v for k, v in defs.items() if count.get(k) == 1 and k not in params}


class Inliner(ast.NodeTransformer):
    def __init__(self, defs, stop=()):
        self.defs, self.stop, self.depth = defs, set(stop), 0

    def visit_Name(self, n):
        if isinstance(n.ctx, ast.Load) and n.id in self.defs and n.id not in self.stop and self.depth < 8:
            self.depth += 1
            try:
                return self.visit(ast.parse(pyfe.src(self.defs[n.id]), mode="eval").body)
            finally:
                self.depth -= 1
        return n


    def visit_Subscript(self, n):
        """[E(x) for x in range(N)][i] -> E(i) ;  [E(x) for x in xs][i] -> E(xs[i])   (a table computed once, then indexed)"""
        n = self.generic_visit(n)
        v = n.value
        if isinstance(v, ast.ListComp) and len(v.generators) == 1 and not v.generators[0].ifs and \
                isinstance(v.generators[0].target, ast.Name) and not isinstance(n.slice, (ast.Slice, ast.Tuple)):
            g = v.generators[0]
            x = g.target.id
            if isinstance(g.iter, ast.Call) and isinstance(g.iter.func, ast.Name) and g.iter.func.id == "range" and \
                    len(g.iter.args) == 1:
                rep = n.slice
            else:
                rep = ast.Subscript(value=g.iter, slice=n.slice, ctx=ast.Load())

            class S(ast.NodeTransformer):
                def visit_Name(self_, m):
                    if m.id == x and isinstance(m.ctx, ast.Load):
                        return ast.parse(pyfe.src(rep), mode="eval").body
                    return m
            return S().visit(ast.parse(pyfe.src(v.elt), mode="eval").body)
        return n


def inline(e, fn, stop=()):
    """expression with single-assignment locals of fn replaced by their definitions (a fresh ast)"""
    return Inliner(local_defs(fn), stop).visit(ast.parse(pyfe.src(e), mode="eval").body)


def inline_stmt(st, fn, stop=()):
    """a copy of statement st with the single-assignment locals of fn written out (conditions, arguments, stored values);
    line numbers are kept"""
    from .pynorm import clone
    c = clone(st)
    c = Inliner(local_defs(fn), stop).visit(c)
    ast.fix_missing_locations(c)
    for n in ast.walk(c):
        if not hasattr(n, "lineno"):
            n.lineno = getattr(st, "lineno", 0)
        n._file = getattr(st, "_file", None)
    return c


def reach(e, at, fn, stop=(), depth=6):
    """`e` (evaluated at statement `at` of fn) with each local name replaced by the value of the nearest plain assignment
    `name = value` that precedes `at` in its own or an enclosing block, when no statement in between stores the name (a loop
    boundary stops the search).  Unlike inline(), a name assigned once per branch resolves to the assignment of its branch."""
    import copy as _copy

    def value_of(name, st):
        while st is not None and st is not fn:
            par = pyfe.parent(st)
            for fld in ("body", "orelse", "finalbody"):
                blk = getattr(par, fld, None)
                if isinstance(blk, list) and any(st is x for x in blk):
                    k = [x is st for x in blk].index(True)
                    for prev in reversed(blk[:k]):
                        if any(isinstance(x, ast.Name) and x.id == name and isinstance(x.ctx, (ast.Store, ast.Del))
                               for x in ast.walk(prev)):
                            if isinstance(prev, ast.Assign) and len(prev.targets) == 1 and isinstance(prev.targets[0], ast.Name):
                                return prev.value, prev
                            return None, None
            if isinstance(par, (ast.For, ast.While)):
                return None, None
            st = par
        return None, None

    def go(x, st, d):
        class R(ast.NodeTransformer):
            def visit_Name(self_, nd):
                if isinstance(nd.ctx, ast.Load) and nd.id not in stop and d > 0:
                    v_, where = value_of(nd.id, st)
                    if v_ is not None:
                        return go(_copy.deepcopy(v_), where, d - 1)
                return nd
        return R().visit(x)
    return go(_copy.deepcopy(e), at, depth)


def isrc(e, fn, stop=()):
    return pyfe.src(inline(e, fn, stop))


def strip_int(e):
    while isinstance(e, ast.Call) and isinstance(e.func, ast.Name) and e.func.id in ("int", "float") and len(e.args) == 1:
        e = e.args[0]
    return e


def rat(e, env=None, leaves=None):
    """rational normal form of an (already inlined) expression"""
    env = env or {}
    leaves = leaves if leaves is not None else {}
    e = strip_int(e)
    if isinstance(e, ast.Constant) and isinstance(e.value, (int, float)) and not isinstance(e.value, bool):
        return Rat.const(Fraction(repr(e.value)) if isinstance(e.value, float) else e.value)
    if isinstance(e, ast.Name) and e.id in env:
        return env[e.id]
    if isinstance(e, ast.BinOp):
        if isinstance(e.op, ast.Pow):
            b, x = rat(e.left, env, leaves), rat(e.right, env, leaves)
            if isinstance(e.right, ast.Constant) and isinstance(e.right.value, int) and 0 <= e.right.value <= 4:
                r = Rat.const(1)
                for _ in range(e.right.value):
                    r = r * b
                return r
            return Rat.sym("pow(%r,%r)" % (b, x))
        if isinstance(e.op, (ast.Add, ast.Sub, ast.Mult, ast.Div)):
            l, r = rat(e.left, env, leaves), rat(e.right, env, leaves)
            if isinstance(e.op, ast.Add):
                return l + r
            if isinstance(e.op, ast.Sub):
                return l - r
            if isinstance(e.op, ast.Mult):
                return l * r
            return l / r
    if isinstance(e, ast.UnaryOp) and isinstance(e.op, ast.USub):
        return -rat(e.operand, env, leaves)
    if isinstance(e, ast.UnaryOp) and isinstance(e.op, ast.UAdd):
        return rat(e.operand, env, leaves)
    t = pyfe.src(e)
    leaves[t] = e
    return Rat.sym(t)


def frat(e, fn, env=None, stop=()):
    """rational normal form of expression e of function fn, locals inlined"""
    return rat(inline(e, fn, stop), env)


def poly_of(r):
    """Poly if the Rat is a polynomial (denominator 1) else None"""
    if r.d == Poly.const(1):
        return r.n
    return None


def one_iteration(body, fn, acc):
    """value of accumulator `acc` after one pass through the loop body, as a Rat in terms of 'ACC' (its value before);
    statements that do not touch acc are ignored; conditional updates are not modelled"""
    env = {acc: Rat.sym("ACC")}
    defs = local_defs(fn)

    class Sub(ast.NodeTransformer):
        """subscripted accumulators (`rates[r]`) are read through their source text"""
        def visit_Subscript(self, n):
            t = pyfe.src(n)
            if t in env:
                return ast.Name(id="__" + str(abs(hash(t))), ctx=ast.Load())
            return self.generic_visit(n)
    for st in body:
        if isinstance(st, ast.Expr) and isinstance(st.value, ast.Constant):
            continue
        tgt = None
        if isinstance(st, ast.Assign) and len(st.targets) == 1 and isinstance(st.targets[0], (ast.Name, ast.Subscript)):
            tgt = pyfe.src(st.targets[0])
            if tgt == acc or tgt not in defs:
                e2 = dict(env)
                for k_, v_ in env.items():
                    e2["__" + str(abs(hash(k_)))] = v_
                val = Sub().visit(Inliner(defs, stop=env).visit(ast.parse(pyfe.src(st.value), mode="eval").body))
                env[tgt] = rat(val, e2)
        elif isinstance(st, ast.AugAssign) and isinstance(st.target, (ast.Name, ast.Subscript)):
            tgt = pyfe.src(st.target)
            v = rat(Inliner(defs, stop=env).visit(ast.parse(pyfe.src(st.value), mode="eval").body), env)
            cur = env.get(tgt, Rat.sym(tgt))
            if isinstance(st.op, ast.Mult):
                env[tgt] = cur * v
            elif isinstance(st.op, ast.Div):
                env[tgt] = cur / v
            elif isinstance(st.op, ast.Add):
                env[tgt] = cur + v
            elif isinstance(st.op, ast.Sub):
                env[tgt] = cur - v
            else:
                raise NotModelled(pyfe.src(st))
        elif isinstance(st, (ast.If, ast.For, ast.While)):
            if any(isinstance(x, (ast.Name, ast.Subscript)) and isinstance(x.ctx, ast.Store) and pyfe.src(x) == acc
                   for x in ast.walk(st)):
                raise NotModelled("conditional / nested update of %s" % acc)
    return env[acc]


def increments(fn, acc):
    """normal forms of everything added to `acc` anywhere in fn (`acc += e`, `acc = acc + e`, `acc = e + acc`)"""
    out = []
    for st in ast.walk(fn):
        if isinstance(st, ast.AugAssign) and pyfe.src(st.target) == acc and isinstance(st.op, (ast.Add, ast.Sub)):
            v = frat(st.value, fn, stop={acc})
            out.append((st, v if isinstance(st.op, ast.Add) else -v))
        elif isinstance(st, ast.Assign) and len(st.targets) == 1 and pyfe.src(st.targets[0]) == acc and \
                isinstance(st.value, ast.BinOp) and isinstance(st.value.op, (ast.Add, ast.Sub)):
            l, r = st.value.left, st.value.right
            if pyfe.src(l) == acc:
                v = frat(r, fn, stop={acc})
                out.append((st, v if isinstance(st.value.op, ast.Add) else -v))
            elif pyfe.src(r) == acc and isinstance(st.value.op, ast.Add):
                out.append((st, frat(l, fn, stop={acc})))
    return out


def appended(body, fn, lst):
    """normal forms of the values appended to list `lst` by straight-line code in `body` (locals updated in between are
    tracked)"""
    env = {}
    defs = dict(local_defs(fn))
    out = []
    for st in body:
        if isinstance(st, ast.Assign) and len(st.targets) == 1 and isinstance(st.targets[0], ast.Name):
            val = Inliner(defs, stop=env).visit(ast.parse(pyfe.src(st.value), mode="eval").body)
            if not isinstance(strip_int(val), (ast.BinOp, ast.UnaryOp, ast.Constant)):
                defs[st.targets[0].id] = val        # a non-arithmetic temporary: inlined textually where it is used
                continue
            env[st.targets[0].id] = rat(val, env)
        elif isinstance(st, ast.AugAssign) and isinstance(st.target, ast.Name):
            v = rat(Inliner(defs, stop=env).visit(ast.parse(pyfe.src(st.value), mode="eval").body), env)
            if st.target.id in env:
                cur = env[st.target.id]
            elif st.target.id in defs:
                cur = rat(Inliner(defs, stop=env).visit(ast.parse(pyfe.src(defs.pop(st.target.id)), mode="eval").body), env)
            else:
                cur = Rat.sym(st.target.id)
            env[st.target.id] = {ast.Mult: cur * v, ast.Div: cur / v, ast.Add: cur + v, ast.Sub: cur - v}.get(type(st.op))
            if env[st.target.id] is None:
                raise NotModelled(pyfe.src(st))
        elif isinstance(st, ast.Expr) and isinstance(st.value, ast.Call) and isinstance(st.value.func, ast.Attribute) and \
                st.value.func.attr == "append" and pyfe.src(st.value.func.value) == lst:
            out.append((st, rat(Inliner(defs, stop=env).visit(ast.parse(pyfe.src(st.value.args[0]), mode="eval").body), env)))
    return out


# ------------------------------------------------------------------------------------------------ store-passing evaluation
class _EnvSub(ast.NodeTransformer):
    def __init__(self, env):
        self.env = env

    def visit_Name(self, n):
        if isinstance(n.ctx, ast.Load) and n.id in self.env:
            return _cp(self.env[n.id])
        return n

    def visit_Lambda(self, n):
        return n

    def visit_ListComp(self, n):
        return n
    visit_GeneratorExp = visit_SetComp = visit_DictComp = visit_ListComp


def _cp(e):
    return ast.parse(pyfe.src(e), mode="eval").body


def exec_returns(fn, params_opaque=True):
    """Symbolic execution of a loop-free function body (use pynorm.unrolled first when it has literal loops): every local
    is replaced by its value expression; a local assigned under `if c:` becomes `(then if c else before)`.
    Returns [(Return node, value expression over parameters / attributes / calls, [path conditions])].
    Raises NotModelled for loops, try/with, tuple targets, or subscript / attribute stores to tracked names."""
    out = []

    def sub(e, env):
        return _EnvSub(env).visit(_cp(e))

    def merge(test, a, b, before):
        env = {}
        for k in set(a) | set(b):
            va, vb = a.get(k), b.get(k)
            if va is None or vb is None:
                # defined on one side only: usable only under that side; keep the defined one guarded by the test
                v = va if va is not None else vb
                env[k] = v
                continue
            if pyfe.src(va) == pyfe.src(vb):
                env[k] = va
            else:
                env[k] = ast.IfExp(test=_cp(test), body=va, orelse=vb)
        return env

    def run(stmts, env, conds):
        """returns env after stmts, or None when every path returned / raised"""
        for st in stmts:
            if isinstance(st, ast.Expr):
                continue
            if isinstance(st, ast.Assign) and len(st.targets) == 1 and isinstance(st.targets[0], ast.Name):
                env = dict(env)
                env[st.targets[0].id] = sub(st.value, env)
            elif isinstance(st, ast.AugAssign) and isinstance(st.target, ast.Name):
                env = dict(env)
                cur = env.get(st.target.id, ast.Name(id=st.target.id, ctx=ast.Load()))
                env[st.target.id] = ast.BinOp(left=_cp(cur), op=st.op, right=sub(st.value, env))
            elif isinstance(st, ast.If):
                t = sub(st.test, env)
                a = run(st.body, env, conds + [(t, True)])
                b = run(st.orelse, env, conds + [(t, False)])
                if a is None and b is None:
                    return None
                if a is None:
                    env = b
                elif b is None:
                    env = a
                else:
                    env = merge(t, a, b, env)
            elif isinstance(st, ast.Return):
                out.append((st, sub(st.value, env) if st.value is not None else None, list(conds)))
                return None
            elif isinstance(st, ast.Raise):
                return None
            elif isinstance(st, ast.Pass):
                continue
            else:
                raise NotModelled(type(st).__name__ + ": " + pyfe.src(st)[:60])
        return env
    run([s for s in fn.body], {}, [])
    return out


def exec_stores(stmts):
    """Symbolic execution of a loop-free statement list: [(store statement, target text, value expression with every local
    written out, path conditions)] for stores into attributes / subscripts; locals assigned under `if` become conditional
    expressions (as in exec_returns)."""
    out = []

    def sub(e, env):
        return _EnvSub(env).visit(_cp(e))

    def run(stmts_, env, conds):
        for st in stmts_:
            if isinstance(st, (ast.Expr, ast.Pass)):
                continue
            if isinstance(st, ast.Assign) and len(st.targets) == 1:
                t = st.targets[0]
                if isinstance(t, ast.Name):
                    env = dict(env)
                    env[t.id] = sub(st.value, env)
                else:
                    out.append((st, pyfe.src(sub(t, env)) if not isinstance(t, ast.Name) else t.id, sub(st.value, env), list(conds)))
            elif isinstance(st, ast.AugAssign):
                if isinstance(st.target, ast.Name):
                    env = dict(env)
                    cur = env.get(st.target.id, ast.Name(id=st.target.id, ctx=ast.Load()))
                    env[st.target.id] = ast.BinOp(left=_cp(cur), op=st.op, right=sub(st.value, env))
                else:
                    out.append((st, pyfe.src(sub(st.target, env)), ast.BinOp(left=sub(st.target, env), op=st.op,
                                                                              right=sub(st.value, env)), list(conds)))
            elif isinstance(st, ast.If):
                t = sub(st.test, env)
                a = run(st.body, env, conds + [(t, True)])
                b = run(st.orelse, env, conds + [(t, False)])
                if a is None and b is None:
                    return None
                if a is None:
                    env = b
                elif b is None:
                    env = a
                else:
                    merged = {}
                    for k in set(a) | set(b):
                        va, vb = a.get(k), b.get(k)
                        if va is None or vb is None:
                            merged[k] = va if va is not None else vb
                        elif pyfe.src(va) == pyfe.src(vb):
                            merged[k] = va
                        else:
                            merged[k] = ast.IfExp(test=_cp(t), body=va, orelse=vb)
                    env = merged
            elif isinstance(st, (ast.Continue, ast.Break, ast.Return, ast.Raise)):
                return None
            else:
                raise NotModelled(type(st).__name__ + ": " + pyfe.src(st)[:60])
        return env
    run(list(stmts), {}, [])
    return out
