"""UPD -- update summaries of the engine's step functions: for every store to a member table the tuple
(table, index polynomial, operator, amount expression, must-facts, enclosing loops, local definitions)."""
from . import cxfe, cxa
from .cxfe import kids, strip, walk, text, subscript, uname, call_parts


class Upd:
    __slots__ = ("fn", "store", "table", "index", "op", "rhs", "facts", "loops", "node")

    def __init__(self, fn, store, facts, loops):
        self.fn, self.store, self.facts, self.loops = fn, store, facts, loops
        self.table = store.base[1]
        sub = subscript(store.target)
        self.index = cxa.poly(sub[1]) if sub else None
        self.op, self.rhs, self.node = store.op, store.rhs, store.node


def summaries(fn, tables=None):
    """stores to member tables in fn with the must-facts holding at each"""
    out = []

    def on_atom(node, facts):
        for x in walk(node):
            for s in cxa.stores_of_node(x):
                if s.base and s.base[0] == "field" and subscript(s.target) is not None:
                    if tables is None or s.base[1] in tables:
                        out.append(Upd(fn, s, frozenset(facts), None))
    cxa.canon_facts(fn.body, on_atom=on_atom)
    return out


def local_defs(fn):
    """unique local name -> initialiser node (single definition, never stored afterwards)"""
    defs, stored = {}, {}
    for n in walk(fn.body):
        if n.get("kind") == "VarDecl" and kids(n):
            defs[uname(n)] = kids(n)[-1]
    for s in cxa.all_stores(fn.body):
        if s.base and s.base[0] == "var":
            stored[s.base[1]] = stored.get(s.base[1], 0) + 1
    return {k: v for k, v in defs.items() if not stored.get(k)}


def split_index(p, stride_sym="n_species"):
    """(cell poly, species poly) of an index  cell*n_species + species ; None if not of that form"""
    from .poly import Poly
    qr = p.coeff_of(stride_sym)
    if qr is None:
        return None
    q, r = qr
    if q.iszero():
        return None
    return q, r
