"""Helper inlining for the engine AST (canonicalisation, before any rule runs).

A function of the translation unit that is not in the pinned inventory (sa/inventory.json) is an extracted helper.
Every call to it -- a free function, or a method called through the implicit `this` from a method of the same class
or of a derived class -- is replaced by the helper's body:

  * statement position (`Helper(a, b);`): the body, parameters substituted by the argument expressions (a synthetic
    `const T p = arg;` declaration when the argument is not a plain name / literal / subscript, or when the helper
    assigns the parameter); `return;` inside the body becomes an InlineLeave of the enclosing InlineBlock (the IR
    engine gives it the meaning "jump to the end of the block"); a body without early returns is spliced as a plain
    compound statement;
  * expression position (`x = Helper(a)`): only for bodies of the form `{ return expr; }`.

Calls that fit neither form are left alone: the rules then see an opaque call, exactly as before.  Depth <= 4.
The helpers stay in the TU (they are analysed as functions too, e.g. by the bounds and effect inventories)."""
import copy

from .cxfe import kids, strip, walk, call_parts

_ctr = [0]
SIMPLE_ARG = {"DeclRefExpr", "IntegerLiteral", "FloatingLiteral", "CXXBoolLiteralExpr", "MemberExpr", "CXXThisExpr",
              "ArraySubscriptExpr", "CXXOperatorCallExpr", "BinaryOperator", "UnaryOperator", "StringLiteral",
              "ImplicitCastExpr", "ParenExpr", "CXXFunctionalCastExpr", "CXXStaticCastExpr", "CStyleCastExpr"}


def _pure_simple(a):
    for x in walk(a):
        k = x.get("kind")
        if k not in SIMPLE_ARG:
            return False
        if k == "BinaryOperator" and x.get("opcode") in ("=", ","):
            return False
        if k == "UnaryOperator" and x.get("opcode") in ("++", "--"):
            return False
        if k == "CXXOperatorCallExpr":
            from .cxfe import name_of
            if name_of(kids(x)[0]) != "operator[]":
                return False
    return True


def _assigned_ids(body):
    out = set()
    for n in walk(body):
        k = n.get("kind")
        tgt = None
        if k == "CompoundAssignOperator" or (k == "BinaryOperator" and n.get("opcode") == "="):
            tgt = strip(kids(n)[0])
        elif k == "UnaryOperator" and n.get("opcode") in ("++", "--", "&"):
            tgt = strip(kids(n)[0])
        if tgt is not None and tgt.get("kind") == "DeclRefExpr":
            out.add(tgt.get("referencedDecl", {}).get("id"))
    return out


def _subst(node, pmap, idmap):
    """in-place on a deep copy: parameter references -> argument expressions; local ids renamed"""
    inner = node.get("inner")
    if node.get("kind") in ("VarDecl",) and node.get("id") in idmap:
        node["id"] = idmap[node["id"]]
    if node.get("kind") == "DeclRefExpr":
        rd = node.get("referencedDecl", {})
        if rd.get("id") in idmap:
            rd["id"] = idmap[rd["id"]]
    if inner:
        for i, c in enumerate(inner):
            if not c:
                continue
            if c.get("kind") == "DeclRefExpr" and c.get("referencedDecl", {}).get("id") in pmap:
                a = copy.deepcopy(pmap[c["referencedDecl"]["id"]])
                sa = strip(a)
                if sa.get("kind") in ("DeclRefExpr", "IntegerLiteral", "FloatingLiteral", "MemberExpr", "ArraySubscriptExpr",
                                      "CXXBoolLiteralExpr") or \
                        (sa.get("kind") == "CXXOperatorCallExpr" and len(kids(sa)) == 3):
                    inner[i] = a
                    continue
                inner[i] = {"kind": "ParenExpr", "type": c.get("type", {}), "range": c.get("range", {}), "inner": [a],
                            "valueCategory": c.get("valueCategory")}
            else:
                _subst(c, pmap, idmap)


def _instantiate(h, args, label):
    """(prefix statements, body copy) for helper h called with args"""
    _ctr[0] += 1
    tag = "#i%d" % _ctr[0]
    body = copy.deepcopy(h.body)
    assigned = _assigned_ids(h.body)
    pmap, pre = {}, []
    for p, a in zip(h.params, args):
        a = a if a.get("kind") != "CXXDefaultArgExpr" else None
        if a is None:
            return None
        if _pure_simple(a) and p.get("id") not in assigned:
            pmap[p.get("id")] = a
        else:
            t = dict(p.get("type", {}))
            pre.append({"kind": "DeclStmt", "range": a.get("range", {}), "inner": [
                {"kind": "VarDecl", "id": p.get("id") + tag, "name": p.get("name"), "type": t, "init": "c",
                 "range": a.get("range", {}), "loc": a.get("range", {}).get("begin", {}), "inner": [copy.deepcopy(a)]}]})
    if len(h.params) != len(args):
        return None
    idmap = {n.get("id"): n.get("id") + tag for n in walk(h.body) if n.get("kind") == "VarDecl"}
    for p in h.params:
        if p.get("id") not in pmap:
            idmap[p.get("id")] = p.get("id") + tag
    _subst(body, pmap, idmap)
    return pre, body


def _resolve(tu, f, node, helpers):
    n = strip(node)
    k = n.get("kind")
    if k not in ("CallExpr", "CXXMemberCallExpr"):
        return None
    cp = call_parts(n)
    if cp is None:
        return None
    nm, obj, args = cp
    if k == "CXXMemberCallExpr":
        if obj is not None and strip(obj).get("kind") != "CXXThisExpr":
            return None
        if f.cls is None:
            return None
        m = tu.lookup_method(f.cls.name, nm)
        if m is None or m.qual not in helpers or m.virtual or m.body is None:
            return None
        return m, args
    h = tu.funcs.get(nm)
    if h is not None and h.template and h.qual in helpers:
        # function template: inline the instantiation this call refers to
        callee = strip(kids(n)[0], casts=True) if kids(n) else {}
        inst = getattr(tu, "tinst", {}).get(callee.get("referencedDecl", {}).get("id"))
        if inst is not None and inst.body is not None:
            return inst, args
        return None
    if h is None or h.qual not in helpers or h.body is None or h.template:
        return None
    return h, args


def _void_returns(body):
    return [n for n in walk(body) if n.get("kind") == "ReturnStmt"]


def _stmt_inline(tu, f, st, helpers, log):
    """replacement node for statement st, or None"""
    r = _resolve(tu, f, st, helpers)
    if r is None:
        return None
    h, args = r
    inst = _instantiate(h, args, None)
    if inst is None:
        return None
    pre, body = inst
    rets = _void_returns(body)
    if any(kids(x) for x in rets):
        return None           # value returned and discarded: keep the call opaque
    items = kids(body)
    if items and items[-1].get("kind") == "ReturnStmt":
        items = items[:-1]
        body["inner"] = items
        rets = _void_returns(body)
    log.append((f.qual, h.qual))
    if not rets:
        body["inner"] = pre + body.get("inner", [])
        body["_inlined"] = h.qual
        return body
    _ctr[0] += 1
    label = "L%d" % _ctr[0]
    for x in rets:
        x["kind"] = "InlineLeave"
        x["label"] = label
    blk = {"kind": "InlineBlock", "label": label, "callee": h.qual, "range": st.get("range", {}), "inner": [body]}
    if pre:
        return {"kind": "CompoundStmt", "range": st.get("range", {}), "inner": pre + [blk], "_inlined": h.qual}
    return blk


def _expr_inline(tu, f, node, helpers, log):
    """inside an expression tree: calls to `{ return expr; }` helpers replaced by the expression"""
    changed = False
    inner = node.get("inner")
    if not inner:
        return False
    for i, c in enumerate(inner):
        if not c:
            continue
        r = _resolve(tu, f, c, helpers) if c.get("kind") in ("CallExpr", "CXXMemberCallExpr") else None
        if r is not None:
            h, args = r
            items = kids(h.body)
            if len(items) == 1 and items[0].get("kind") == "ReturnStmt" and kids(items[0]) and \
                    all(_pure_simple(a) for a in args) and len(args) == len(h.params):
                inst = _instantiate(h, args, None)
                if inst is not None and not inst[0]:
                    e = kids(kids(inst[1])[0])[0]
                    inner[i] = {"kind": "ParenExpr", "type": c.get("type", {}), "range": c.get("range", {}), "inner": [e]}
                    log.append((f.qual, h.qual))
                    changed = True
                    continue
        if _expr_inline(tu, f, c, helpers, log):
            changed = True
    return changed


def _guarded_value(tu, f, st, helpers, log):
    """T v = H(args);  with  H: { if(c) return E1; return E2; }   ->   T v = E1; if(!(c)) v = E2;
    (the guarded-redefinition form the callers used before the helper was extracted).  Arguments must be plain values."""
    if st.get("kind") != "DeclStmt" or len(kids(st)) != 1 or kids(st)[0].get("kind") != "VarDecl" or not kids(kids(st)[0]):
        return None
    vd = kids(st)[0]
    init = strip(kids(vd)[-1], casts=True)
    r = _resolve(tu, f, init, helpers)
    if r is None:
        return None
    h, args = r
    items = kids(h.body)
    if len(items) != 2 or items[0].get("kind") != "IfStmt" or items[1].get("kind") != "ReturnStmt" or not kids(items[1]):
        return None
    ik = [x for x in (items[0].get("inner") or [])]
    if len([x for x in ik if x]) != 2:
        return None
    then = ik[1]
    then = kids(then)[0] if then.get("kind") == "CompoundStmt" and len(kids(then)) == 1 else then
    if then.get("kind") != "ReturnStmt" or not kids(then):
        return None
    if not all(_pure_simple(a) for a in args) or len(args) != len(h.params) or _assigned_ids(h.body):
        return None
    inst = _instantiate(h, args, None)
    if inst is None or inst[0]:
        return None
    body = inst[1]
    iff, ret2 = kids(body)
    cond = (iff.get("inner") or [])[0]
    t2 = (iff.get("inner") or [])[1]
    t2 = kids(t2)[0] if t2.get("kind") == "CompoundStmt" else t2
    e1, e2 = kids(t2)[0], kids(ret2)[0]
    rng = st.get("range", {})
    vd2 = copy.copy(vd)
    vd2["inner"] = [e1]
    vd2["type"] = {"qualType": vd.get("type", {}).get("qualType", "double").replace("const ", "")}
    ref = {"kind": "DeclRefExpr", "type": vd2["type"], "valueCategory": "lvalue", "range": rng,
           "referencedDecl": {"id": vd.get("id"), "kind": "VarDecl", "name": vd.get("name"), "type": vd2["type"]}}
    asg = {"kind": "BinaryOperator", "opcode": "=", "type": vd2["type"], "valueCategory": "lvalue", "range": rng, "inner": [ref, e2]}
    neg = {"kind": "UnaryOperator", "opcode": "!", "isPostfix": False, "type": {"qualType": "bool"}, "range": rng,
           "inner": [{"kind": "ParenExpr", "type": {"qualType": "bool"}, "range": rng, "inner": [cond]}]}
    log.append((f.qual, h.qual))
    return [{"kind": "DeclStmt", "range": rng, "inner": [vd2]},
            {"kind": "IfStmt", "range": rng, "inner": [neg, {"kind": "CompoundStmt", "range": rng, "inner": [asg]}]}]


STMT_HOLDERS = {"CompoundStmt": None, "IfStmt": (1, 2), "ForStmt": (4,), "WhileStmt": (1,), "DoStmt": (0,),
                "CaseStmt": (1,), "DefaultStmt": (0,)}


def _pass(tu, f, helpers, log):
    changed = False

    def rec(n):
        nonlocal changed
        inner = n.get("inner")
        if not inner:
            return
        k = n.get("kind")
        slots = range(len(inner)) if k == "CompoundStmt" else STMT_HOLDERS.get(k, ())
        if k == "CompoundStmt":
            for i, c in enumerate(list(inner)):
                rep2 = _guarded_value(tu, f, c, helpers, log) if c else None
                if rep2 is not None:
                    j = [x is c for x in inner].index(True)
                    inner[j:j + 1] = rep2
                    changed = True
        for i, c in enumerate(inner):
            if not c:
                continue
            if i in (slots or ()):
                rep = _stmt_inline(tu, f, c, helpers, log)
                if rep is not None:
                    inner[i] = rep
                    changed = True
                    continue
            if c.get("kind") in ("CallExpr", "CXXMemberCallExpr", "BinaryOperator", "CompoundAssignOperator", "ReturnStmt",
                                 "DeclStmt", "ExprWithCleanups", "ImplicitCastExpr", "ParenExpr", "UnaryOperator",
                                 "CXXOperatorCallExpr", "ConditionalOperator"):
                if _expr_inline(tu, f, {"inner": inner[i:i + 1]} if False else c, helpers, log):
                    changed = True
            rec(c)
    rec(f.body)
    return changed


def run(tu, inventory):
    helpers = {f.qual for f in tu.all_fns() if f.body is not None and f.qual not in inventory}
    log = []
    if not helpers:
        return log
    for f in tu.all_fns():
        if f.body is None:
            continue
        for _ in range(4):
            if not _pass(tu, f, helpers, log):
                break
    return log
