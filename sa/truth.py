"""TRUTH -- truthiness discipline (a contradiction-style lint written for this package).

The package tests optional / numeric values explicitly (`isnone(x)`, `x == None`, `x != 0`, `k in d`).  A bare truthiness test
(`if x`, `if not x`, `x or y`, `a if x else b`, `while x`) is used only on boolean-valued expressions: flags with a bool
default, locals assigned comparisons / bool constants / predicates, predicate calls.  Species indices, seeds, amounts,
dictionary look-ups and `.get()` results have valid falsy values (index 0, seed 0, 0.0, an empty list): testing them by
truthiness sends exactly those values down the "absent" branch.  The rule reports every truthiness test whose operand is
not boolean-valued by the inference below; today's tree has none."""
import ast

from . import pyfe

PRED_PREFIX = ("is", "has", "are", "have", "can", "should", "accepts")
PRED_NAMES = {"callable", "any", "all", "bool", "hasattr", "isinstance", "issubclass", "exists", "isfile", "isdir",
              "startswith", "endswith", "isidentifier", "isdigit", "isalpha", "isalnum", "isspace", "is_dir", "is_absolute",
              "is_file", "get_chemostat"}       # get_chemostat returns the 0/1 flag of an entry


def _pred_call(e):
    if not isinstance(e, ast.Call):
        return False
    nm = pyfe.call_name(e).split(".")[-1].lstrip("_")
    return nm in PRED_NAMES or any(nm.startswith(p) and (len(nm) == len(p) or not nm[len(p)].islower() or nm[len(p)] == "_" or
                                                         p in ("is", "has", "accepts", "are", "have"))
                                   for p in PRED_PREFIX)


def _table_column(loop, name, fn):
    """values a loop target takes when the loop runs over a literal table (`for key, builder, mandatory in ((..), (..))`, the
    table written in place or assigned once to a local): the entries of that column; [None] when the iterable is not a literal"""
    it = loop.iter
    if isinstance(it, ast.Name):
        defs = [n.value for n in ast.walk(fn) if isinstance(n, ast.Assign) and len(n.targets) == 1 and
                isinstance(n.targets[0], ast.Name) and n.targets[0].id == it.id]
        it = defs[0] if len(defs) == 1 else it
    if not isinstance(it, (ast.Tuple, ast.List)) or not it.elts:
        return [None]
    tg = loop.target
    if isinstance(tg, ast.Name):
        return list(it.elts) if tg.id == name else [None]
    if isinstance(tg, (ast.Tuple, ast.List)) and all(isinstance(x, ast.Name) for x in tg.elts):
        k = [x.id for x in tg.elts].index(name)
        rows = it.elts
        if all(isinstance(r, (ast.Tuple, ast.List)) and len(r.elts) == len(tg.elts) for r in rows):
            return [r.elts[k] for r in rows]
    return [None]


def boolish(e, fn, depth=0):
    """is expression e boolean-valued, as far as the function's own text says?"""
    if isinstance(e, ast.Constant):
        return isinstance(e.value, bool)
    if isinstance(e, ast.Compare):
        return True
    if isinstance(e, ast.UnaryOp) and isinstance(e.op, ast.Not):
        return True          # the operand is judged on its own
    if isinstance(e, ast.BoolOp):
        return all(boolish(v, fn, depth) for v in e.values)
    if _pred_call(e):
        return True
    if isinstance(e, ast.Call) and isinstance(e.func, ast.Attribute) and e.func.attr in ("__eq__", "__ne__", "__lt__", "__le__",
                                                                                         "__gt__", "__ge__", "__contains__"):
        return True
    if isinstance(e, ast.Attribute):
        nm = e.attr.lstrip("_")
        return any(nm.startswith(p) for p in PRED_PREFIX) or nm.startswith(("requires", "needs", "use", "do")) or \
            nm.endswith(("_flag", "_enabled", "_done"))
    if isinstance(e, ast.Name) and depth < 4:
        a = fn.args
        ps = a.posonlyargs + a.args
        defaults = dict(zip([p.arg for p in ps[len(ps) - len(a.defaults):]], a.defaults))
        defaults.update({p.arg: d for p, d in zip(a.kwonlyargs, a.kw_defaults) if d is not None})
        if e.id in defaults:
            d = defaults[e.id]
            return isinstance(d, ast.Constant) and isinstance(d.value, bool)
        if e.id in [p.arg for p in ps]:
            nm = e.id.lstrip("_")
            return any(nm.startswith(p + "_") for p in PRED_PREFIX)      # accepts_dict, is_open, has_units ...
        vals = []
        for n in ast.walk(fn):
            if isinstance(n, ast.Assign):
                for t in n.targets:
                    if isinstance(t, ast.Name) and t.id == e.id:
                        vals.append(n.value)
            elif isinstance(n, (ast.AugAssign, ast.AnnAssign)) and isinstance(n.target, ast.Name) and n.target.id == e.id:
                vals.append(None)
            elif isinstance(n, (ast.For, ast.comprehension)):
                for t in ast.walk(n.target):
                    if isinstance(t, ast.Name) and t.id == e.id:
                        vals.extend(_table_column(n, e.id, fn))
        if any(isinstance(v, ast.Constant) and isinstance(v.value, bool) for v in vals if v is not None):
            return True      # a flag: one of its assignments is a literal True / False
        return bool(vals) and all(v is not None and boolish(v, fn, depth + 1) for v in vals)
    return False


def tests_of(fn):
    """(node, operand) of every truthiness test directly in fn (nested defs are visited on their own)"""
    st = list(fn.body)
    while st:
        n = st.pop()
        if isinstance(n, (ast.FunctionDef, ast.ClassDef, ast.Lambda)):
            continue
        if isinstance(n, (ast.If, ast.While, ast.IfExp)):
            yield n, n.test
        elif isinstance(n, ast.Assert):
            yield n, n.test
        elif isinstance(n, ast.BoolOp):
            for v in n.values:
                yield n, v
        elif isinstance(n, ast.UnaryOp) and isinstance(n.op, ast.Not):
            yield n, n.operand
        elif isinstance(n, ast.comprehension):
            for c in n.ifs:
                yield n, c
        st.extend(ast.iter_child_nodes(n))


def rule(ctx, R, py, modules, floor=1):
    n = 0
    for mn in modules:
        m = py.mods.get(mn)
        ctx.need(m is not None, R, "module %s not found" % mn)
        fns = []
        for f in m.funcs.values():
            fns.append(f)
            fns += [x for x in ast.walk(f) if isinstance(x, ast.FunctionDef) and x is not f]
        for f in fns:
            seen = set()
            for node, t in tests_of(f):
                while isinstance(t, ast.UnaryOp) and isinstance(t.op, ast.Not):
                    t = t.operand
                if isinstance(t, (ast.Compare, ast.BoolOp)) or id(t) in seen:
                    continue
                seen.add(id(t))
                n += 1
                q = getattr(f, "_qual", mn + "." + f.name)
                ctx.check(boolish(t, f), R, t, q, "truth value of `%s`" % pyfe.src(t)[:60], "a boolean-valued expression",
                          "`%s` is tested by truthiness but is not boolean-valued (a parameter without a bool default, a look-up, a "
                          "number): its valid falsy values (index 0, seed 0, 0.0, an empty sequence) take the branch meant for "
                          "`absent`" % pyfe.src(t)[:60], nontrivial=False)
    ctx.floor(R, floor)
    return n
