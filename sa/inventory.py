"""Function inventory of the pinned tree (sa/inventory.json, generated once by `python -m sa.inventory` and committed).

A function defined in the analysed tree whose qualified name is *not* in the inventory is, by construction, not an anchor
of any rule: it is treated as an extracted helper and inlined into its callers before the rules run (cxfe / pynorm), so
that `extract function` refactorings do not change any verdict -- and a defect moved into a new helper is still seen at
the call site.  Renaming or deleting an inventoried function that a rule anchors fails closed (vanished anchor, exit 2)."""
import ast, json, os

from . import VERIF

PATH = os.path.join(VERIF, "sa", "inventory.json")


def load():
    d = json.load(open(PATH))
    return set(d["cx"]), set(d["py"])


def py_quals(tree, modname):
    out = []

    def rec(body, prefix):
        for n in body:
            if isinstance(n, (ast.FunctionDef, ast.AsyncFunctionDef)):
                q = prefix + n.name
                decs = [ast.unparse(d) for d in n.decorator_list]
                if any(d.endswith(".setter") for d in decs):
                    q += ".setter"
                out.append(q)
                rec(n.body, q + ".<locals>.")
            elif isinstance(n, ast.ClassDef):
                rec(n.body, prefix + n.name + ".")
            elif isinstance(n, (ast.If, ast.For, ast.While)):
                rec(n.body, prefix)
                rec(n.orelse, prefix)
    rec(tree.body, modname + ".")
    return out


if __name__ == "__main__":
    from . import REPO, cxfe, pyfe
    tu = cxfe.load(REPO)
    cx = sorted(f.qual for f in tu.all_fns())
    py = []
    p = pyfe.load(REPO)
    for m in p.mods.values():
        py += py_quals(m.tree, m.name)
    json.dump({"cx": cx, "py": sorted(set(py))}, open(PATH, "w"), indent=0)
    print(len(cx), "C++ functions,", len(set(py)), "Python functions")
