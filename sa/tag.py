"""TAG -- unit-tag abstract interpretation of Python code.

Abstract values:  Q(cls, sys, dim)  quantity (UnitValue / UnitArray);  N(sys, dim) a float / array extracted by
.value (or an element of one);  NUM a plain number (polymorphic);  U(sys, dim) a Units;  SYS(sys);  DIM(dim);
sys is a symbolic name, dim a linear form over symbolic dimension vectors (so D_self + D_v, -D_self, e*D_self).
Only *definite* mismatches are reported: two known, different systems combined; a known dimension wrapped as a
different one.  Path facts `x.units.dim == y.units.dim` (or != with a raising body) identify dimension symbols.
"""
import ast
from fractions import Fraction

from . import pyfe
from .poly import Rat


class D:
    """linear form over dimension symbols"""

    def __init__(self, t=None):
        self.t = {k: v for k, v in (t or {}).items() if v != 0}

    def __add__(a, b):
        r = dict(a.t)
        for k, v in b.t.items():
            r[k] = r.get(k, 0) + v
        return D(r)

    def scale(a, c):
        return D({k: v * c for k, v in a.t.items()})

    def scale_sym(a, e):
        return D({"%s*%s" % (e, k): v for k, v in a.t.items()})

    def key(a):
        return tuple(sorted(a.t.items(), key=str))

    def __repr__(a):
        return " + ".join(("%s*%s" % (v, k) if v != 1 else str(k)) for k, v in sorted(a.t.items())) or "0"


class V:
    """num: the magnitude as a rational function of the operands' magnitudes (a = self, b = the other operand,
    both expressed in one unit system -- which systems are involved is tracked separately by `sys`), or None"""

    def __init__(self, kind, sys=None, dim=None, cls=None, extra=None, num=None):
        self.kind, self.sys, self.dim, self.cls, self.extra, self.num = kind, sys, dim, cls, extra, num

    def __repr__(self):
        if self.kind in ("Q", "N", "U"):
            return "%s(%s%s, %s)" % (self.kind, (self.cls + ": ") if self.cls else "", self.sys, self.dim)
        return self.kind


NUM = V("NUM")
UNK = V("UNK")
BOOL = V("BOOL")


class Raises(Exception):
    pass


class Ret(Exception):
    def __init__(self, v):
        self.v = v


class Cx:
    def __init__(self):
        self.facts = set()
        self.problems = []      # (line, message)
        self.rets = []
        self.ret_facts = []     # dimension facts holding at each entry of rets
        self.exc_returned = []  # lines where an exception object is returned

    def canon(self, d):
        t = D(d.t)
        changed = True
        n = 0
        while changed and n < 10:
            changed = False
            n += 1
            for (x, y) in self.facts:
                if x in t.t and x != y:
                    c = t.t[x]
                    t = t + D({x: -c, y: c})
                    changed = True
        return t

    def dimeq(self, a, b):
        if a is None or b is None:
            return True
        return self.canon(a).key() == self.canon(b).key()


EXC_NAMES = {"TypeError", "ValueError", "Exception", "NotImplementedError", "RuntimeError", "KeyError",
             "IndexError", "AttributeError", "ArithmeticError", "ZeroDivisionError"}


class Interp:
    def __init__(self, py, modname="units"):
        self.py = py
        self.mod = py.mods[modname]
        self.classes = {c.name: {f.name: f for f in c.body if isinstance(f, ast.FunctionDef)
                                 and getattr(f, "_role", "method") == "method"}
                        for c in self.mod.classes.values()}
        self.funcs = {q: f for q, f in self.mod.funcs.items() if "." not in q}
        self.depth = 0

    # ------------------------------------------------------------------------------------------ expressions
    def ev(self, n, env, cx):
        if isinstance(n, ast.Constant):
            if isinstance(n.value, (int, float)) and not isinstance(n.value, bool):
                return V("NUM", num=Rat.const(Fraction(repr(n.value)) if isinstance(n.value, float) else n.value))
            return V("CONST", extra=n.value)
        if isinstance(n, ast.Name):
            return env.get(n.id, UNK)
        if isinstance(n, ast.Attribute):
            b = self.ev(n.value, env, cx)
            if b.kind == "Q":
                if n.attr == "units":
                    return V("U", b.sys, b.dim)
                if n.attr == "value":
                    return V("N", b.sys, b.dim, extra="array" if b.cls == "UnitArray" else None, num=b.num)
                return UNK
            if b.kind == "U":
                if n.attr == "sys":
                    return V("SYS", b.sys)
                if n.attr == "dim":
                    return V("DIM", None, b.dim)
            return UNK
        if isinstance(n, ast.Subscript):
            b = self.ev(n.value, env, cx)
            if b.kind == "N":
                return V("N", b.sys, b.dim, num=b.num)
            return UNK
        if isinstance(n, ast.UnaryOp):
            o = self.ev(n.operand, env, cx)
            if isinstance(n.op, ast.USub) and o.kind == "Q":
                return self.call_method(o, "__neg__", [], cx)
            if isinstance(n.op, ast.Not):
                return BOOL
            if isinstance(n.op, ast.USub) and o.kind in ("N", "NUM"):
                return V(o.kind, o.sys, o.dim, o.cls, o.extra, num=(-o.num if o.num is not None else None))
            return o
        if isinstance(n, ast.BinOp):
            l, r = self.ev(n.left, env, cx), self.ev(n.right, env, cx)
            return self.arith(type(n.op), l, r, cx, n)
        if isinstance(n, ast.ListComp):
            e2 = dict(env)
            for g in n.generators:
                itv = self.ev(g.iter, e2, cx)
                for t in ast.walk(g.target):
                    if isinstance(t, ast.Name):
                        # iterating directly over an array of numbers binds the target to one of its elements
                        e2[t.id] = V("N", itv.sys, itv.dim, num=itv.num) if (itv.kind == "N" and isinstance(g.target, ast.Name)) else NUM
            el = self.ev(n.elt, e2, cx)
            if el.kind == "N":
                return V("N", el.sys, el.dim, extra="array", num=el.num)
            return el
        if isinstance(n, ast.Call):
            return self.call(n, env, cx)
        if isinstance(n, ast.Compare):
            l = self.ev(n.left, env, cx)
            r = self.ev(n.comparators[0], env, cx)
            if l.kind == "N" and r.kind == "N":
                if l.sys != r.sys and l.sys and r.sys:
                    cx.problems.append((n.lineno, "comparison of numbers in different unit systems (%s vs %s): "
                                        "the right operand was not converted" % (l.sys, r.sys)))
                if not cx.dimeq(l.dim, r.dim):
                    cx.problems.append((n.lineno, "comparison across dimensions %s vs %s without a dimension check"
                                        % (l.dim, r.dim)))
            if len(n.ops) == 1 and l.num is not None and r.num is not None:
                return V("BOOL", extra=(type(n.ops[0]).__name__, l.num, r.num))
            return BOOL
        if isinstance(n, ast.BoolOp):
            for v in n.values:
                self.ev(v, env, cx)
            return BOOL
        return UNK

    def arith(self, op, l, r, cx, n):
        if l.kind == "Q" or r.kind == "Q":
            # operator dispatch on a quantity inside the module: resolve through the methods
            name = {ast.Add: "__add__", ast.Sub: "__sub__", ast.Mult: "__mul__", ast.Div: "__truediv__",
                    ast.Mod: "__mod__", ast.Pow: "__pow__"}.get(op)
            rname = {ast.Add: "__radd__", ast.Sub: "__rsub__", ast.Mult: "__rmul__", ast.Div: "__rtruediv__",
                     ast.Mod: "__rmod__"}.get(op)
            if l.kind == "Q" and name:
                return self.call_method(l, name, [r], cx)
            if r.kind == "Q" and rname:
                return self.call_method(r, rname, [l], cx)
            return UNK
        num = None
        if l.num is not None and r.num is not None:
            try:
                if op is ast.Add:
                    num = l.num + r.num
                elif op is ast.Sub:
                    num = l.num - r.num
                elif op is ast.Mult:
                    num = l.num * r.num
                elif op is ast.Div:
                    num = l.num / r.num
                elif op is ast.Mod:
                    num = Rat.sym("mod(%r,%r)" % (l.num, r.num))
                elif op is ast.Pow:
                    num = Rat.sym("pow(%r,%r)" % (l.num, r.num))
            except Exception:
                num = None
        res = self._arith(op, l, r, cx, n)
        if res is not None and res.kind in ("N", "NUM"):
            res = V(res.kind, res.sys, res.dim, res.cls, res.extra, num=num)
        return res if res is not None else UNK

    def _arith(self, op, l, r, cx, n):
        if l.kind == "NUM" and r.kind == "NUM":
            return V("NUM")
        if op in (ast.Add, ast.Sub, ast.Mod):
            if l.kind == "N" and r.kind == "N":
                if l.sys != r.sys and l.sys and r.sys:
                    cx.problems.append((n.lineno, "%s of numbers in different unit systems (%s vs %s): an operand "
                                        "was not converted" % (op.__name__, l.sys, r.sys)))
                if not cx.dimeq(l.dim, r.dim):
                    cx.problems.append((n.lineno, "%s across dimensions %s vs %s without a dimension check"
                                        % (op.__name__, l.dim, r.dim)))
                return V("N", l.sys, l.dim)
            t = l if l.kind == "N" else r
            return V("N", t.sys, t.dim) if t.kind == "N" else UNK
        if op is ast.Mult:
            if l.kind == "N" and r.kind == "N":
                if l.sys != r.sys and l.sys and r.sys:
                    cx.problems.append((n.lineno, "product of numbers in different unit systems (%s vs %s)"
                                        % (l.sys, r.sys)))
                return V("N", l.sys, l.dim + r.dim)
            t = l if l.kind == "N" else r
            return V("N", t.sys, t.dim) if t.kind == "N" else UNK
        if op is ast.Div:
            if l.kind == "N" and r.kind == "N":
                if l.sys != r.sys and l.sys and r.sys:
                    cx.problems.append((n.lineno, "quotient of numbers in different unit systems"))
                return V("N", l.sys, l.dim + r.dim.scale(-1))
            if l.kind == "N":
                return V("N", l.sys, l.dim)
            if r.kind == "N":
                return V("N", r.sys, r.dim.scale(-1))
        if op is ast.Pow:
            if l.kind == "N" and r.kind in ("NUM",):
                return V("N", l.sys, l.dim.scale_sym(r.extra or "e"))
        return UNK

    def wrap(self, cls, val, units, cx, line):
        if units.kind != "U":
            return V("Q", None, None, cls)
        if val.kind == "N":
            if val.sys != units.sys and val.sys and units.sys:
                cx.problems.append((line, "a number expressed in %s is wrapped with units of %s" % (val.sys, units.sys)))
            if not cx.dimeq(val.dim, units.dim):
                cx.problems.append((line, "a number of dimension %s is wrapped with dimension %s" % (val.dim, units.dim)))
        return V("Q", units.sys, units.dim, cls, num=val.num if val.kind in ("N", "NUM") else None)

    def call(self, n, env, cx):
        f = n.func
        args = [self.ev(a, env, cx) for a in n.args]
        if isinstance(f, ast.Name):
            if f.id in ("UnitValue", "UnitArray"):
                return self.wrap(f.id, args[0] if args else UNK, args[1] if len(args) > 1 else UNK, cx, n.lineno)
            if f.id == "Units":
                s, d = (args + [UNK, UNK])[:2]
                return V("U", s.sys if s.kind == "SYS" else None, d.dim if d.kind == "DIM" else None)
            if f.id in ("len", "range", "int", "float"):
                return V("NUM")
            if f.id == "abs":
                a = args[0] if args else V("NUM")
                return V(a.kind, a.sys, a.dim, a.cls, a.extra,
                         num=Rat.sym("abs(%r)" % (a.num,)) if a.num is not None else None)
            if f.id in ("isnumber", "isarray", "isstr", "type", "isnone", "isinstance"):
                return BOOL
            if f.id in EXC_NAMES:
                return V("EXC", extra=f.id)
            if f.id in self.funcs:
                return self.call_func(self.funcs[f.id], args, cx)
            return UNK
        if isinstance(f, ast.Attribute):
            recv = self.ev(f.value, env, cx)
            if recv.kind == "Q":
                if f.attr == "convert":
                    t = args[0] if args else UNK
                    if t.kind == "SYS":
                        return V("Q", t.sys, recv.dim, recv.cls, num=recv.num)
                    if t.kind == "U":
                        if not cx.dimeq(t.dim, recv.dim):
                            cx.problems.append((n.lineno, "conversion to units of a different dimension"))
                        return V("Q", t.sys, recv.dim, recv.cls, num=recv.num)
                    return V("Q", None, recv.dim, recv.cls, num=recv.num)
                if f.attr == "copy":
                    return recv
                return self.call_method(recv, f.attr, args, cx)
            if recv.kind == "U":
                if f.attr == "multiply":
                    o = args[0] if args else UNK
                    if o.kind != "U":
                        return V("U", recv.sys, None)
                    if o.sys != recv.sys and o.sys and recv.sys:
                        cx.problems.append((n.lineno, "Units.multiply of different unit systems (%s, %s): raises at "
                                            "run time because the operand was not converted" % (recv.sys, o.sys)))
                    return V("U", recv.sys, recv.dim + o.dim if recv.dim and o.dim else None)
                if f.attr == "invert":
                    return V("U", recv.sys, recv.dim.scale(-1) if recv.dim else None)
                if f.attr == "raiseto":
                    e = pyfe.src(n.args[0]) if n.args else "e"
                    return V("U", recv.sys, recv.dim.scale_sym(e) if recv.dim else None)
                if f.attr == "copy":
                    return recv
        return UNK

    def call_method(self, recv, name, args, cx):
        m = self.classes.get(recv.cls, {}).get(name)
        if m is None or self.depth > 5:
            return UNK
        params = [a.arg for a in m.args.args]
        env = {params[0]: recv}
        for p, a in zip(params[1:], args):
            env[p] = a
        return self.run_function(m, env, cx)

    def call_func(self, fn, args, cx):
        if self.depth > 5:
            return UNK
        env = {a.arg: v for a, v in zip(fn.args.args, args)}
        return self.run_function(fn, env, cx)

    # ------------------------------------------------------------------------------------------ statements
    def truth(self, test, env):
        """type tests against the abstract operand classes: True / False / None"""
        if isinstance(test, ast.Compare) and isinstance(test.left, ast.Call) and \
                isinstance(test.left.func, ast.Name) and test.left.func.id == "type" and \
                isinstance(test.left.args[0], ast.Name):
            v = env.get(test.left.args[0].id)
            c = test.comparators[0]
            if v is not None and isinstance(c, ast.Name):
                if v.kind == "UNK":
                    return None
                is_ = (v.kind == "Q" and v.cls == c.id) or (v.kind == "LIST" and c.id == "list")
                return is_ if isinstance(test.ops[0], ast.Eq) else not is_
        if isinstance(test, ast.Call) and isinstance(test.func, ast.Name) and test.func.id == "isnumber" and \
                isinstance(test.args[0], ast.Name):
            v = env.get(test.args[0].id)
            if v is not None and v.kind != "UNK":
                return v.kind == "NUM"
        if isinstance(test, ast.BoolOp) and isinstance(test.op, ast.Or):
            vs = [self.truth(t, env) for t in test.values]
            if any(v is True for v in vs):
                return True
            if all(v is False for v in vs):
                return False
        if isinstance(test, ast.BoolOp) and isinstance(test.op, ast.And):
            vs = [self.truth(t, env) for t in test.values]
            if any(v is False for v in vs):
                return False
            if all(v is True for v in vs):
                return True
        return None

    def dimfact(self, test, env, cx):
        if isinstance(test, ast.Compare) and len(test.ops) == 1 and isinstance(test.ops[0], (ast.Eq, ast.NotEq)):
            l = self.ev(test.left, env, Cx())
            r = self.ev(test.comparators[0], env, Cx())
            if l.kind == "DIM" and r.kind == "DIM" and l.dim and r.dim and len(l.dim.t) == 1 and len(r.dim.t) == 1:
                return (list(l.dim.t)[0], list(r.dim.t)[0], isinstance(test.ops[0], ast.Eq))
        return None

    def run_block(self, stmts, env, cx):
        for s in stmts:
            if isinstance(s, ast.Expr):
                v = self.ev(s.value, env, cx)
                if v.kind == "EXC":
                    cx.exc_returned.append((s.lineno, "exception object constructed and dropped"))
                continue
            if isinstance(s, ast.Assign) and isinstance(s.targets[0], ast.Name):
                env[s.targets[0].id] = self.ev(s.value, env, cx)
            elif isinstance(s, ast.Return):
                v = self.ev(s.value, env, cx) if s.value is not None else UNK
                if v.kind == "EXC":
                    cx.exc_returned.append((s.lineno, "`return %s(...)`: the exception is returned, not raised"
                                            % v.extra))
                r_ = Ret(v)
                r_.facts = set(cx.facts)
                raise r_
            elif isinstance(s, ast.Raise):
                raise Raises()
            elif isinstance(s, ast.If):
                t = self.truth(s.test, env)
                fact = self.dimfact(s.test, env, cx)
                if t is None:
                    self.ev(s.test, env, cx)
                branches = []
                if t is not False:
                    branches.append((s.body, True))
                if t is not True:
                    branches.append((s.orelse, False))
                outcomes = []
                for body, pos in branches:
                    e2 = dict(env)
                    saved = set(cx.facts)
                    if fact and (fact[2] == pos):
                        cx.facts.add((fact[1], fact[0]))
                    try:
                        self.run_block(body, e2, cx)
                        outcomes.append(("fall", e2, set(cx.facts)))
                    except Raises:
                        outcomes.append(("raise", None, None))
                    except Ret as r:
                        cx.rets.append(r.v)
                        cx.ret_facts.append(getattr(r, "facts", set()))
                        outcomes.append(("ret", None, None))
                    cx.facts = saved
                falls = [o for o in outcomes if o[0] == "fall"]
                if not falls:
                    if all(o[0] == "raise" for o in outcomes):
                        raise Raises()
                    raise Ret(None)
                env.clear()
                env.update(falls[0][1])
                cx.facts = falls[0][2]
                if len(falls) > 1:
                    for k in list(env):
                        if repr(falls[1][1].get(k)) != repr(env[k]):
                            env[k] = UNK
                    cx.facts = falls[0][2] & falls[1][2]
            elif isinstance(s, (ast.For, ast.While)):
                e2 = dict(env)
                try:
                    self.run_block(s.body, e2, cx)
                except (Raises, Ret):
                    pass

    def run_function(self, fn, env, cx):
        self.depth += 1
        sub = Cx()
        sub.facts = set(cx.facts)
        res = None
        res_facts = set()
        try:
            try:
                self.run_block(fn.body, dict(env), sub)
                res = UNK
            except Ret as r:
                res = r.v
                res_facts = getattr(r, "facts", set())
            except Raises:
                cx.problems += sub.problems
                cx.exc_returned += sub.exc_returned
                raise
        finally:
            self.depth -= 1
        cx.problems += sub.problems
        cx.exc_returned += sub.exc_returned
        rets = [r for r in sub.rets if r is not None] + ([res] if res is not None and res is not UNK else [])
        cx.all_rets = rets
        cx.all_ret_facts = [f_ for r, f_ in zip(sub.rets, sub.ret_facts + [set()] * len(sub.rets)) if r is not None] + \
            ([res_facts] if res is not None and res is not UNK else [])
        # what every returning path of the callee established about the dimensions holds in the caller after the call
        if cx.all_ret_facts:
            common = set(cx.all_ret_facts[0])
            for f_ in cx.all_ret_facts[1:]:
                common &= set(f_)
            cx.facts |= common
        return rets[0] if rets else UNK
