"""Checker self-test, second half (thorough tier): the stored corpus under /verif/seeded.

  seeded/<Cnn><x>/patch.diff     an independently written change that breaks property Cnn while compiling and passing the
                                 test-suite (confirmed with its demo, see meta.json): the property's check must exit 1
  seeded/refactors/*.diff        independently written behaviour-preserving refactorings: the check must stay silent

Each patch is applied to a scratch copy of the *current* tree (mktemp, removed afterwards); a patch that no longer applies
is skipped and counted.  seeded/EXPECT.json records, per entry, what the checker is expected to do with it today:
"caught" / "silent" entries are enforced (a regression fails the self-test, exit 2); "open" entries are run and
reported but not enforced -- they are the documented limits of the checker (DESIGN.md section 15).
As with the mutants, the verdict on /repo never comes from here."""
import glob, json, os, shutil, subprocess, sys, tempfile
from concurrent.futures import ThreadPoolExecutor

from . import VERIF, REPO
from .mutants import _copy_repo


def _apply_patch(root, patch):
    r = subprocess.run("patch -p1 --binary -s -f < %s" % patch, shell=True, cwd=root, capture_output=True, text=True)
    return r.returncode == 0


def _run(pid, patch):
    tmp = tempfile.mkdtemp(prefix="sa-corp-")
    try:
        root = os.path.join(tmp, "repo")
        _copy_repo(root)
        if not _apply_patch(root, patch):
            return None, "patch no longer applies"
        env = dict(os.environ, SA_REPO=root, SA_EVIDENCE_DIR=os.path.join(tmp, "ev"), PYTHONPATH=VERIF)
        r = subprocess.run([sys.executable, "-m", "sa", "check", pid, "--tier", "quick"], cwd=VERIF, env=env,
                           capture_output=True, text=True, timeout=600)
        lines = [l for l in r.stdout.splitlines() if l.startswith(("VIOLATION", "ANALYSIS-ERROR"))]
        return r.returncode, "; ".join(os.path.basename(l.split("replay=")[-1])[:60] for l in lines[:3])
    finally:
        shutil.rmtree(tmp, ignore_errors=True)


def run_for(pid):
    seeds = sorted(d for d in glob.glob(os.path.join(VERIF, "seeded", pid + "*")) if os.path.exists(os.path.join(d, "patch.diff")))
    refs = sorted(glob.glob(os.path.join(VERIF, "seeded", "refactors", "*.diff")))
    jobs = [("seed", os.path.basename(d), os.path.join(d, "patch.diff")) for d in seeds] + \
           [("refactoring", os.path.basename(p)[:-5], p) for p in refs]
    if not jobs:
        print("selftest %s: no stored corpus" % pid)
        return 0
    # time budget (seconds, SA_CORPUS_BUDGET, default 900): the seeded changes of this property come first, then the
    # refactorings; what is not started within the budget is reported as not run (it neither passes nor fails)
    import time
    budget = float(os.environ.get("SA_CORPUS_BUDGET", "900"))
    t0 = time.time()

    def guarded(j):
        if time.time() - t0 > budget:
            return None, "not run: time budget of %d s used up" % budget
        return _run(pid, j[2])
    with ThreadPoolExecutor(max_workers=16) as ex:
        res = list(ex.map(guarded, jobs))
    bad, skipped, n = [], 0, {"seed": 0, "refactoring": 0}
    exp = json.load(open(os.path.join(VERIF, "seeded", "EXPECT.json")))
    exp = dict(exp["seeds"], **exp["refactorings"])
    open_ = []
    for (kind, name, _), (rc, info) in zip(jobs, res):
        if rc is None:
            skipped += 1
            print("  corpus %-12s %-10s skipped (%s)" % (kind, name, info))
            continue
        want = 1 if kind == "seed" else 0
        ok = rc == want
        n[kind] += ok
        if not ok or kind == "seed":
            print("  corpus %-12s %-10s %s  %s" % (kind, name, "caught" if (ok and want) else ("silent" if ok else
                  ("MISSED" if want else "FALSE ALARM (exit %d)" % rc)), info))
        if not ok and exp.get(name, "open") == "open":
            open_.append((kind, name, rc, info))
        elif not ok:
            bad.append((kind, name, rc, info))
    print("selftest %s corpus: %d/%d seeded changes caught, %d/%d refactorings silent, %d skipped, %d open (not enforced)" %
          (pid, n["seed"], len(seeds), n["refactoring"], len(refs), skipped, len(open_)))
    evp = os.path.join(os.environ.get("SA_EVIDENCE_DIR") or os.path.join(VERIF, "evidence"), "%s.json" % pid)
    try:
        ev = json.load(open(evp))
        ev["coverage"]["corpus"] = {"seeded_changes": len(seeds), "caught": n["seed"], "refactorings": len(refs),
                                    "silent": n["refactoring"], "skipped": skipped, "failed": bad,
                                    "open_not_enforced": open_}
        json.dump(ev, open(evp, "w"), indent=1)
    except Exception:
        pass
    if bad:
        print("ANALYSIS-ERROR property=%s checker self-test failed on the stored corpus: %s" % (pid, bad[:3]))
        return 2
    return 0
