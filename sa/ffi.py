"""FFI -- the ctypes boundary: positional arity and C-type <-> ctypes agreement of every
`self._lib.engineexport_*(...)` call; restype of double-returning exports; export list of setup.py;
agreement of buffer lengths (Python) with the extents the engine reads / writes (IDX)."""
import ast

from . import cxfe, cxa, pyfe, idx as idxmod
from .cxfe import kids, strip, text, walk, call_parts
from .core import AnalysisError
from .poly import Poly

CT = {"c_int": "int", "c_double": "double", "c_char_p": "const char *", "c_bool": "bool", "c_long": "long"}


def call_sites(py):
    """[(enclosing fn, call node, export name)] in the whole package"""
    out = []
    for m in py.mods.values():
        for n in ast.walk(m.tree):
            if isinstance(n, ast.Call) and isinstance(n.func, ast.Attribute) and \
                    n.func.attr.startswith("engineexport_"):
                fn = pyfe.enclosing_fn(n)
                out.append((fn, n, n.func.attr))
    return out


def _local_def(fn, name):
    """the single assignment `name = expr` in fn, else None"""
    defs = []
    for n in ast.walk(fn):
        if isinstance(n, ast.Assign) and len(n.targets) == 1 and isinstance(n.targets[0], ast.Name) \
                and n.targets[0].id == name:
            defs.append(n.value)
    return defs[0] if len(defs) == 1 else None


def py_arg(arg, fn):
    """(C type, payload expression or length expression, form)"""
    if isinstance(arg, ast.Call):
        nm = pyfe.call_name(arg)
        base = nm.split(".")[-1]
        if base in CT and arg.args:
            return CT[base], arg.args[0], "scalar"
        if base == "make_ctypes_array" and len(arg.args) == 2:
            t = pyfe.src(arg.args[1]).split(".")[-1]
            return CT.get(t, "?") + " *", arg.args[0], "array"
    if isinstance(arg, ast.Name):
        d = _local_def(fn, arg.id)
        # buffer:  (n * ctypes.c_double)()
        if isinstance(d, ast.Call) and isinstance(d.func, ast.BinOp) and isinstance(d.func.op, ast.Mult):
            for a, b in ((d.func.left, d.func.right), (d.func.right, d.func.left)):
                t = pyfe.src(b).split(".")[-1]
                if t in CT:
                    return CT[t] + " *", a, "buffer"
        if d is None and arg.id in pyfe.params(fn):
            return "int", arg, "pyint"     # a Python int is passed as C int by ctypes' default conversion
        if d is not None and _intish(d, fn):
            return "int", arg, "pyint"
    if _intish(arg, fn):
        return "int", arg, "pyint"
    return "?", arg, "unknown"


def _intish(e, fn, depth=0):
    """an expression that evaluates to a Python int: literals, parameters, len / int / min / max / abs of such, + - * // of such"""
    if depth > 4:
        return False
    if isinstance(e, ast.Constant):
        return isinstance(e.value, int) and not isinstance(e.value, bool)
    if isinstance(e, ast.Name):
        d = _local_def(fn, e.id)
        if d is not None:
            return _intish(d, fn, depth + 1)
        return e.id in pyfe.params(fn)
    if isinstance(e, ast.Call) and isinstance(e.func, ast.Name):
        if e.func.id in ("len", "int"):
            return True
        if e.func.id in ("min", "max", "abs") and e.args:
            return all(_intish(a, fn, depth + 1) for a in e.args)
    if isinstance(e, ast.BinOp) and isinstance(e.op, (ast.Add, ast.Sub, ast.Mult, ast.FloorDiv, ast.Mod)):
        return _intish(e.left, fn, depth + 1) and _intish(e.right, fn, depth + 1)
    return False


def rule_sig(ctx, R, only=None):
    py, tu = ctx.py, ctx.cx
    sites = call_sites(py)
    ctx.need(len(sites) >= 11, R, "found %d engineexport_* call sites in the package (reference: 11)" % len(sites))
    exports = {f.name: f for f in tu.funcs.values() if f.extern_c and f.name.startswith("engineexport_")}
    called = set()
    for fn, call, name in sites:
        q = fn._qual if fn else "?"
        if name not in exports:
            ctx.violation(R, call, q, name, "the package calls an export the engine does not define")
            continue
        called.add(name)
        f = exports[name]
        ctx.check(len(call.args) == len(f.params) and not call.keywords, R, call, q,
                  "%s: %d arguments" % (name, len(call.args)),
                  "matches the %d C parameters" % len(f.params),
                  "the C function takes %d parameters: every later argument is read from the wrong slot"
                  % len(f.params), nontrivial=False)
        for i, (a, p) in enumerate(zip(call.args, f.params)):
            if only is not None and p.get("name") not in only:
                continue
            ct = p.get("type", {}).get("qualType", "")
            pt, payload, form = py_arg(a, fn)
            okk = pt.replace(" ", "") == ct.replace(" ", "")
            ctx.check(okk, R, a, q, "%s arg %d (%s %s)" % (name, i, ct, p.get("name")),
                      "%s <- %s" % (ct, pyfe.src(a)[:60]),
                      "C parameter `%s %s` receives %s (%s)" % (ct, p.get("name"), pt, pyfe.src(a)[:60]))
    if only is not None:
        return
    # restype for non-int returns
    restypes = {}
    for m in py.mods.values():
        for n in ast.walk(m.tree):
            if isinstance(n, ast.Assign) and len(n.targets) == 1 and isinstance(n.targets[0], ast.Attribute) \
                    and n.targets[0].attr == "restype" and isinstance(n.targets[0].value, ast.Attribute):
                restypes[n.targets[0].value.attr] = pyfe.src(n.value).split(".")[-1]
    for name, f in sorted(exports.items()):
        if f.ret != "int":
            ctx.check(CT.get(restypes.get(name)) == f.ret, R, f.node, name, "restype of %s" % name,
                      "declared %s" % restypes.get(name),
                      "the export returns %s but ctypes assumes int unless restype is set (got %s)"
                      % (f.ret, restypes.get(name)))
    # export list of the build
    kw = cxfe.build_info(ctx.repo)
    exp = set(kw.get("export_symbols", []))
    ctx.check(exp == set(exports), R, (ctx.repo + "/setup.py", None), "setup.py", "export_symbols",
              "= the %d extern \"C\" engineexport_* functions" % len(exports),
              "export_symbols and the extern \"C\" set differ: %s" % sorted(exp ^ set(exports)))
    ctx.check(called <= set(exports), R, None, "librdengine", "called exports are defined", "", "")
    ctx.floor(R, 60)


# ------------------------------------------------------------------------------------------------ lengths
class LengthChanged(idxmod.Unknown):
    """the expression is known NOT to keep the length the engine is told about"""


class PyLen:
    """length of a Python sequence expression as a polynomial over opaque `len(...)`/size atoms"""

    def __init__(self, py):
        self.py = py
        self.assumptions = []
        # receiver-type facts from dispatch code:  if type(X) == K : self.M(...)   =>  inside M, X is a K
        self.hints = {}
        for f in py.all_funcs():
            for n in ast.walk(f):
                if isinstance(n, ast.If) and isinstance(n.test, ast.Compare) and len(n.test.ops) == 1 and \
                        isinstance(n.test.ops[0], ast.Eq) and isinstance(n.test.left, ast.Call) and \
                        pyfe.call_name(n.test.left) == "type" and isinstance(n.test.comparators[0], ast.Name):
                    subj = pyfe.src(n.test.left.args[0])
                    k = n.test.comparators[0].id
                    for st in n.body:
                        for c in pyfe.calls_in(st):
                            if isinstance(c.func, ast.Attribute) and isinstance(c.func.value, ast.Name) and \
                                    c.func.value.id == "self" and getattr(f, "_cls", None) is not None:
                                t = py.lookup_method(f._cls, c.func.attr)
                                if t is not None:
                                    self.hints.setdefault(t._qual, {})[subj] = k

    def length(self, e, fn, env=None, depth=0):
        env = env or {}
        if depth > 6:
            raise idxmod.Unknown("length recursion")
        if isinstance(e, ast.Name):
            if e.id in env:
                return Poly.sym("len(%s)" % env[e.id][1])
            d = _local_def(fn, e.id)
            if d is not None:
                return self.length(d, fn, env, depth + 1)
            if e.id in pyfe.params(fn):
                return Poly.sym("len(%s)" % e.id)
            raise idxmod.Unknown("length of name " + e.id)
        if isinstance(e, ast.ListComp) and e.generators and not any(g.ifs for g in e.generators):
            # one element per combination of the (independent) generators
            tg = set()
            out = None
            for g in e.generators:
                if {x.id for x in ast.walk(g.iter) if isinstance(x, ast.Name)} & tg:
                    raise idxmod.Unknown("length of a comprehension whose inner iterable depends on an outer variable")
                l_ = self.length(g.iter, fn, env, depth + 1)
                out = l_ if out is None else out * l_
                tg |= {x.id for x in ast.walk(g.target) if isinstance(x, ast.Name)}
            return out
        if isinstance(e, ast.Attribute):
            if e.attr == "value":     # UnitArray.value has the array's length
                return self.length(e.value, fn, env, depth + 1)
            return Poly.sym("len(%s)" % self._norm(e, env))
        if isinstance(e, ast.Call):
            nm = pyfe.call_name(e)
            base = nm.split(".")[-1]
            if base == "range" and len(e.args) == 1:
                return self.scalar(e.args[0], fn, env, depth + 1)
            if base in ("convert", "copy", "astype", "flatten", "ravel", "tolist") and isinstance(e.func, ast.Attribute):
                return self.length(e.func.value, fn, env, depth + 1)   # length-preserving
            if base in ("unique", "set", "frozenset", "filter", "compress", "nonzero", "trim_zeros", "extract", "delete",
                        "flatnonzero", "argwhere", "union1d", "intersect1d", "setdiff1d"):
                raise LengthChanged("%s(...) returns a sequence whose length is not that of its argument" % nm)
            if base in ("asarray", "ascontiguousarray", "asfarray", "sorted", "sort", "float64", "abs", "fabs") and e.args:
                return self.length(e.args[0], fn, env, depth + 1)
            if base in ("UnitArray", "array", "list", "tuple", "deepcopy") and e.args:
                return self.length(e.args[0], fn, env, depth + 1)
            if base == "zeros" and e.args:
                return self.scalar(e.args[0], fn, env, depth + 1)
            # package function / method: interpret the returned sequence
            targets = [t for t in self.py.resolve_call(fn, e) if isinstance(t, ast.FunctionDef)]
            if len(targets) > 1 and isinstance(e.func, ast.Attribute):
                want = self.hints.get(getattr(fn, "_qual", ""), {}).get(pyfe.src(e.func.value))
                if want:
                    targets = [t for t in targets if t._cls is not None and t._cls.name == want]
            if len(targets) >= 1:
                outs = []
                for t in targets:
                    if isinstance(e.func, ast.Attribute) and getattr(t, "_cls", None) is not None:
                        recv = self._norm(e.func.value, env)
                        sub = {"self": (None, recv)}
                    else:
                        sub = {}
                    ps = [p for p in pyfe.params(t) if p != "self"]
                    for p, a in zip(ps, e.args):
                        sub[p] = (None, self._norm(a, env))
                    for kwd in e.keywords:
                        sub[kwd.arg] = (None, self._norm(kwd.value, env))
                    outs.append(self.returned_length(t, sub, depth + 1))
                if all(o == outs[0] for o in outs):
                    return outs[0]
                raise idxmod.Unknown("receivers disagree on the length of %s" % nm)
            raise idxmod.Unknown("length of call " + nm)
        raise idxmod.Unknown("length of " + pyfe.src(e)[:60])

    def scalar(self, e, fn, env, depth=0):
        if isinstance(e, ast.Constant) and isinstance(e.value, int):
            return Poly.const(e.value)
        if isinstance(e, ast.BinOp) and isinstance(e.op, (ast.Mult, ast.Add)):
            a, b = self.scalar(e.left, fn, env, depth + 1), self.scalar(e.right, fn, env, depth + 1)
            return a * b if isinstance(e.op, ast.Mult) else a + b
        if isinstance(e, ast.Name):
            d = _local_def(fn, e.id)
            if d is not None and e.id not in env:
                return self.scalar(d, fn, env, depth + 1)
            return Poly.sym(self._norm(e, env))
        if isinstance(e, ast.Call):
            nm = pyfe.call_name(e)
            base = nm.split(".")[-1]
            if base == "len" and e.args:
                return self.length(e.args[0], fn, env, depth + 1)
            targets = [t for t in self.py.resolve_call(fn, e) if isinstance(t, ast.FunctionDef)]
            outs = []
            try:
                for t in targets:
                    rets = [n for n in ast.walk(t) if isinstance(n, ast.Return) and n.value is not None]
                    if len(rets) == 1 and isinstance(e.func, ast.Attribute):
                        sub = {"self": (None, self._norm(e.func.value, env))}
                        outs.append(self.scalar(rets[0].value, t, sub, depth + 1))
                    else:
                        outs = []
                        break
            except idxmod.Unknown:
                outs = []
            if outs and all(o == outs[0] for o in outs):
                return outs[0]
            return Poly.sym(self._norm(e, env))   # opaque size symbol (mapped by the 4.1 table)
        if isinstance(e, ast.Attribute):
            return Poly.sym(self._norm(e, env))
        raise idxmod.Unknown("scalar " + pyfe.src(e)[:60])

    def _norm(self, e, env):
        """source text with parameter names replaced by the caller's expressions"""
        class T(ast.NodeTransformer):
            def visit_Name(s, n):
                if n.id in env and env[n.id][1] is not None:
                    return ast.parse(env[n.id][1], mode="eval").body
                return n
        return pyfe.src(T().visit(ast.parse(pyfe.src(e), mode="eval").body))

    def returned_length(self, t, sub, depth):
        rets = [n for n in ast.walk(t) if isinstance(n, ast.Return) and n.value is not None]
        if len(rets) != 1:
            raise idxmod.Unknown("%s has %d return statements" % (t.name, len(rets)))
        r = rets[0].value
        if isinstance(r, ast.Name):
            # list built by appends inside nested for loops, or an array allocated with a length
            appends = []
            for n in ast.walk(t):
                if isinstance(n, ast.Call) and isinstance(n.func, ast.Attribute) and n.func.attr == "append" \
                        and isinstance(n.func.value, ast.Name) and n.func.value.id == r.id:
                    appends.append(n)
            d = _local_def(t, r.id)
            if appends and isinstance(d, ast.List) and not d.elts:
                total = Poly()
                for ap in appends:
                    mult = Poly.const(1)
                    p = pyfe.parent(ap)
                    while p is not None and p is not t:
                        if isinstance(p, ast.For):
                            mult = mult * self.length(p.iter, t, sub, depth + 1)
                        elif isinstance(p, (ast.If, ast.While)):
                            raise idxmod.Unknown("conditional append in " + t.name)
                        p = pyfe.parent(p)
                    total = total + mult
                return total
            if d is not None:
                return self.length(d, t, sub, depth + 1)
        return self.length(r, t, sub, depth + 1)


# frozen table: Python length atoms that are class invariants rather than visible expressions (one reason each)
LEN_INVARIANTS = {
    "len(script.system.state)": ("C*S", "RDSystem size invariant: state has space.size()*nspecies() entries "
                                 "(default state is built that way; an explicit state is not length-checked)"),
    "len(script.system.chemostats)": ("C*S", "RDSystem size invariant for the chemostat map"),
    "len(script.system.space.cell_env)": ("C", "RDGridSpace.cell_env setter raises unless len == w*h*d"),
}


def rule_extent(ctx, R, I, ptr_req):
    """Python buffer length = the extent the engine reads / writes through the pointer"""
    py, tu = ctx.py, ctx.cx
    pl = PyLen(py)
    exports = {f.name: f for f in tu.funcs.values() if f.extern_c}
    n_inst = 0
    for fn, call, name in call_sites(py):
        f = exports.get(name)
        if f is None or len(call.args) != len(f.params):
            continue
        q = fn._qual
        # symbol map from the scalar positions: Python expression text -> extent symbol
        symmap = {}
        for a, p in zip(call.args, f.params):
            pt, payload, form = py_arg(a, fn)
            pn = p.get("name")
            if form == "scalar" and pn in idxmod.RAW2EXT:
                try:
                    sp = pl.scalar(payload, fn, {})
                except idxmod.Unknown:
                    continue
                if len(sp.t) == 1 and list(sp.t.values())[0] == 1 and len(list(sp.t)[0]) == 1:
                    symmap[list(sp.t)[0][0][0]] = Poly.sym(idxmod.RAW2EXT[pn])
        symmap.setdefault("self._count_samples()", Poly.sym("N"))
        symmap.setdefault("self._lib.engineexport_get_nsamples()", Poly.sym("N"))   # number of recorded samples
        for a, p in zip(call.args, f.params):
            ct = p.get("type", {}).get("qualType", "")
            if "*" not in ct or "char" in ct:
                continue
            pn = p.get("name")
            # engine-side requirement
            req = ptr_req.get((name, pn))
            if req is None:
                # pointer forwarded to MkVec(ptr, E): the read extent is the second argument
                req = set()
                for n in walk(f.body):
                    cp = call_parts(n) if n.get("kind") == "CallExpr" else None
                    if cp and cp[0] == "MkVec" and cxfe.name_of(cp[2][0]) == pn:
                        try:
                            req.add(idxmod.norm_xyz(I.ext_poly(cp[2][1], f)))
                        except idxmod.Unknown:
                            pass
            if not req:
                ctx.error(R, "no read / write extent found for pointer parameter %s of %s" % (pn, name))
            if len(req) != 1:
                ctx.violation(R, a, q, "%s(%s)" % (name, pn), "the engine addresses this buffer with different "
                              "extents: %s" % sorted(repr(x) for x in req))
                continue
            want = list(req)[0]
            pt, payload, form = py_arg(a, fn)
            try:
                if form == "buffer":
                    got = pl.scalar(payload, fn, {})
                else:
                    got = pl.length(payload, fn, {})
            except LengthChanged as e:
                ctx.violation(R, a, q, "%s(%s) <- %s" % (name, pn, pyfe.src(a)[:70]), "the engine reads %r elements through this "
                              "pointer, but the buffer is built from %s: a shorter buffer is read past its end" % (want, e))
                continue
            except idxmod.Unknown as e:
                ctx.error(R, "length of the Python buffer for %s(%s) not recognised: %s" % (name, pn, e))
            mp = dict(symmap)
            assumed = None
            for s in got.syms():
                if s in LEN_INVARIANTS:
                    sym, why = LEN_INVARIANTS[s]
                    pp = Poly.const(1)
                    for x in sym.split("*"):
                        pp = pp * Poly.sym(x)
                    mp[s] = pp
                    assumed = why
            # the Python-side table 4.1 for sizes that are method calls on the model objects
            for s in got.syms():
                if s not in mp:
                    if s.endswith(".space.size()") or s.endswith("space.size()"):
                        mp[s] = Poly.sym("C")
                    elif s.endswith(".network.nspecies()"):
                        mp[s] = Poly.sym("S")
                    elif s.endswith("space.w"):
                        mp[s] = Poly.sym("X")
                    elif s.endswith("space.h"):
                        mp[s] = Poly.sym("Y")
                    elif s.endswith("space.d"):
                        mp[s] = Poly.sym("Z")
            got2 = idxmod.norm_xyz(got.subs(mp))
            n_inst += 1
            if assumed:
                ctx.assume("%s(%s): %s" % (name, pn, assumed))
            ctx.check(got2 == want, R, a, q, "%s(%s)" % (name, pn),
                      "buffer length %r = %r = engine extent" % (got, want),
                      "the Python buffer holds %r (= %r) elements but the engine addresses %r"
                      % (got, got2, want))
    ctx.floor(R, 21)
