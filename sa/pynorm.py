"""Canonicalisation of the package's syntax trees, before any rule runs (the Python twin of sa/cxinline.py).

  1. helper inlining -- a function, method or nested function whose qualified name is not in the pinned inventory is an
     extracted helper; calls to it from the same module (`helper(..)`, `self.helper(..)`, `Class.helper(..)`, a nested
     def called from its enclosing function) are replaced by its body when one of these forms applies:
        return helper(..)        the body, returns kept
        helper(..)               the body, tail returns dropped
        x = helper(..)           the body, every tail `return e` turned into `x = e`
        <simple stmt with the call inside>   straight-line body `s1; ..; return e`: s1.. hoisted, the call replaced by e
     Parameters are substituted by the argument expressions when those are side-effect free and the helper does not
     assign them; otherwise `p = arg` is emitted first.  Helper locals that collide with caller names are renamed.
  2. `for i, x in enumerate(xs)` -> `for i in range(len(xs))` with x replaced by xs[i] (xs, x, i not assigned in the body).
  4. `T = T op e` -> `T op= e`.
  3. (on demand, `unrolled(fn)`) loops over a literal tuple / list (directly, or through a single-assignment local) and `range(k)`, k <= 8 a literal,
     without break / continue, are unrolled with the target replaced by the element; subscripts of single-assignment
     literal tuples by a constant index are folded (`axes[1]` -> "y").

Every transformation preserves behaviour; whatever does not fit is left untouched (the rules then see the original).
Applied functions are listed in Mod.norm_log and end up in the evidence."""
import ast, copy

MAX_UNROLL = 16


# ------------------------------------------------------------------------------------------------ small helpers
def _stores(nodes):
    out = set()
    for b in nodes:
        for n in ast.walk(b):
            if isinstance(n, ast.Name) and isinstance(n.ctx, (ast.Store, ast.Del)):
                out.add(n.id)
            elif isinstance(n, (ast.FunctionDef, ast.ClassDef)):
                out.add(n.name)
            elif isinstance(n, ast.arg):
                out.add(n.arg)
    return out


def _names(nodes):
    return {n.id for b in nodes for n in ast.walk(b) if isinstance(n, ast.Name)}


def _pure(e):
    """side-effect free and cheap to duplicate"""
    for n in ast.walk(e):
        if not isinstance(n, (ast.Name, ast.Attribute, ast.Constant, ast.Tuple, ast.List, ast.Subscript, ast.BinOp, ast.UnaryOp,
                              ast.Load, ast.operator, ast.unaryop, ast.Slice, ast.expr_context, ast.Compare, ast.BoolOp,
                              ast.cmpop, ast.boolop)):
            return False
    return True


class _Sub(ast.NodeTransformer):
    def __init__(self, m):
        self.m = m

    def visit_Name(self, n):
        if n.id in self.m and isinstance(n.ctx, ast.Load):
            return ast.copy_location(copy.deepcopy(self.m[n.id]), n)
        return n


class _Ren(ast.NodeTransformer):
    def __init__(self, m):
        self.m = m

    def visit_Name(self, n):
        if n.id in self.m:
            return ast.copy_location(ast.Name(id=self.m[n.id], ctx=n.ctx), n)
        return n


def _subst(nodes, m):
    return [_Sub(m).visit(copy.deepcopy(n)) for n in nodes]


def _has(nodes, types, stop=(ast.FunctionDef, ast.Lambda, ast.ClassDef)):
    for b in nodes:
        st = [b]
        while st:
            n = st.pop()
            if isinstance(n, types):
                return True
            for c in ast.iter_child_nodes(n):
                if not isinstance(c, stop):
                    st.append(c)
    return False


# ------------------------------------------------------------------------------------------------ 1. helper inlining
def _tailify(body):
    """`if c: ...return` followed by more statements -> if/else, recursively; returns the new list"""
    out = []
    for i, st in enumerate(body):
        if isinstance(st, ast.If) and i < len(body) - 1 and _ends(st.body) and not st.orelse and _has(st.body, ast.Return):
            st = copy.copy(st)
            st.body = _tailify(st.body)
            st.orelse = _tailify(body[i + 1:])
            out.append(st)
            return out
        if isinstance(st, ast.If):
            st = copy.copy(st)
            st.body = _tailify(st.body)
            st.orelse = _tailify(st.orelse)
        out.append(st)
    return out


def _ends(body):
    """every path through body ends in return / raise"""
    if not body:
        return False
    l = body[-1]
    if isinstance(l, (ast.Return, ast.Raise)):
        return True
    if isinstance(l, ast.If):
        return _ends(l.body) and _ends(l.orelse)
    return False


def _tail_returns_only(body):
    """all Return statements of body are in tail position"""
    def rec(b, tail):
        for i, st in enumerate(b):
            last = tail and i == len(b) - 1
            if isinstance(st, ast.Return):
                if not last:
                    return False
            elif isinstance(st, ast.If):
                if not rec(st.body, last) or not rec(st.orelse, last):
                    return False
            elif _has([st], ast.Return):
                return False
        return True
    return rec(body, True)


def _map_tail_returns(body, f):
    out = []
    for st in body:
        if isinstance(st, ast.Return):
            r = f(st)
            if r is not None:
                out.append(r)
        elif isinstance(st, ast.If):
            st = copy.copy(st)
            st.body = _map_tail_returns(st.body, f) or [ast.copy_location(ast.Pass(), st)]
            st.orelse = _map_tail_returns(st.orelse, f)
            out.append(st)
        else:
            out.append(st)
    return out


class _Inliner:
    def __init__(self, tree, modname, inventory, log):
        self.tree, self.mod, self.inv, self.log = tree, modname, inventory, log
        self.k = 0
        self.found = []       # (owner node whose .body holds the helper, helper)

    # -- discovery
    def helpers_in(self, body, prefix, owner=None):
        out = {}
        for n in body:
            if isinstance(n, ast.FunctionDef):
                q = prefix + n.name
                if any(ast.unparse(d).endswith(".setter") for d in n.decorator_list):
                    q += ".setter"
                if q not in self.inv and self.usable(n):
                    out[n.name] = n
                    self.found.append((owner, n))
        return out

    def usable(self, h):
        a = h.args
        if a.vararg or a.kwarg or a.kwonlyargs or a.posonlyargs:
            return False
        decs = [ast.unparse(d) for d in h.decorator_list]
        if any(d not in ("staticmethod",) for d in decs):
            return False
        if _has(h.body, (ast.Yield, ast.YieldFrom, ast.Global, ast.Nonlocal, ast.Try, ast.With)):
            return False
        for n in ast.walk(h):
            if isinstance(n, ast.Call) and isinstance(n.func, ast.Name) and n.func.id == h.name:
                return False
            if isinstance(n, ast.Call) and isinstance(n.func, ast.Attribute) and n.func.attr == h.name:
                return False
        return True

    def run(self):
        top = self.helpers_in(self.tree.body, self.mod + ".", self.tree)
        for n in self.tree.body:
            if isinstance(n, ast.FunctionDef):
                self.fn(n, self.mod + "." + n.name, dict(top), None, {})
            elif isinstance(n, ast.ClassDef):
                meth = self.helpers_in(n.body, self.mod + "." + n.name + ".", n)
                for c in n.body:
                    if isinstance(c, ast.FunctionDef):
                        q = self.mod + "." + n.name + "." + c.name
                        self.fn(c, q, dict(top), n.name, meth)

    def fn(self, f, qual, free, cls, meth):
        free = dict(free)
        free.update(self.helpers_in(f.body, qual + ".<locals>.", f))
        free.pop(f.name, None) if f.name in free and free[f.name] is f else None
        for _ in range(4):
            ch = [False]
            f.body = self.block(f.body, f, free, cls, meth, ch)
            if not ch[0] and not self.cps(f, free, cls, meth):
                break
        for n in f.body:
            if isinstance(n, ast.FunctionDef):
                self.fn(n, qual + ".<locals>." + n.name, free, cls, meth)

    # -- resolution
    def target(self, call, free, cls, meth, caller):
        f = call.func
        h, selfarg = None, None
        if isinstance(f, ast.Name) and f.id in free:
            h = free[f.id]
        elif isinstance(f, ast.Attribute) and isinstance(f.value, ast.Name) and f.attr in meth:
            h = meth[f.attr]
            static = any(ast.unparse(d) == "staticmethod" for d in h.decorator_list)
            if f.value.id == "self" and not static:
                selfarg = f.value
            elif f.value.id in ("self", cls) and static:
                selfarg = None
            else:
                return None
        if h is None or h is caller:
            return None
        ps = [a.arg for a in h.args.args]
        args = list(call.args)
        if selfarg is not None:
            args = [selfarg] + args
        if any(isinstance(a, ast.Starred) for a in args) or any(k.arg is None for k in call.keywords):
            return None
        bound = dict(zip(ps, args))
        if len(args) > len(ps):
            return None
        for k in call.keywords:
            if k.arg not in ps or k.arg in bound:
                return None
            bound[k.arg] = k.value
        nd = len(h.args.defaults)
        for p, d in zip(ps[len(ps) - nd:], h.args.defaults):
            bound.setdefault(p, d)
        if set(bound) != set(ps):
            return None
        return h, [(p, bound[p]) for p in ps]

    def instantiate(self, h, bound, caller):
        """(prefix statements, body) with parameters bound and colliding locals renamed"""
        body = [copy.deepcopy(s) for s in h.body]
        if body and isinstance(body[0], ast.Expr) and isinstance(body[0].value, ast.Constant) and \
                isinstance(body[0].value.value, str):
            body = body[1:]          # docstring
        assigned = _stores(body)
        sub, pre = {}, []
        caller_names = _names(caller.body) | {a.arg for a in caller.args.args}
        self.k += 1
        ren = {}
        for p, a in bound:
            if _pure(a) and p not in assigned:
                sub[p] = a
            else:
                np_ = p if p not in caller_names else "%s__h%d" % (p, self.k)
                if np_ != p:
                    ren[p] = np_
                pre.append(ast.copy_location(ast.Assign(targets=[ast.Name(id=np_, ctx=ast.Store())], value=copy.deepcopy(a),
                                                        lineno=a.lineno), a))
        for v in assigned:
            if v in caller_names and v not in dict(bound) and v not in ren:
                ren[v] = "%s__h%d" % (v, self.k)
        # a local that merely re-uses a caller name which the caller never reads afterwards would be harmless, but renaming is
        # always sound
        if ren:
            body = [_Ren(ren).visit(s) for s in body]
        body = [_Sub(sub).visit(s) for s in body]
        for s in pre + body:
            ast.fix_missing_locations(s)
        return pre, body

    # -- a search helper (returns from inside a loop) called as `x = helper(..)` at the top level of the caller: the rest of the
    #    caller is the continuation of every return of the helper.  for v in R: if c: return E  ; return None   becomes
    #    for v in R: if c: <rest with x := E> ; <rest with x := None>.  Exact because the caller ends after <rest>.
    def cps(self, f, free, cls, meth):
        for k, st in enumerate(f.body):
            if not (isinstance(st, ast.Assign) and isinstance(st.value, ast.Call) and len(st.targets) == 1 and
                    isinstance(st.targets[0], ast.Name)):
                continue
            t = self.target(st.value, free, cls, meth, f)
            if t is None:
                continue
            h, bound = t
            rest = f.body[k + 1:]
            nret = sum(isinstance(x, ast.Return) for b_ in h.body for x in ast.walk(b_))
            if _tail_returns_only(_tailify([copy.deepcopy(b_) for b_ in h.body])) or nret > 3 or len(rest) > 14 or \
                    _has(h.body, (ast.While, ast.Break)) or _has(rest, (ast.FunctionDef,), stop=()):
                continue
            x = st.targets[0].id
            if x in _stores(rest):
                continue
            pre, body = self.instantiate(h, bound, f)
            range_vars = {n.target.id for b_ in body for n in ast.walk(b_) if isinstance(n, ast.For) and
                          isinstance(n.target, ast.Name) and isinstance(n.iter, ast.Call) and
                          isinstance(n.iter.func, ast.Name) and n.iter.func.id == "range"}

            def cont(value, at):
                value = value if value is not None else ast.Constant(value=None)
                if _pure(value) and not (_names([value]) & _stores(rest)):
                    new = _subst([copy.deepcopy(r_) for r_ in rest], {x: value})
                    new = _fold_none(new, range_vars)
                else:
                    new = [ast.copy_location(ast.Assign(targets=[ast.Name(id=x, ctx=ast.Store())], value=value,
                                                        lineno=at.lineno), at)] + [copy.deepcopy(r_) for r_ in rest]
                if not _ends(new):
                    new.append(ast.copy_location(ast.Return(value=None), at))
                return new

            def rec(blk):
                out = []
                for s_ in blk:
                    if isinstance(s_, ast.Return):
                        out.extend(cont(s_.value, s_))
                        return out
                    for fld in ("body", "orelse"):
                        if isinstance(s_, (ast.If, ast.For)) and getattr(s_, fld, None):
                            setattr(s_, fld, rec(getattr(s_, fld)))
                    out.append(s_)
                return out
            new = rec(body)
            if not _ends(new):
                new.extend(cont(None, st))
            f.body = f.body[:k] + pre + new
            for s_ in f.body:
                ast.fix_missing_locations(s_)
            self.log.append((f.name, h.name))
            return True
        return False

    # -- rewriting of one statement list
    def block(self, stmts, caller, free, cls, meth, ch):
        out = []
        for st in stmts:
            rep = self.stmt(st, caller, free, cls, meth)
            if rep is not None:
                ch[0] = True
                out.extend(rep)
                continue
            for fld in ("body", "orelse"):
                if isinstance(st, (ast.If, ast.For, ast.While)) and getattr(st, fld, None):
                    setattr(st, fld, self.block(getattr(st, fld), caller, free, cls, meth, ch))
            out.append(st)
        return out

    def stmt(self, st, caller, free, cls, meth):
        if isinstance(st, (ast.FunctionDef, ast.ClassDef)):
            return None
        # form: for v in helper(..):   ->   _seq = helper(..) ; for v in _seq:   (the assignment is inlined by the next pass)
        if isinstance(st, ast.For) and isinstance(st.iter, ast.Call) and self.target(st.iter, free, cls, meth, caller) is not None:
            self.k += 1
            nm = "_seq__h%d" % self.k
            a = ast.copy_location(ast.Assign(targets=[ast.Name(id=nm, ctx=ast.Store())], value=st.iter, lineno=st.lineno), st)
            st.iter = ast.copy_location(ast.Name(id=nm, ctx=ast.Load()), st.iter)
            ast.fix_missing_locations(a)
            return [a, st]
        # form: return helper(..) / helper(..) / x = helper(..)
        call = None
        if isinstance(st, (ast.Return, ast.Expr)) and isinstance(st.value, ast.Call):
            call = st.value
        elif isinstance(st, ast.Assign) and isinstance(st.value, ast.Call) and len(st.targets) == 1 and \
                isinstance(st.targets[0], ast.Name):
            call = st.value
        if call is not None:
            t = self.target(call, free, cls, meth, caller)
            if t is not None:
                h, bound = t
                pre, body = self.instantiate(h, bound, caller)
                body = _tailify(body)
                if isinstance(st, ast.Return):
                    if not _has(body, ast.Return) or _ends(body) or True:
                        self.log.append((caller.name, h.name))
                        tail = [] if _ends(body) else [ast.copy_location(ast.Return(value=None), st)]
                        return pre + body + tail
                if _tail_returns_only(body):
                    if isinstance(st, ast.Expr):
                        f = lambda r: (ast.copy_location(ast.Expr(value=r.value), r) if r.value is not None and
                                       not _pure(r.value) else None)
                        new = _map_tail_returns(body, f)
                    else:
                        tgt = st.targets[0]
                        if not _ends(body):
                            return None
                        # `x = helper(..)` where the helper builds a local and returns it: the local *is* x
                        rvals = [r.value for b_ in body for r in ast.walk(b_) if isinstance(r, ast.Return)]
                        caller_names = _names(caller.body) | {a.arg for a in caller.args.args}
                        if rvals and all(isinstance(v, ast.Name) for v in rvals) and len({v.id for v in rvals}) == 1 and \
                                rvals[0].id in _stores(body) and rvals[0].id not in dict(bound) and \
                                (tgt.id not in _names(body) or tgt.id == rvals[0].id) and \
                                not (tgt.id in caller_names and any(isinstance(x, ast.Name) and x.id == tgt.id and
                                                                    isinstance(x.ctx, ast.Load) for b_ in pre for x in ast.walk(b_))):
                            body = [_Ren({rvals[0].id: tgt.id}).visit(b_) for b_ in body]
                            new = _map_tail_returns(body, lambda r: None)
                            self.log.append((caller.name, h.name))
                            res = pre + new
                            for s_ in res:
                                ast.fix_missing_locations(s_)
                            return res or [ast.copy_location(ast.Pass(), st)]
                        f = lambda r: ast.copy_location(ast.Assign(targets=[copy.deepcopy(tgt)], value=r.value if r.value
                                                                   is not None else ast.Constant(value=None), lineno=r.lineno), r)
                        new = _map_tail_returns(body, f)
                    self.log.append((caller.name, h.name))
                    res = pre + new
                    for s in res:
                        ast.fix_missing_locations(s)
                    return res or [ast.copy_location(ast.Pass(), st)]
        # form: the call nested in a simple statement
        if isinstance(st, (ast.Expr, ast.Assign, ast.AugAssign, ast.Return, ast.AnnAssign)):
            for c in self.eager_calls(st):
                t = self.target(c, free, cls, meth, caller)
                if t is None:
                    continue
                h, bound = t
                pre, body = self.instantiate(h, bound, caller)
                if not body or not isinstance(body[-1], ast.Return) or body[-1].value is None or _has(body[:-1], ast.Return):
                    continue
                if _has(body[:-1], (ast.Raise,)) and not self.first_eval(st, c):
                    continue
                hoist = pre + body[:-1]
                if hoist and not self.first_eval(st, c):
                    continue
                new = copy.copy(st)
                rep = _ReplaceNode(c, body[-1].value)
                new = rep.visit(st)
                if not rep.done:
                    continue
                self.log.append((caller.name, h.name))
                return hoist + [new]
        return None

    def eager_calls(self, st):
        """calls evaluated unconditionally when st executes (not under IfExp / BoolOp right operands / lambda / comprehension)"""
        out = []

        def rec(n):
            if isinstance(n, (ast.ListComp, ast.SetComp, ast.DictComp, ast.GeneratorExp)):
                rec(n.generators[0].iter)       # the outermost iterable is evaluated once, where the comprehension stands
                return
            if isinstance(n, ast.Lambda):
                return
            if isinstance(n, ast.IfExp):
                rec(n.test)
                return
            if isinstance(n, ast.BoolOp):
                rec(n.values[0])
                return
            if isinstance(n, ast.Call):
                out.append(n)
            for c in ast.iter_child_nodes(n):
                rec(c)
        rec(st)
        return out

    def first_eval(self, st, call):
        """nothing with a side effect is evaluated before `call` in st: accept when every other call of st is inside `call`'s
        arguments or comes textually after it, or when st holds no other call before it"""
        inner = {id(n) for n in ast.walk(call)}
        for n in ast.walk(st):
            if isinstance(n, ast.Call) and id(n) not in inner and n is not call:
                if (n.lineno, n.col_offset) < (call.lineno, call.col_offset) and id(call) not in {id(x) for x in ast.walk(n)}:
                    return False
        return True


class _ReplaceNode(ast.NodeTransformer):
    def __init__(self, old, new):
        self.old, self.new, self.done = old, new, False

    def visit(self, n):
        if n is self.old:
            self.done = True
            return ast.copy_location(self.new, n)
        return super().visit(n)


# ------------------------------------------------------------------------------------------------ 2. enumerate
class _Enum(ast.NodeTransformer):
    def __init__(self, log):
        self.log = log

    def visit_For(self, n):
        self.generic_visit(n)
        it = n.iter
        if isinstance(it, ast.Call) and isinstance(it.func, ast.Name) and it.func.id == "enumerate" and len(it.args) == 1 \
                and not it.keywords and isinstance(n.target, ast.Tuple) and len(n.target.elts) == 2 and \
                all(isinstance(e, ast.Name) for e in n.target.elts) and not n.orelse:
            i, x = n.target.elts[0].id, n.target.elts[1].id
            xs = it.args[0]
            if isinstance(xs, ast.Call) and isinstance(xs.func, ast.Name) and xs.func.id == "list" and len(xs.args) == 1:
                xs = xs.args[0]
            st = _stores(n.body)
            if isinstance(xs, (ast.Name, ast.Attribute)) and _pure(xs) and not ({i, x} | _names([xs])) & st and \
                    not self.mutates(n.body, xs):
                elem = ast.Subscript(value=copy.deepcopy(xs), slice=ast.Name(id=i, ctx=ast.Load()), ctx=ast.Load())
                n.body = [ast.fix_missing_locations(s) for s in _subst(n.body, {x: ast.copy_location(elem, it)})]
                n.target = ast.copy_location(ast.Name(id=i, ctx=ast.Store()), n.target)
                rng = ast.Call(func=ast.Name(id="range", ctx=ast.Load()), args=[
                    ast.Call(func=ast.Name(id="len", ctx=ast.Load()), args=[copy.deepcopy(xs)], keywords=[])], keywords=[])
                n.iter = ast.fix_missing_locations(ast.copy_location(rng, it))
                self.log.append(("enumerate", ast.unparse(xs)))
        return n

    def mutates(self, body, xs):
        t = ast.unparse(xs)
        for b in body:
            for c in ast.walk(b):
                if isinstance(c, ast.Call) and isinstance(c.func, ast.Attribute) and ast.unparse(c.func.value) == t and \
                        c.func.attr in ("append", "pop", "insert", "remove", "extend", "clear", "sort", "reverse"):
                    return True
                if isinstance(c, (ast.Subscript, ast.Attribute)) and isinstance(c.ctx, (ast.Store, ast.Del)) and \
                        ast.unparse(c.value) == t:
                    return True
        return False


# ------------------------------------------------------------------------------------------------ 3. unrolling
def _literal_elems(e):
    if isinstance(e, (ast.Tuple, ast.List)) and len(e.elts) <= MAX_UNROLL and all(_pure(x) for x in e.elts) and \
            not any(isinstance(x, ast.Starred) for x in e.elts):
        return list(e.elts)
    return None


def _single_assign_literals(f):
    """local name -> literal tuple/list node, for names assigned exactly once in f (at its top level) and never mutated"""
    cnt, val = {}, {}
    for n in ast.walk(f):
        if isinstance(n, ast.Name) and isinstance(n.ctx, (ast.Store, ast.Del)):
            cnt[n.id] = cnt.get(n.id, 0) + 1
    for st in f.body:
        if isinstance(st, ast.Assign) and len(st.targets) == 1 and isinstance(st.targets[0], ast.Name):
            if isinstance(st.value, ast.Tuple) and _literal_elems(st.value) is not None and cnt.get(st.targets[0].id) == 1:
                val[st.targets[0].id] = st.value
    for a in f.args.args:
        val.pop(a.arg, None)
    return val


class _Unroll(ast.NodeTransformer):
    def __init__(self, lits, log):
        self.lits, self.log = lits, log

    def visit_FunctionDef(self, n):
        return n            # nested functions are handled by their own pass

    def visit_Subscript(self, n):
        self.generic_visit(n)
        if isinstance(n.ctx, ast.Load) and isinstance(n.value, ast.Name) and n.value.id in self.lits and \
                isinstance(n.slice, ast.Constant) and isinstance(n.slice.value, int):
            el = self.lits[n.value.id].elts
            if 0 <= n.slice.value < len(el):
                return ast.copy_location(copy.deepcopy(el[n.slice.value]), n)
        return n

    def visit_For(self, n):
        elems = None
        it = n.iter
        if isinstance(it, ast.Name) and it.id in self.lits:
            elems = list(self.lits[it.id].elts)
        elif _literal_elems(it) is not None:
            elems = _literal_elems(it)
        elif isinstance(it, ast.Call) and isinstance(it.func, ast.Name) and it.func.id == "range" and len(it.args) == 1 and \
                isinstance(it.args[0], ast.Constant) and isinstance(it.args[0].value, int) and \
                0 < it.args[0].value <= MAX_UNROLL and not it.keywords:
            elems = [ast.Constant(value=i) for i in range(it.args[0].value)]
        if elems is None or n.orelse or _has(n.body, (ast.Break, ast.Continue), stop=(ast.FunctionDef, ast.Lambda, ast.For,
                                                                                   ast.While)) \
                or _has(n.body, (ast.Break, ast.Continue)) and True:
            self.generic_visit(n)
            return n
        tg = n.target
        if isinstance(tg, ast.Name):
            names = [tg.id]
        elif isinstance(tg, ast.Tuple) and all(isinstance(e, ast.Name) for e in tg.elts):
            names = [e.id for e in tg.elts]
        else:
            self.generic_visit(n)
            return n
        if set(names) & _stores(n.body):
            self.generic_visit(n)
            return n
        out = []
        for el in elems:
            if isinstance(tg, ast.Name):
                m = {tg.id: el}
            else:
                if not isinstance(el, (ast.Tuple, ast.List)) or len(el.elts) != len(names):
                    self.generic_visit(n)
                    return n
                m = dict(zip(names, el.elts))
            for s in _subst(n.body, m):
                s = self.visit(ast.fix_missing_locations(s))
                for s1 in (s if isinstance(s, list) else [s]):
                    r1 = _FoldIf().visit(s1)         # a table column of True / False decides its `if` in each copy
                    out.extend(r1 if isinstance(r1, list) else [r1])
        self.log.append(("unroll", ast.unparse(n.target) + " in " + ast.unparse(n.iter)[:60]))
        return out


def _fold_none(stmts, nonnull):
    """`None is None` -> True, `<v> is None` -> False for v in nonnull (range() loop variables) or arithmetic; constant ifs folded,
    statements after a return / raise dropped"""
    class T(ast.NodeTransformer):
        def visit_Compare(self, n):
            self.generic_visit(n)
            if len(n.ops) == 1 and isinstance(n.ops[0], (ast.Is, ast.IsNot)) and isinstance(n.comparators[0], ast.Constant) and \
                    n.comparators[0].value is None:
                l = n.left
                known = None
                if isinstance(l, ast.Constant):
                    known = l.value is None
                elif (isinstance(l, ast.Name) and l.id in nonnull) or (
                        isinstance(l, ast.BinOp) and isinstance(l.op, (ast.Add, ast.Sub, ast.Mult))):
                    known = False
                if known is not None:
                    return ast.copy_location(ast.Constant(value=known if isinstance(n.ops[0], ast.Is) else not known), n)
            return n

    def trunc(blk):
        out = []
        for s_ in blk:
            for fld in ("body", "orelse"):
                if isinstance(s_, (ast.If, ast.For, ast.While)) and getattr(s_, fld, None):
                    setattr(s_, fld, trunc(getattr(s_, fld)))
            out.append(s_)
            if isinstance(s_, (ast.Return, ast.Raise)):
                break
        return out
    out = []
    for s_ in stmts:
        r = _FoldIf().visit(T().visit(s_))
        out.extend(r if isinstance(r, list) else [r] if r is not None else [])
    return trunc(out)


class _FoldIf(ast.NodeTransformer):
    def visit_If(self, n):
        self.generic_visit(n)
        if not n.body:
            n.body = [ast.copy_location(ast.Pass(), n)]
        if isinstance(n.test, ast.Constant) and isinstance(n.test.value, bool):
            return (n.body if n.test.value else n.orelse) or []
        return n

    def visit_FunctionDef(self, n):
        return n


def _unroll_fn(f, log):
    lits = _single_assign_literals(f)
    u = _Unroll(lits, log)
    new = []
    for st in f.body:
        r = u.visit(st)
        new.extend(r if isinstance(r, list) else [r])
    f.body = new
    for st in ast.walk(f):
        if isinstance(st, ast.FunctionDef) and st is not f:
            pass


# ------------------------------------------------------------------------------------------------ 2b. zip
class _Zip(ast.NodeTransformer):
    """`for a, b in zip(A, B): body`  ->  `for _z in range(len(A)): body[a := A[_z], b := B[_z]]`  for plain sequences A, B that
    the body neither rebinds nor resizes (the sequences the package zips are built to the same length a few lines above; the
    length agreement itself is not something this view decides)"""
    def __init__(self, log):
        self.log, self.k = log, 0

    def visit_For(self, n):
        self.generic_visit(n)
        it = n.iter
        if isinstance(it, ast.Call) and isinstance(it.func, ast.Name) and it.func.id == "zip" and len(it.args) >= 2 \
                and not it.keywords and isinstance(n.target, ast.Tuple) and len(n.target.elts) == len(it.args) and \
                all(isinstance(e, ast.Name) for e in n.target.elts) and not n.orelse and \
                all(isinstance(a, (ast.Name, ast.Attribute)) and _pure(a) for a in it.args):
            st = _stores(n.body)
            tg = {e.id for e in n.target.elts}
            names = set()
            for a in it.args:
                names |= _names([a])
            if not (tg | names) & st and not any(_Enum(None).mutates(n.body, a) for a in it.args):
                self.k += 1
                z = "_z%d" % self.k
                m = {}
                for e, a in zip(n.target.elts, it.args):
                    m[e.id] = ast.copy_location(ast.Subscript(value=copy.deepcopy(a), slice=ast.Name(id=z, ctx=ast.Load()),
                                                              ctx=ast.Load()), it)
                n.body = [ast.fix_missing_locations(s_) for s_ in _subst(n.body, m)]
                n.target = ast.copy_location(ast.Name(id=z, ctx=ast.Store()), n.target)
                rng = ast.Call(func=ast.Name(id="range", ctx=ast.Load()), args=[
                    ast.Call(func=ast.Name(id="len", ctx=ast.Load()), args=[copy.deepcopy(it.args[0])], keywords=[])], keywords=[])
                n.iter = ast.fix_missing_locations(ast.copy_location(rng, it))
                self.log.append(("zip", ast.unparse(it.args[0])))
        return n


# ------------------------------------------------------------------------------------------------ 4. x = x op e
class _Aug(ast.NodeTransformer):
    """`T = T op e` -> `T op= e` for a name / subscript / attribute target (the value the target ends up with is the same; the
    rules are written against the augmented form the package uses)"""
    def __init__(self, log):
        self.log = log

    def visit_Assign(self, n):
        self.generic_visit(n)
        if len(n.targets) == 1 and isinstance(n.targets[0], (ast.Name, ast.Subscript, ast.Attribute)) and \
                isinstance(n.value, ast.BinOp) and isinstance(n.value.op, (ast.Add, ast.Sub, ast.Mult, ast.Div)) and \
                ast.unparse(n.value.left) == ast.unparse(n.targets[0]) and _pure(n.targets[0]):
            self.log.append(("augassign", ast.unparse(n.targets[0])[:40]))
            return ast.copy_location(ast.AugAssign(target=n.targets[0], op=n.value.op, value=n.value.right), n)
        return n


# ------------------------------------------------------------------------------------------------ 5. operator.<f>(a, b)
class _OperatorCalls(ast.NodeTransformer):
    """`operator.gt(a, b)` is `a > b` (likewise lt, le, ge, eq, ne, add, sub, mul, truediv, mod, pow, neg, not_): the functional
    spelling, typically left behind when four comparison methods are folded into one helper taking the operator as an argument,
    is written back as the expression it evaluates"""
    CMP = {"lt": ast.Lt, "le": ast.LtE, "gt": ast.Gt, "ge": ast.GtE, "eq": ast.Eq, "ne": ast.NotEq}
    BIN = {"add": ast.Add, "sub": ast.Sub, "mul": ast.Mult, "truediv": ast.Div, "mod": ast.Mod, "pow": ast.Pow,
           "floordiv": ast.FloorDiv}

    def __init__(self, tree, log):
        self.log = log
        self.mods, self.funcs = set(), {}
        for n in ast.walk(tree):
            if isinstance(n, ast.Import):
                for a in n.names:
                    if a.name == "operator":
                        self.mods.add(a.asname or "operator")
            elif isinstance(n, ast.ImportFrom) and n.module == "operator":
                for a in n.names:
                    self.funcs[a.asname or a.name] = a.name

    def visit_Call(self, n):
        self.generic_visit(n)
        nm = None
        if isinstance(n.func, ast.Attribute) and isinstance(n.func.value, ast.Name) and n.func.value.id in self.mods:
            nm = n.func.attr
        elif isinstance(n.func, ast.Name) and n.func.id in self.funcs:
            nm = self.funcs[n.func.id]
        if nm is None or n.keywords:
            return n
        nm = nm.strip("_")
        if nm in self.CMP and len(n.args) == 2:
            self.log.append(("operator", nm))
            return ast.copy_location(ast.Compare(left=n.args[0], ops=[self.CMP[nm]()], comparators=[n.args[1]]), n)
        if nm in self.BIN and len(n.args) == 2:
            self.log.append(("operator", nm))
            return ast.copy_location(ast.BinOp(left=n.args[0], op=self.BIN[nm](), right=n.args[1]), n)
        if nm == "neg" and len(n.args) == 1:
            return ast.copy_location(ast.UnaryOp(op=ast.USub(), operand=n.args[0]), n)
        return n


# ------------------------------------------------------------------------------------------------ driver
# ------------------------------------------------------------------------------------------------ 2d. builder dictionaries
def _builder_dicts(tree, log):
    """A dictionary that a function builds entry by entry (D = {} ... D["k"] = v ... f(**D)) is written in one way:
         D = {"k": v, ..}                 ->  D = {} ; D["k"] = v ; ..
         N = E ... D["k"] = N             ->  D["k"] = E (at the place of N = E), later reads of N read D["k"]
    Both only when D is assigned once, at the top level of the function, and is stored into by subscript somewhere (a lookup
    table, never stored into, keeps its literal form); the second only when N is a single-assignment local of the top level."""
    for f in [n for n in ast.walk(tree) if isinstance(n, ast.FunctionDef)]:
        for _ in range(6):
            if not _builder_step(f, log):
                break


class _Everything:
    def __contains__(self, k):
        return False


def _not_keys(f, sl):
    """a container that holds `k` when the subscript `sl` certainly never equals k: sl is the variable of a loop over a literal
    tuple / list of constants (given in place or through a single-assignment local) that does not list k"""
    if not isinstance(sl, ast.Name):
        return _Everything()
    lits = _single_assign_literals(f)
    for n in ast.walk(f):
        if isinstance(n, ast.For) and isinstance(n.target, ast.Name) and n.target.id == sl.id:
            it = n.iter
            if isinstance(it, ast.Name) and it.id in lits:
                it = lits[it.id]
            el = _literal_elems(it)
            if el is None or not all(isinstance(e_, ast.Constant) for e_ in el):
                return _Everything()
            vals = {e_.value for e_ in el}

            class NotIn:
                def __contains__(self, k):
                    return k not in vals
            return NotIn()
    return _Everything()


def _builder_step(f, log):
    stores = {}
    for n in ast.walk(f):
        if isinstance(n, ast.Name) and isinstance(n.ctx, ast.Store):
            stores[n.id] = stores.get(n.id, 0) + 1
    params = {a.arg for a in f.args.args + f.args.kwonlyargs} | ({f.args.vararg.arg} if f.args.vararg else set()) | \
        ({f.args.kwarg.arg} if f.args.kwarg else set())
    sub_stores = {}
    for n in ast.walk(f):
        if isinstance(n, ast.Subscript) and isinstance(n.ctx, ast.Store) and isinstance(n.value, ast.Name):
            sub_stores.setdefault(n.value.id, []).append(n)
    for k, st in enumerate(f.body):
        if not (isinstance(st, ast.Assign) and len(st.targets) == 1 and isinstance(st.targets[0], ast.Name) and
                isinstance(st.value, ast.Dict)):
            continue
        D = st.targets[0].id
        if stores.get(D) != 1 or D in params or D not in sub_stores:
            continue
        # 1. literal entries become stores
        if st.value.keys and all(isinstance(k_, ast.Constant) and isinstance(k_.value, str) for k_ in st.value.keys):
            new = [ast.copy_location(ast.Assign(targets=[ast.Subscript(value=ast.Name(id=D, ctx=ast.Load()), slice=k_,
                                                                       ctx=ast.Store())], value=v_, lineno=v_.lineno), v_)
                   for k_, v_ in zip(st.value.keys, st.value.values)]
            st.value = ast.copy_location(ast.Dict(keys=[], values=[]), st.value)
            f.body[k + 1:k + 1] = new
            for s_ in new:
                ast.fix_missing_locations(s_)
            log.append((f.name, "dict-literal:" + D))
            return True
        if st.value.keys:
            continue
        # 2. an entry that receives a single-assignment local unchanged *is* that local
        for j in range(k + 1, len(f.body)):
            s2 = f.body[j]
            if not (isinstance(s2, ast.Assign) and len(s2.targets) == 1 and isinstance(s2.targets[0], ast.Subscript) and
                    isinstance(s2.targets[0].value, ast.Name) and s2.targets[0].value.id == D and
                    isinstance(s2.targets[0].slice, ast.Constant) and isinstance(s2.value, ast.Name)):
                continue
            key, N = s2.targets[0].slice.value, s2.value.id
            if stores.get(N) != 1 or N in params:
                continue
            if sum(1 for x in sub_stores[D] if isinstance(x.slice, ast.Constant) and x.slice.value == key) != 1 or \
                    any(not isinstance(x.slice, ast.Constant) and key not in _not_keys(f, x.slice) for x in sub_stores[D]):
                continue
            defs = [i for i, s1 in enumerate(f.body) if isinstance(s1, ast.Assign) and len(s1.targets) == 1 and
                    isinstance(s1.targets[0], ast.Name) and s1.targets[0].id == N]
            if len(defs) != 1 or defs[0] > j:
                continue
            i = defs[0]
            ent = lambda ctx_, at: ast.copy_location(ast.Subscript(value=ast.Name(id=D, ctx=ast.Load()),
                                                                   slice=ast.Constant(value=key), ctx=ctx_), at)
            f.body[i].targets = [ent(ast.Store(), f.body[i].targets[0])]

            class R(ast.NodeTransformer):
                def visit_Name(self, n):
                    return ent(ast.Load(), n) if n.id == N and isinstance(n.ctx, ast.Load) else n
            del f.body[j]
            for m in range(i + 1, len(f.body)):
                f.body[m] = R().visit(f.body[m])
            if i < k:                        # the empty dictionary exists before its first entry
                d0 = f.body.pop(k)
                f.body.insert(i, d0)
            for s_ in f.body:
                ast.fix_missing_locations(s_)
            log.append((f.name, "dict-entry:%s[%r]=%s" % (D, key, N)))
            return True
    return False


# ------------------------------------------------------------------------------------------------ 2e. callable chosen by a branch
def _callable_alias(tree, log):
    """if a: ..; w = F  elif b: ..; w = G  else: raise ..   followed by  ..w(args)..   is written with the call in each branch:
    the statements that follow the if are copied to the end of every branch that falls through, with w replaced by the callable
    that branch chose.  Only when w is stored nowhere else, every fall-through branch ends by choosing it, F and G are names the
    function never assigns, and w is used after the if only as the function of a call."""
    for f in [n for n in ast.walk(tree) if isinstance(n, ast.FunctionDef)]:
        assigned = _stores(f.body) | {a.arg for a in f.args.args}
        for _ in range(4):
            if not _alias_step(f, f.body, assigned, log):
                break


def _branches(iff):
    """the leaf statement lists of an if / elif / else chain"""
    out = [iff.body]
    if len(iff.orelse) == 1 and isinstance(iff.orelse[0], ast.If):
        out += _branches(iff.orelse[0])
    else:
        out.append(iff.orelse)
    return out


def _falls(blk):
    return not blk or not (isinstance(blk[-1], (ast.Return, ast.Raise, ast.Continue, ast.Break)) or
                           (isinstance(blk[-1], ast.If) and _ends(blk[-1:])))


def _alias_step(f, blk, assigned, log):
    for k, st in enumerate(blk):
        for fld in ("body", "orelse"):
            sub = getattr(st, fld, None)
            if isinstance(sub, list) and sub and isinstance(st, (ast.If, ast.For, ast.While)) and _alias_step(f, sub, assigned, log):
                return True
        if not isinstance(st, ast.If) or k == len(blk) - 1:
            continue
        rest = blk[k + 1:]
        if len(rest) > 6:
            continue
        brs = _branches(st)
        live = [b for b in brs if _falls(b)]
        if len(live) < 2 or len(brs) > 4 or any(not b for b in live):
            continue
        last = [b[-1] for b in live]
        if not all(isinstance(a, ast.Assign) and len(a.targets) == 1 and isinstance(a.targets[0], ast.Name) and
                   isinstance(a.value, ast.Name) and a.value.id not in assigned for a in last):
            continue
        w = {a.targets[0].id for a in last}
        if len(w) != 1:
            continue
        w = list(w)[0]
        nst = sum(1 for x in ast.walk(f) if isinstance(x, ast.Name) and x.id == w and isinstance(x.ctx, ast.Store))
        if nst != len(last):
            continue
        uses = [x for r_ in rest for x in ast.walk(r_) if isinstance(x, ast.Name) and x.id == w]
        calls = {id(c.func) for r_ in rest for c in ast.walk(r_) if isinstance(c, ast.Call)}
        allw = [x for x in ast.walk(f) if isinstance(x, ast.Name) and x.id == w and isinstance(x.ctx, ast.Load)]
        if not uses or len(uses) != len(allw) or any(id(u) not in calls for u in uses):
            continue
        for b, a in zip(live, last):
            b[-1:] = _subst(rest, {w: a.value})
            for s_ in b:
                ast.fix_missing_locations(s_)
        del blk[k + 1:]
        log.append((f.name, "callable-alias:" + w))
        return True
    return False


# ------------------------------------------------------------------------------------------------ 2f. array aliases
def _array_alias(tree, log):
    """N = X.attr  (N bound once, used only as the base of subscripts N[..]; X a parameter or local not rebound afterwards, X.attr
    never assigned in the function)  ->  every N[..] written X.attr[..]: the alias names the same array, an update through it is
    an update of X.attr"""
    for f in [n for n in ast.walk(tree) if isinstance(n, ast.FunctionDef)]:
        cnt = {}
        for n in ast.walk(f):
            if isinstance(n, ast.Name) and isinstance(n.ctx, (ast.Store, ast.Del)):
                cnt[n.id] = cnt.get(n.id, 0) + 1
        params = {a.arg for a in f.args.args}
        for k, st in enumerate(list(f.body)):
            if not (isinstance(st, ast.Assign) and len(st.targets) == 1 and isinstance(st.targets[0], ast.Name) and
                    isinstance(st.value, ast.Attribute) and isinstance(st.value.value, ast.Name)):
                continue
            N, X, A = st.targets[0].id, st.value.value.id, st.value.attr
            if cnt.get(N) != 1 or N in params or X == N:
                continue
            later = f.body[k + 1:]
            if any(isinstance(x, ast.Name) and x.id == X and isinstance(x.ctx, (ast.Store, ast.Del)) for s_ in later for x in ast.walk(s_)):
                continue
            if any(isinstance(x, ast.Attribute) and x.attr == A and isinstance(x.ctx, (ast.Store, ast.Del)) and
                   isinstance(x.value, ast.Name) and x.value.id == X for x in ast.walk(f)):
                continue
            uses = [x for x in ast.walk(f) if isinstance(x, ast.Name) and x.id == N and isinstance(x.ctx, ast.Load)]
            subs = {id(x.value) for x in ast.walk(f) if isinstance(x, ast.Subscript)}
            if not uses or any(id(u) not in subs for u in uses):
                continue
            if not any(isinstance(x, ast.Subscript) and isinstance(x.ctx, ast.Store) and isinstance(x.value, ast.Name) and
                       x.value.id == N for x in ast.walk(f)):
                continue          # read-only views keep their name: only an alias written through is an update of X.attr
            new = _subst(later, {N: st.value})
            f.body[k:] = new
            for s_ in f.body:
                ast.fix_missing_locations(s_)
            log.append((f.name, "array-alias:%s=%s.%s" % (N, X, A)))
            break


# ------------------------------------------------------------------------------------------------ 2g. constant on the left
class _ConstRight(ast.NodeTransformer):
    """`0 == x`, `None != x`, `'default' == v`  ->  `x == 0` ...: with a literal on the left Python asks the literal's type first,
    which answers NotImplemented for every foreign type and then asks x -- the comparison is the one written with x on the left"""
    def __init__(self, log):
        self.log = log

    def visit_Compare(self, n):
        self.generic_visit(n)
        if len(n.ops) == 1 and isinstance(n.ops[0], (ast.Eq, ast.NotEq)) and isinstance(n.left, ast.Constant) and \
                not isinstance(n.comparators[0], ast.Constant):
            n.left, n.comparators = n.comparators[0], [n.left]
            self.log.append(("-", "constant moved to the right of == / !="))
        return n


# ------------------------------------------------------------------------------------------------ 2h. negated two-way tests
class _PositiveIf(ast.NodeTransformer):
    """if not C: A else: B   ->   if C: B else: A     (also `x is not y`, `x not in y` as the whole test), for a two-way `if` whose
    else branch is not an `elif` chain: the two spellings are one statement, the rules read the positive one"""
    def __init__(self, log):
        self.log = log

    def visit_If(self, n):
        self.generic_visit(n)
        if not n.orelse or (len(n.orelse) == 1 and isinstance(n.orelse[0], ast.If)):
            return n
        t = n.test
        pos = None
        if isinstance(t, ast.UnaryOp) and isinstance(t.op, ast.Not):
            pos = t.operand
        elif isinstance(t, ast.Compare) and len(t.ops) == 1 and isinstance(t.ops[0], (ast.IsNot, ast.NotIn)):
            pos = ast.copy_location(ast.Compare(left=t.left, ops=[ast.Is() if isinstance(t.ops[0], ast.IsNot) else ast.In()],
                                                comparators=t.comparators), t)
        if pos is None:
            return n
        n.test = pos
        n.body, n.orelse = n.orelse, n.body
        self.log.append(("-", "negated two-way if written positively"))
        return n


# ------------------------------------------------------------------------------------------------ 2i. named results
def _return_temps(tree, log):
    """N = E ; return N   ->   return E   (adjacent statements, N a plain local): the name is dead after the return"""
    def fix(blk):
        i = 0
        while i < len(blk) - 1:
            a, r = blk[i], blk[i + 1]
            if isinstance(a, ast.Assign) and len(a.targets) == 1 and isinstance(a.targets[0], ast.Name) and \
                    isinstance(r, ast.Return) and isinstance(r.value, ast.Name) and r.value.id == a.targets[0].id:
                blk[i:i + 2] = [ast.copy_location(ast.Return(value=a.value), a)]
                log.append(("-", "named result `%s` merged into its return" % a.targets[0].id))
                continue
            i += 1
        for st in blk:
            for fld in ("body", "orelse", "finalbody"):
                sub = getattr(st, fld, None)
                if isinstance(sub, list) and sub and isinstance(sub[0], ast.stmt):
                    fix(sub)
            for h in getattr(st, "handlers", []) or []:
                fix(h.body)
    for f in [n for n in ast.walk(tree) if isinstance(n, ast.FunctionDef)]:
        if any(isinstance(x, (ast.Global, ast.Nonlocal)) for x in ast.walk(f)):
            continue
        fix(f.body)


# ------------------------------------------------------------------------------------------------ 2j. single-use temporaries
def _forward_temps(tree, log, modname=""):
    """N = E ; <statement that reads N once>   ->   <statement with E in place of N>   when N is bound once and read once in the
    whole function, the read is in the statement that follows (in the part of it that is evaluated exactly once, not under a
    lambda / comprehension / loop body), and no call is evaluated in that statement before the read (so E is still evaluated at
    the same point of the order of effects).  The hoisted-argument form and the nested form are one program."""
    from . import pynames
    ref = pynames.table()
    for q, f in pynames.functions(tree, modname):
        if any(isinstance(x, (ast.Global, ast.Nonlocal, ast.NamedExpr)) for x in ast.walk(f)):
            continue
        params = {a.arg for a in f.args.posonlyargs + f.args.args + f.args.kwonlyargs} | \
            ({f.args.vararg.arg} if f.args.vararg else set()) | ({f.args.kwarg.arg} if f.args.kwarg else set())
        # the locals the function has on the reference tree keep their statements (the rules are written against them); what is
        # forwarded are temporaries a later edit introduced
        params = params | set(ref.get(q, ()))
        for _ in range(40):
            stores, loads = {}, {}
            for x in ast.walk(f):
                if isinstance(x, ast.Name):
                    d_ = stores if isinstance(x.ctx, (ast.Store, ast.Del)) else loads
                    d_[x.id] = d_.get(x.id, 0) + 1
            if not _forward_once(f.body, stores, loads, params, log):
                break


def _header_exprs(st):
    """the expressions of statement st that are evaluated exactly once when st is reached"""
    if isinstance(st, ast.Assign):
        return [st.value]                 # the value is evaluated before the targets
    if isinstance(st, ast.AnnAssign):
        return [st.value] if st.value is not None else []
    if isinstance(st, (ast.AugAssign, ast.Expr, ast.Return)):
        return [st]
    if isinstance(st, ast.Raise):
        return [x for x in (st.exc, st.cause) if x is not None]
    if isinstance(st, ast.If):
        return [st.test]
    if isinstance(st, ast.For):
        return [st.iter]
    return []


def _forward_once(blk, stores, loads, params, log):
    for i in range(len(blk) - 1):
        a, b = blk[i], blk[i + 1]
        if isinstance(a, ast.Assign) and len(a.targets) == 1 and isinstance(a.targets[0], ast.Name):
            N = a.targets[0].id
            if N in params or stores.get(N) != 1 or loads.get(N) != 1 or N.startswith("_seq__h"):
                continue
            uses = []
            for h in _header_exprs(b):
                stack = [(h, False)]
                while stack:
                    x, shielded = stack.pop()
                    if isinstance(x, ast.Name) and x.id == N and isinstance(x.ctx, ast.Load):
                        uses.append((x, shielded))
                    sh = shielded or isinstance(x, (ast.Lambda, ast.ListComp, ast.SetComp, ast.DictComp, ast.GeneratorExp))
                    for c in ast.iter_child_nodes(x):
                        stack.append((c, sh))
            if len(uses) != 1 or uses[0][1]:
                continue
            use = uses[0][0]
            pos = (use.lineno, use.col_offset)
            anc = set()
            blocked = False
            for h in _header_exprs(b):
                for x in ast.walk(h):
                    if isinstance(x, ast.Call):
                        if any(y is use for y in ast.walk(x)) and not any(y is use for y in ast.walk(x.func)):
                            # an enclosing call: its function expression is evaluated first and must be call-free
                            if any(isinstance(y, ast.Call) for y in ast.walk(x.func)):
                                blocked = True
                            continue
                        if (getattr(x, "lineno", 0), getattr(x, "col_offset", 0)) < pos:
                            blocked = True
            if blocked:
                continue
            val = a.value

            class R(ast.NodeTransformer):
                def visit_Name(self, n):
                    return ast.copy_location(copy.deepcopy(val), n) if n is use else n
            blk[i + 1] = R().visit(b)
            del blk[i]
            ast.fix_missing_locations(blk[i])
            log.append(("-", "single-use temporary `%s` forwarded" % N))
            return True
    for st in blk:
        for fld in ("body", "orelse", "finalbody"):
            sub = getattr(st, fld, None)
            if isinstance(sub, list) and sub and isinstance(sub[0], ast.stmt) and _forward_once(sub, stores, loads, params, log):
                return True
    return False


def normalise(tree, modname, inventory):
    log = []
    inl = _Inliner(tree, modname, inventory, log)
    inl.run()
    tree._helpers = inl.found
    _OperatorCalls(tree, log).visit(tree)
    _ConstRight(log).visit(tree)
    _PositiveIf(log).visit(tree)
    _return_temps(tree, log)
    _forward_temps(tree, log, modname)
    _Enum(log).visit(tree)
    _Zip(log).visit(tree)
    _Aug(log).visit(tree)
    _builder_dicts(tree, log)
    _callable_alias(tree, log)
    _array_alias(tree, log)
    ast.fix_missing_locations(tree)
    return log


def prune_helpers(trees):
    """after inlining: a helper whose name is no longer referenced anywhere in the package has been absorbed by its callers;
    it is removed, so that inventory-style rules do not judge it without its call context.  A helper with a remaining
    reference (a call form that could not be inlined) stays and is analysed as an ordinary function."""
    removed = []
    refs = {}
    for t in trees:
        for n in ast.walk(t):
            if isinstance(n, ast.Name):
                refs[n.id] = refs.get(n.id, 0) + 1
            elif isinstance(n, ast.Attribute):
                refs[n.attr] = refs.get(n.attr, 0) + 1
            elif isinstance(n, ast.alias):
                refs[n.name] = refs.get(n.name, 0) + 1
            elif isinstance(n, ast.Constant) and isinstance(n.value, str) and n.value.isidentifier():
                refs[n.value] = refs.get(n.value, 0) + 1       # getattr(obj, "name") / __all__
    for t in trees:
        for owner, h in getattr(t, "_helpers", []):
            inner = sum(1 for n in ast.walk(h) if (isinstance(n, ast.Name) and n.id == h.name) or
                        (isinstance(n, ast.Attribute) and n.attr == h.name))
            if h.name.startswith("__") and h.name.endswith("__"):
                continue        # special methods are called by the interpreter, not by name
            if refs.get(h.name, 0) - inner == 0 and h in owner.body and (h.name.startswith("_") or not isinstance(owner, (
                    ast.Module, ast.ClassDef))):
                owner.body.remove(h)
                if not owner.body:
                    owner.body.append(ast.Pass())
                removed.append(h.name)
    return removed


def clone(n):
    """structural copy of a syntax tree that ignores the front end's annotations (_parent links etc.)"""
    if isinstance(n, list):
        return [clone(x) for x in n]
    if not isinstance(n, ast.AST):
        return n
    new = type(n)()
    for f in n._fields:
        if hasattr(n, f):
            setattr(new, f, clone(getattr(n, f)))
    for a in ("lineno", "col_offset", "end_lineno", "end_col_offset"):
        if hasattr(n, a):
            setattr(new, a, getattr(n, a))
    return new


def unrolled(fn):
    """on-demand view of a function with its literal loops unrolled (transformation 3); the rules that compare per-key or
    per-axis code ask for it, the others keep seeing the loops.  Front-end annotations (_qual, _mod, _cls, _file, _parent)
    are carried over."""
    f = clone(fn)
    log = []
    _unroll_fn(f, log)
    ast.fix_missing_locations(f)
    for a in ("_qual", "_mod", "_cls", "_file", "_role"):
        if hasattr(fn, a):
            setattr(f, a, getattr(fn, a))
    for n in ast.walk(f):
        n._file = getattr(fn, "_file", None)
        for c in ast.iter_child_nodes(n):
            c._parent = n
    f._parent = getattr(fn, "_parent", None)
    f._unrolled = log
    return f


def _finish_view(f, fn):
    ast.fix_missing_locations(f)
    for a in ("_qual", "_mod", "_cls", "_file", "_role"):
        if hasattr(fn, a):
            setattr(f, a, getattr(fn, a))
    for n in ast.walk(f):
        n._file = getattr(fn, "_file", None)
        if not hasattr(n, "lineno"):
            n.lineno = getattr(fn, "lineno", 0)
        for c in ast.iter_child_nodes(n):
            c._parent = n
    f._parent = getattr(fn, "_parent", None)
    return f


def desummed(fn):
    """on-demand view of fn with  x = sum(<iterable>)  /  x = sum(e for t in it [if c])  written as the loop it abbreviates
    (x = 0; for t in it: [if c:] x += e), so rules about an accumulation see one form"""
    f = clone(fn)

    def rewrite(body):
        out = []
        for st in body:
            for fld in ("body", "orelse", "finalbody"):
                if isinstance(getattr(st, fld, None), list) and not isinstance(st, (ast.FunctionDef, ast.ClassDef)):
                    setattr(st, fld, rewrite(getattr(st, fld)))
            if isinstance(st, ast.Return) and isinstance(st.value, ast.Call) and isinstance(st.value.func, ast.Name) and \
                    st.value.func.id == "sum" and len(st.value.args) == 1 and not st.value.keywords:
                # return sum(..)  ->  _total = sum(..) ; return _total
                a_ = ast.Assign(targets=[ast.Name(id="_total", ctx=ast.Store())], value=st.value, type_comment=None)
                r_ = ast.Return(value=ast.Name(id="_total", ctx=ast.Load()))
                ast.copy_location(a_, st)
                ast.copy_location(r_, st)
                out += rewrite([a_]) + [r_]
                continue
            v = st.value if isinstance(st, ast.Assign) and len(st.targets) == 1 and isinstance(st.targets[0], ast.Name) else None
            if isinstance(v, ast.Call) and isinstance(v.func, ast.Name) and v.func.id == "sum" and len(v.args) == 1 and \
                    not v.keywords:
                a, x = v.args[0], st.targets[0].id
                if isinstance(a, (ast.GeneratorExp, ast.ListComp)) and len(a.generators) == 1 and not a.generators[0].is_async:
                    g = a.generators[0]
                    tgt, it, elt, ifs = g.target, g.iter, a.elt, g.ifs
                else:
                    tgt, it, elt, ifs = ast.Name(id="_item", ctx=ast.Store()), a, ast.Name(id="_item", ctx=ast.Load()), []
                inc = ast.AugAssign(target=ast.Name(id=x, ctx=ast.Store()), op=ast.Add(), value=elt)
                inner = [inc]
                for c in reversed(ifs):
                    inner = [ast.If(test=c, body=inner, orelse=[])]
                loop = ast.For(target=tgt, iter=it, body=inner, orelse=[], type_comment=None)
                zero = ast.Assign(targets=[ast.Name(id=x, ctx=ast.Store())], value=ast.Constant(value=0), type_comment=None)
                for n_ in (zero, loop):
                    ast.copy_location(n_, st)
                out += [zero, loop]
            else:
                out.append(st)
        return out
    f.body = rewrite(f.body)
    return _finish_view(f, fn)


def delocalised(fn):
    """on-demand view of fn in which locals that merely name an attribute chain of a parameter (`dim = self.dim`,
    `usys = u.sys`; bound once, at the function's top level, the chain's root never rebound) are written out again"""
    f = clone(fn)
    params = {a.arg for a in f.args.args}
    cnt = {}
    for n in ast.walk(f):
        if isinstance(n, ast.Name) and isinstance(n.ctx, (ast.Store, ast.Del)):
            cnt[n.id] = cnt.get(n.id, 0) + 1

    def chain_root(e):
        while isinstance(e, ast.Attribute):
            e = e.value
        return e.id if isinstance(e, ast.Name) else None
    m, keep = {}, []
    body0 = []
    for st in f.body:       # a, b = self.x, v.y   ->   a = self.x ; b = v.y
        if isinstance(st, ast.Assign) and len(st.targets) == 1 and isinstance(st.targets[0], ast.Tuple) and \
                isinstance(st.value, ast.Tuple) and len(st.targets[0].elts) == len(st.value.elts) and \
                all(isinstance(t_, ast.Name) for t_ in st.targets[0].elts) and all(isinstance(v_, ast.Attribute) for v_ in st.value.elts):
            for t_, v_ in zip(st.targets[0].elts, st.value.elts):
                body0.append(ast.copy_location(ast.Assign(targets=[t_], value=v_, type_comment=None), st))
        else:
            body0.append(st)
    f.body = body0
    for st in f.body:
        if isinstance(st, ast.Assign) and len(st.targets) == 1 and isinstance(st.targets[0], ast.Name) and \
                isinstance(st.value, ast.Attribute) and cnt.get(st.targets[0].id) == 1 and \
                chain_root(st.value) in params and st.targets[0].id not in params and \
                all(x.lineno < st.lineno for x in ast.walk(f) if isinstance(x, ast.Name) and x.id == chain_root(st.value) and
                    isinstance(x.ctx, (ast.Store, ast.Del))):
            m[st.targets[0].id] = st.value
        else:
            keep.append(st)
    if m:
        f.body = [ast.fix_missing_locations(s_) for s_ in _subst(keep, m)]
    return _finish_view(f, fn)


def renamed(fn, mapping):
    """view of fn with local names replaced (mapping old -> canonical role name); used by rules that identify a local by
    what it is defined as (its role) and are written against the names the package uses today"""
    f = clone(fn)
    if mapping:
        f = _Ren(dict(mapping)).visit(f)
    ast.fix_missing_locations(f)
    for a in ("_qual", "_mod", "_cls", "_file", "_role"):
        if hasattr(fn, a):
            setattr(f, a, getattr(fn, a))
    for n in ast.walk(f):
        n._file = getattr(fn, "_file", None)
        for c in ast.iter_child_nodes(n):
            c._parent = n
    f._parent = getattr(fn, "_parent", None)
    return f


def dxdtf_roles(fn):
    """make_dxdtf: local name -> role name (k, sub, sto, chemostats), recognised by definition"""
    m = {}
    for st in ast.walk(fn):
        if isinstance(st, ast.Assign) and len(st.targets) == 1 and isinstance(st.targets[0], ast.Name):
            t = ast.unparse(st.value).replace(" ", "")
            nm = st.targets[0].id
            if ".ssto(" in t and isinstance(st.value, ast.ListComp):
                m[nm] = "sub"
            elif ".dsto(" in t and isinstance(st.value, ast.ListComp):
                m[nm] = "sto"
            elif isinstance(st.value, ast.ListComp) and "self.chemostats[" in t and t.startswith("[1-"):
                m[nm] = "chemostats"
    # the list the split reactions' constants are appended to
    for lp in [n for n in fn.body if isinstance(n, ast.For)]:
        for c in ast.walk(lp):
            if isinstance(c, ast.Call) and isinstance(c.func, ast.Attribute) and c.func.attr == "append" and \
                    isinstance(c.func.value, ast.Name) and c.func.value.id not in m and ast.unparse(lp.iter) == "reactions" \
                    and c.func.value.id != "reactions":
                m[c.func.value.id] = "k"
    return {a: b for a, b in m.items() if a != b}
